"""Obligation prover (DESIGN §4.6): term identities and sign facts by γ-cofactoring, re-parametrisation of
range assumptions and polynomial normalisation with sympy.  No model search, no path enumeration: two terms are
equal when `cancel(expand(lhs - rhs))` is 0 in every feasible cofactor; a sign holds when the factored form is
syntactically of that sign under the symbols' declared signs.

verdicts: ('PROVED', detail) | ('DISPROVED', detail) | ('UNPROVED', detail)

A cofactor is *infeasible* (skipped) only when its facts contradict each other syntactically (two sign facts on one
leaf, a numeric comparison that is false, a compound fact whose sign is decided the other way).  A residual in a
cofactor whose compound facts could not all be confirmed is reported as UNPROVED, never DISPROVED.
"""
import itertools, re
import sympy as sp
from .terms import mk, show, walk, map_term, ZERO, NEGCMP

MAX_CONDS = 10
FULL_MAX_NODES = 1500
FULL_BUDGET_S = 20
FLIP = {'lt': 'gt', 'le': 'ge', 'gt': 'lt', 'ge': 'le', 'eq': 'eq', 'ne': 'ne'}


class Infeasible(Exception):
    pass


class NeedSplit(Exception):
    def __init__(self, cond):
        self.cond = cond


class _MaxF(sp.Function):
    nargs = 2


class _MinF(sp.Function):
    nargs = 2


def _lattice(op, a, b):
    """uninterpreted, order-insensitive max/min over normalised arguments (sympy's own Max/Min try to decide
    comparisons, which is both slow and not wanted in opaque mode)"""
    if a == b:
        return a
    x, y = sorted((a, b), key=sp.default_sort_key)
    return (_MaxF if op == 'max' else _MinF)(x, y)


def canon(t):
    """canonical argument order for the commutative lattice operators (max/min), so that min(a,b) and min(b,a)
    are the same opaque leaf"""
    def f(x):
        if x[0] in ('max', 'min'):
            a, b = x[1], x[2]
            if show(b) < show(a):
                return (x[0], b, a)
        return x
    return map_term(t, f)


def _top_conds(t, acc):
    """conditions of the γ nodes reachable from the root through arithmetic nodes and γ branches only"""
    op = t[0]
    if op == 'gamma':
        if t[1] not in acc:
            acc.append(t[1])
        _top_conds(t[2], acc)
        _top_conds(t[3], acc)
    elif op in ('add', 'sub', 'mul', 'div'):
        _top_conds(t[1], acc)
        _top_conds(t[2], acc)
    elif op == 'neg':
        _top_conds(t[1], acc)


def conds_of(t, acc):
    for x in walk(t):
        if x[0] == 'gamma':
            c = x[1]
            if c not in acc:
                acc.append(c)


def cofactor(t, cond, val):
    def f(x):
        if x[0] == 'gamma' and x[1] == cond:
            return x[2] if val else x[3]
        if x == cond:
            return ('bool', val)
        return x
    return map_term(t, f)


def atoms_of_bool(c, val, out):
    op = c[0]
    if op == 'not':
        return atoms_of_bool(c[1], not val, out)
    if op == 'and' and val:
        atoms_of_bool(c[1], True, out); atoms_of_bool(c[2], True, out); return
    if op == 'or' and not val:
        atoms_of_bool(c[1], False, out); atoms_of_bool(c[2], False, out); return
    if op in NEGCMP:
        out.append((op if val else NEGCMP[op], c[1], c[2]))
        return
    if op == 'bool':
        if c[1] != val:
            raise Infeasible()
        return
    if op == 'gamma':
        # γ(c, a, b) as a boolean: handled by the outer case split on c
        out.append(('opaque', c, val))
        return
    out.append(('boolleaf', c, val))


def sign_of(e):
    """syntactic sign of a sympy expression under its symbols' assumptions:
    'zero' | 'pos' | 'nonneg' | 'neg' | 'nonpos' | None"""
    try:
        e = sp.cancel(sp.together(e))
    except Exception:
        return None
    if e == 0:
        return 'zero'
    if e.is_positive: return 'pos'
    if e.is_negative: return 'neg'
    if e.is_nonnegative: return 'nonneg'
    if e.is_nonpositive: return 'nonpos'
    try:
        f = sp.factor(e)
    except Exception:
        f = e
    if f.is_positive: return 'pos'
    if f.is_negative: return 'neg'
    if f.is_nonnegative: return 'nonneg'
    if f.is_nonpositive: return 'nonpos'
    n, d = sp.fraction(f)
    # denominators are assumed non-zero (identities and signs are claimed where the expression is defined)
    ds = 1 if (d.is_positive or d.is_nonnegative) else (-1 if (d.is_negative or d.is_nonpositive) else 0)
    if ds == 0:
        try:
            dd = sp.factor(d)
            ds = 1 if (dd.is_positive or dd.is_nonnegative) else (-1 if (dd.is_negative or dd.is_nonpositive) else 0)
        except Exception:
            ds = 0
    if ds == 0:
        return None
    n = n * ds
    if n.is_positive: return 'pos'
    if n.is_negative: return 'neg'
    if n.is_nonnegative: return 'nonneg'
    if n.is_nonpositive: return 'nonpos'
    n = sp.expand(n)
    terms = n.as_ordered_terms()
    if all(t.is_nonnegative for t in terms):
        return 'pos' if any(t.is_positive for t in terms) else 'nonneg'
    if all(t.is_nonpositive for t in terms):
        return 'neg' if any(t.is_negative for t in terms) else 'nonpos'
    return None


_LEAF_NAMES = {}


def leaf_name(t, names=None):
    """printed name of an opaque leaf; large terms get a bounded prefix plus a structural hash (names must be unique per
    structurally distinct term, not readable in full)"""
    key = (id(t), id(names))
    hit = _LEAF_NAMES.get(key)
    if hit is not None and hit[0] is t:
        return hit[1]
    n = 0
    big = False
    for _ in walk(t):
        n += 1
        if n > 250:
            big = True
            break
    if not big:
        name = show(t, names)
    else:
        head = t[0] if t[0] != 'uf' else 'uf:%s' % t[1]
        name = '%s⟨…%012x⟩' % (head, hash(t) & 0xffffffffffff)
    _LEAF_NAMES[key] = (t, name)
    return name


class Ctx:
    """sign context of one cofactor: leaf symbols with assumptions + re-parametrisations"""

    def __init__(self, prover):
        self.pv = prover
        self.plain = {}         # name -> plain symbol
        self.leaf_term = {}
        self.signs = {}         # name -> set of kinds
        self.subs = {}          # plain symbol -> expr over plain symbols (re-parametrisation)
        self.newsym = None
        self.cnt = 0
        self.atoms = set()

    def leaf(self, t):
        n = leaf_name(t, self.pv.names)
        s = self.plain.get(n)
        if s is None:
            s = sp.Symbol(n, real=True)
            self.plain[n] = s
            self.leaf_term[n] = t
            k = self.pv.kind_for(n)
            if k:
                self.signs.setdefault(n, set()).add(k)
            self.newsym = None
        return s

    def add_sign(self, name, kind):
        self.signs.setdefault(name, set()).add(kind)
        self.newsym = None

    def finalize(self):
        if self.newsym is not None:
            return
        ns = {}
        for n, s in self.plain.items():
            ks = self.signs.get(n, set())
            if 'zero' in ks:
                if ks & {'pos', 'neg', 'nonzero', 'unit'}:
                    raise Infeasible()
                ns[s] = sp.Integer(0)
                continue
            if ({'pos', 'unit'} & ks) and ({'neg', 'nonpos'} & ks):
                raise Infeasible()
            if 'neg' in ks and ({'pos', 'nonneg', 'unit'} & ks):
                raise Infeasible()
            if 'nonneg' in ks and 'nonpos' in ks:
                if 'nonzero' in ks:
                    raise Infeasible()
                ns[s] = sp.Integer(0)
                continue
            if 'unit' in ks:
                ns[s] = 1 / (1 + sp.Symbol('τ[%s]' % n, nonnegative=True))
            elif 'pos' in ks or ('nonneg' in ks and 'nonzero' in ks):
                ns[s] = sp.Symbol(n, positive=True)
            elif 'neg' in ks or ('nonpos' in ks and 'nonzero' in ks):
                ns[s] = -sp.Symbol('−' + n, positive=True)
            elif 'nonneg' in ks:
                ns[s] = sp.Symbol(n, nonnegative=True)
            elif 'nonpos' in ks:
                ns[s] = -sp.Symbol('−' + n, nonnegative=True)
        self.newsym = ns

    def apply(self, x):
        self.finalize()
        for _ in range(5):
            y = x.xreplace(self.subs) if self.subs else x
            if y == x:
                break
            x = y
        return x.xreplace(self.newsym) if self.newsym else x

    def sign(self, e):
        return sign_of(self.apply(e))


class Prover:
    def __init__(self, names=None, assume=None):
        """assume: list of (regex on printed leaf name, kind) with kind in pos|nonneg|neg|nonpos|unit"""
        self.names = names
        self.assume = [(re.compile(p), k) for p, k in (assume or [])]

    def kind_for(self, name):
        for rx, k in self.assume:
            if rx.search(name):
                return k
        return None

    # ---- public
    def eq(self, lhs, rhs, facts=()):
        return self._prove('eq', mk('sub', canon(lhs), canon(rhs)), [canon(f) for f in facts])

    def ge0(self, t, facts=()):
        return self._prove('ge0', t, facts)

    def gt0(self, t, facts=()):
        return self._prove('gt0', t, facts)

    def le(self, a, b, facts=()):
        """a <= b: lattice decomposition over max/min first, algebra on the leaves"""
        a, b = canon(a), canon(b)
        facts = [canon(f) for f in facts]
        r = self._le_struct(a, b, facts, 0)
        if r is not None and r[0] == 'PROVED':
            return r
        return self._prove('ge0', mk('sub', b, a), facts)

    def _le_struct(self, a, b, facts, depth):
        if a == b:
            return ('PROVED', 'identical terms')
        if depth > 8:
            return None
        for f in facts:
            if (f[0] in ('le', 'lt') and f[1] == a and f[2] == b) or (f[0] in ('ge', 'gt') and f[1] == b and f[2] == a):
                return ('PROVED', 'stated fact')
        if a[0] == 'max':            # max(x,y) <= b  <=>  x <= b and y <= b
            r1 = self._le_struct(a[1], b, facts, depth + 1)
            r2 = self._le_struct(a[2], b, facts, depth + 1)
            if r1 and r2 and r1[0] == r2[0] == 'PROVED':
                return ('PROVED', 'both arguments of the max are bounded (%s; %s)' % (r1[1][:60], r2[1][:60]))
            return None
        if b[0] == 'min':            # a <= min(x,y)  <=>  a <= x and a <= y
            r1 = self._le_struct(a, b[1], facts, depth + 1)
            r2 = self._le_struct(a, b[2], facts, depth + 1)
            if r1 and r2 and r1[0] == r2[0] == 'PROVED':
                return ('PROVED', 'bounded by both arguments of the min')
            return None
        if a[0] == 'min':            # min(x,y) <= b  <=  x <= b or y <= b
            for x in (a[1], a[2]):
                r = self._le_struct(x, b, facts, depth + 1)
                if r and r[0] == 'PROVED':
                    return ('PROVED', 'one argument of the min is bounded (%s)' % r[1][:80])
        if b[0] == 'max':            # a <= max(x,y)  <=  a <= x or a <= y
            for x in (b[1], b[2]):
                r = self._le_struct(a, x, facts, depth + 1)
                if r and r[0] == 'PROVED':
                    return ('PROVED', 'bounded by one argument of the max (%s)' % r[1][:80])
        if a[0] in ('max', 'min') or b[0] in ('max', 'min'):
            return None
        r = self._prove('ge0', mk('sub', b, a), facts)
        return r if r[0] == 'PROVED' else None

    def holds(self, boolterm, facts=()):
        """prove a comparison term"""
        op = boolterm[0]
        if op in ('ge', 'le', 'gt', 'lt'):
            a, b = boolterm[1], boolterm[2]
            if op in ('le', 'lt'):
                a, b = b, a
            return self._prove('ge0' if op in ('ge', 'le') else 'gt0', mk('sub', a, b), facts)
        if op == 'eq':
            return self._prove('eq', mk('sub', boolterm[1], boolterm[2]), facts)
        return ('UNPROVED', 'unsupported goal shape ' + op)

    # ---- core
    def _prove(self, kind, goal, facts):
        facts = list(facts)
        # L0: every max/min/abs/γ is an opaque leaf (sound: an identity over opaque sub-terms holds for all their values)
        # L1: split the γ's reachable through arithmetic from the root, their conditions being opaque booleans
        for level in (0, 1):
            try:
                v = self._prove_opaque(kind, goal, facts, level)
            except (Infeasible, NeedSplit):
                v = None
            if v is not None and v[0] == 'PROVED':
                return v
        return self._prove_full(kind, goal, facts)

    def _prove_opaque(self, kind, goal, facts, level):
        self._opaque = True
        try:
            if level == 0:
                r = self._prove_flat(kind, goal, [])
                return (r[0], 'opaque sub-terms; ' + r[1])
            conds = []
            _top_conds(goal, conds)
            if not conds or len(conds) > 6:
                return None
            allok = True
            n = 0
            for vals in itertools.product([True, False], repeat=len(conds)):
                g = goal
                for c, v in zip(conds, vals):
                    g = cofactor(g, c, v)
                r = self._prove_flat(kind, g, [])
                n += 1
                if r[0] != 'PROVED':
                    allok = False
                    break
            if allok:
                return ('PROVED', '%d cofactor(s) over opaque conditions; identity holds in each' % n)
            return None
        finally:
            self._opaque = False

    def _prove_full(self, kind, goal, facts):
        import time as _time
        self._deadline = _time.time() + FULL_BUDGET_S
        n_nodes = sum(1 for _ in walk(goal))
        if n_nodes > FULL_MAX_NODES:
            return ('UNPROVED', 'identity not established with opaque sub-terms and the term is too large (%d nodes) for case analysis' % n_nodes)
        conds = []
        conds_of(goal, conds)
        for f in facts:
            conds_of(f, conds)
        extra = []
        for _round in range(12):
            allc = conds + extra
            if len(allc) > MAX_CONDS:
                return ('UNPROVED', 'too many case splits (%d conditions)' % len(allc))
            try:
                return self._prove_cases(kind, goal, facts, allc)
            except NeedSplit as ns:
                if ns.cond in allc:
                    return ('UNPROVED', 'split loop on %s' % show(ns.cond, self.names)[:100])
                extra.append(ns.cond)
        return ('UNPROVED', 'case-split budget exhausted')

    def _prove_cases(self, kind, goal, facts, conds):
        results = []
        import time as _time
        for vals in itertools.product([True, False], repeat=len(conds)):
            if _time.time() > getattr(self, '_deadline', 1e18):
                return ('UNPROVED', 'case analysis exceeded its time budget (%ds)' % FULL_BUDGET_S)
            g = goal
            fs = list(facts)
            atoms = []
            try:
                for c, v in zip(conds, vals):
                    g = cofactor(g, c, v)
                    fs = [cofactor(f, c, v) for f in fs]
                for c, v in zip(conds, vals):
                    # the condition itself may contain γ's decided by earlier conditions
                    cc = c
                    for c2, v2 in zip(conds, vals):
                        if c2 is not c:
                            cc = cofactor(cc, c2, v2)
                    atoms_of_bool(cc, v, atoms)
                for f in fs:
                    atoms_of_bool(f, True, atoms)
                # congruence by rewriting: an equality between two non-arithmetic terms (indices, references) that
                # holds in this cofactor is applied to the goal and to the other atoms
                for a in list(atoms):
                    if a[0] == 'eq' and self._is_leaf(a[1]) and self._is_leaf(a[2]) and a[1] != a[2]:
                        src, dst = (a[1], a[2]) if len(show(a[1])) >= len(show(a[2])) else (a[2], a[1])
                        rw = lambda x, s_=src, d_=dst: d_ if x == s_ else x
                        g = map_term(g, rw)
                        atoms = [(b[0], map_term(b[1], rw), map_term(b[2], rw)) if b[0] in NEGCMP else b for b in atoms if b is not a]
                verdict, detail = self._prove_flat(kind, g, atoms)
            except Infeasible:
                continue
            case = ', '.join('%s=%s' % (show(c, self.names)[:60], 'T' if v else 'F') for c, v in zip(conds, vals))
            results.append((verdict, case, detail))
        if not results:
            return ('PROVED', 'vacuous: every cofactor is infeasible under the stated facts')
        bad = [r for r in results if r[0] != 'PROVED']
        if not bad:
            return ('PROVED', '%d feasible cofactor(s); %s' % (len(results), results[0][2]))
        worst = 'DISPROVED' if any(r[0] == 'DISPROVED' for r in bad) else 'UNPROVED'
        bad.sort(key=lambda r: 0 if r[0] == 'DISPROVED' else 1)
        return (worst, '; '.join('[%s] %s: %s' % (r[1] or 'no split', r[0], r[2]) for r in bad[:3]))

    # ---- conversion with sign-resolved max/min/abs
    def _conv(self, t, cx):
        op = t[0]
        if op == 'num':
            return sp.Rational(t[1].numerator, t[1].denominator)
        if op == 'add': return self._conv(t[1], cx) + self._conv(t[2], cx)
        if op == 'sub': return self._conv(t[1], cx) - self._conv(t[2], cx)
        if op == 'mul': return self._conv(t[1], cx) * self._conv(t[2], cx)
        if op == 'div': return self._conv(t[1], cx) / self._conv(t[2], cx)
        if op == 'neg': return -self._conv(t[1], cx)
        if op == 'sqrt': return sp.sqrt(self._conv(t[1], cx))
        if op == 'powi': return self._conv(t[1], cx) ** int(t[2])
        if op == 'bool': return sp.Integer(1 if t[1] else 0)
        if getattr(self, '_opaque', False) and op in ('gamma', 'max', 'min', 'abs'):
            # opaque mode: no case split.  abs/max/min become sympy's own Abs/Max/Min over the *normalised* arguments,
            # so |A| and |B| coincide whenever A - B normalises to 0 (and |−x| = |x|, max/min are order-insensitive)
            try:
                if op == 'abs':
                    return sp.Abs(sp.expand(self._conv(t[1], cx)))
                if op in ('max', 'min'):
                    a = sp.expand(self._conv(t[1], cx)); b = sp.expand(self._conv(t[2], cx))
                    return (sp.Max if op == 'max' else sp.Min)(a, b, evaluate=False) if False else _lattice(op, a, b)
            except Exception:
                pass
            return cx.leaf(t)
        if op == 'gamma':
            raise NeedSplit(t[1])
        if op in ('max', 'min'):
            a = self._conv(t[1], cx)
            b = self._conv(t[2], cx)
            s = cx.sign(a - b)
            if s in ('pos', 'nonneg', 'zero'):
                return a if op == 'max' else b
            if s in ('neg', 'nonpos'):
                return b if op == 'max' else a
            if ('ge', t[1], t[2]) in cx.atoms:
                return a if op == 'max' else b
            if ('lt', t[1], t[2]) in cx.atoms:
                return b if op == 'max' else a
            raise NeedSplit(('ge', t[1], t[2]))
        if op == 'abs':
            a = self._conv(t[1], cx)
            s = cx.sign(a)
            if s in ('pos', 'nonneg', 'zero'):
                return a
            if s in ('neg', 'nonpos'):
                return -a
            if ('ge', t[1], ZERO) in cx.atoms:
                return a
            if ('lt', t[1], ZERO) in cx.atoms:
                return -a
            raise NeedSplit(('ge', t[1], ZERO))
        return cx.leaf(t)

    def _prove_flat(self, kind, goal, atoms, _depth=0, _force=None):
        r = self._prove_flat1(kind, goal, atoms, _depth, _force)
        if r[0] != 'PROVED' and _force is None and getattr(self, '_rejected', None):
            # a bound on a symbol that also has a sign fact was not used (it does not imply the sign): using the bound and
            # dropping the sign fact is also sound for a proof (fewer assumptions)
            rej = set(self._rejected)
            try:
                r2 = self._prove_flat1(kind, goal, atoms, _depth, rej)
                if r2[0] == 'PROVED':
                    return r2
            except Infeasible:
                pass
        return r

    def _prove_flat1(self, kind, goal, atoms, _depth=0, _force=None):
        self._rejected = []
        cx = Ctx(self)
        cx.atoms = {a for a in atoms if a[0] in ('ge', 'lt', 'gt', 'le')}
        rels = []
        opaque = 0
        # 1. leaf sign facts first (they do not depend on anything)
        pend = []
        for a in atoms:
            if a[0] in ('boolleaf',):
                continue
            if a[0] == 'opaque':
                opaque += 1
                continue
            op, A, B = a
            if B == ZERO and self._is_leaf(A):
                s = cx.leaf(A)
                cx.add_sign(s.name, {'lt': 'neg', 'le': 'nonpos', 'gt': 'pos', 'ge': 'nonneg', 'eq': 'zero', 'ne': 'nonzero'}[op])
            elif A == ZERO and self._is_leaf(B):
                s = cx.leaf(B)
                cx.add_sign(s.name, {'lt': 'pos', 'le': 'nonneg', 'gt': 'neg', 'ge': 'nonpos', 'eq': 'zero', 'ne': 'nonzero'}[op])
            else:
                pend.append(a)
        # 2. relational facts: re-parametrise `±leaf REL expr` when that implies the leaf's known sign facts,
        #    keep the rest for confirmation by sign
        unused = []
        for op, A, B in pend:
            Ae = self._conv(A, cx)
            Be = self._conv(B, cx)
            done = False
            for X0, Y0, o0 in ((Ae, Be, op), (Be, Ae, FLIP[op])):
                X, Y, o = X0, Y0, o0
                if not X.is_Symbol and (-X).is_Symbol:
                    X, Y, o = -X, -Y, FLIP[o]
                if not X.is_Symbol or X in cx.subs or Y.has(X) or any(X in v.free_symbols for v in cx.subs.values()):
                    continue
                if o == 'ne':
                    continue
                cx.cnt += 1
                nm = 's%d[%s]' % (cx.cnt, X.name)
                if o == 'eq':
                    new = Y
                elif o in ('gt', 'ge'):
                    new = Y + (sp.Symbol(nm, positive=True) if o == 'gt' else sp.Symbol(nm, nonnegative=True))
                else:
                    new = Y - (sp.Symbol(nm, positive=True) if o == 'lt' else sp.Symbol(nm, nonnegative=True))
                ks = cx.signs.get(X.name)
                if ks:
                    sg = sign_of(cx.apply(new))
                    if not all(_implies(sg, k) for k in ks):
                        if _force and X.name in _force:
                            cx.signs.pop(X.name)
                            cx.newsym = None
                            cx.subs[X] = new
                            done = True
                            break
                        self._rejected.append(X.name)
                        continue
                    # the re-parametrisation implies every sign fact known about X: it replaces them
                    cx.signs.pop(X.name)
                    cx.newsym = None
                cx.subs[X] = new
                done = True
                break
            if not done and op != 'ne':
                # general linear form: the fact is c*X + rest OP 0 with numeric c for an otherwise unconstrained X
                d = sp.expand(Ae - Be)
                cands = sorted(d.free_symbols, key=lambda z: (1 if cx.signs.get(z.name) else 0, z.name))
                for X in cands:
                    if X in cx.subs or any(X in v.free_symbols for v in cx.subs.values()):
                        continue
                    c = d.coeff(X, 1)
                    if not c.is_number or c == 0:
                        continue
                    rest = sp.expand(d - c * X)
                    if rest.has(X):
                        continue
                    o = op if c > 0 else FLIP[op]
                    cx.cnt += 1
                    nm = 's%d[%s]' % (cx.cnt, X.name)
                    base = -rest / c
                    if o == 'eq':
                        new = base
                    elif o in ('gt', 'ge'):
                        new = base + (sp.Symbol(nm, positive=True) if o == 'gt' else sp.Symbol(nm, nonnegative=True))
                    else:
                        new = base - (sp.Symbol(nm, positive=True) if o == 'lt' else sp.Symbol(nm, nonnegative=True))
                    ks = cx.signs.get(X.name)
                    if ks:
                        sg = sign_of(cx.apply(new))
                        if not all(_implies(sg, k) for k in ks):
                            continue
                        cx.signs.pop(X.name)
                        cx.newsym = None
                    cx.subs[X] = new
                    done = True
                    break
            if not done:
                unused.append((op, Ae, Be))
        # 3. confirm / refute the remaining facts by sign
        unconf = []
        for op, Ae, Be in unused:
            d = cx.apply(Ae - Be)
            sg = sign_of(d)
            ok, contra = _fact_status(op, sg)
            if contra:
                raise Infeasible()
            if not ok and sg is not None and sg != 'zero':
                # a strict fact whose weak form is decided (d <= 0 known, d < 0 asked) holds on a dense open part of the
                # region unless d vanishes identically; same for d != 0
                if (op == 'lt' and sg == 'nonpos') or (op == 'gt' and sg == 'nonneg') or op == 'ne':
                    ok = True
            if not ok:
                # a sum of non-negative terms that is <= 0 (or non-positive terms >= 0): every term is zero
                if (op == 'le' and sg == 'nonneg') or (op == 'ge' and sg == 'nonpos'):
                    zs = []
                    for tm in sp.expand(d).as_ordered_terms():
                        c, rest = tm.as_coeff_Mul()
                        if rest.is_Symbol:
                            nm = rest.name[1:] if rest.name.startswith('−') else rest.name
                            if nm in cx.leaf_term:
                                zs.append(('eq', cx.leaf_term[nm], ZERO))
                                continue
                        zs = None
                        break
                    if zs and _depth < 3:
                        return self._prove_flat(kind, goal, [a for a in atoms] + zs, _depth + 1)
                unconf.append(d.free_symbols)
        e = self._conv(goal, cx)
        r = cx.apply(e)
        try:
            r = sp.cancel(sp.together(sp.expand(r)))
        except Exception as ex:
            return ('UNPROVED', 'normalisation failed: %s' % ex)
        names = {str(s) for s in r.free_symbols}
        havoc = any(('?' in n) or ('L[' in n) for n in names)
        # an unconfirmed fact only weakens a refutation when it constrains symbols of the residual
        unconfirmed = sum(1 for fs in unconf if fs & r.free_symbols) + opaque
        if kind == 'eq':
            if r == 0:
                return ('PROVED', 'lhs - rhs normalises to 0')
            if havoc:
                return ('UNPROVED', 'residual %s depends on widened/havoc values' % str(r)[:300])
            if unconfirmed:
                return ('UNPROVED', 'residual %s in a cofactor with %d unconfirmed fact(s)' % (str(sp.factor(r))[:300], unconfirmed))
            return ('DISPROVED', 'residual lhs - rhs = %s' % str(sp.factor(r))[:400])
        s = sign_of(r)
        want = ('pos',) if kind == 'gt0' else ('pos', 'nonneg', 'zero')
        if s in want:
            return ('PROVED', 'sign of %s is %s' % (str(sp.factor(r))[:160], s))
        if s in ('neg',) and not havoc and not unconfirmed:
            return ('DISPROVED', 'expression %s is negative' % str(sp.factor(r))[:300])
        return ('UNPROVED', 'sign of %s not decided%s' % (str(sp.factor(r))[:300],
                                                          '; %d unconfirmed fact(s)' % unconfirmed if unconfirmed else ''))

    @staticmethod
    def _is_leaf(t):
        return t[0] not in ('num', 'add', 'sub', 'mul', 'div', 'neg', 'sqrt', 'powi', 'bool', 'gamma', 'max', 'min', 'abs')


def _implies(sg, kind):
    """does a decided sign `sg` imply the sign fact `kind`?"""
    if sg is None:
        return False
    return {'pos': sg == 'pos', 'nonneg': sg in ('pos', 'nonneg', 'zero'), 'neg': sg == 'neg',
            'nonpos': sg in ('neg', 'nonpos', 'zero'), 'zero': sg == 'zero', 'nonzero': sg in ('pos', 'neg'),
            'unit': False}.get(kind, False)


def _fact_status(op, s):
    """(confirmed, contradicted) of fact `d op 0` given the decided sign s of d"""
    if s is None:
        return (False, False)
    table = {
        'ge': ({'pos', 'nonneg', 'zero'}, {'neg'}),
        'gt': ({'pos'}, {'neg', 'nonpos', 'zero'}),
        'le': ({'neg', 'nonpos', 'zero'}, {'pos'}),
        'lt': ({'neg'}, {'pos', 'nonneg', 'zero'}),
        'eq': ({'zero'}, {'pos', 'neg'}),
        'ne': ({'pos', 'neg'}, {'zero'}),
    }
    okset, badset = table[op]
    return (s in okset, s in badset)
