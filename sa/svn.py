"""Symbolic value numbering over MIR (DESIGN §4.6): forward dataflow whose abstract value is a term.

 * store: access path -> term; references are tracked exactly; element writes are functional updates
 * joins: gated merges (γ / Γ) keyed by the branch decisions since function entry
 * loops: widening of every store key whose value differs across a back edge (fixpoint over whole-function runs)
 * calls: table of modelled std/uom operations, closure inlining, bottom-up summaries of crate functions,
          conservative havoc of `&mut` arguments otherwise
Only paths that can still reach an Ok exit are followed (DESIGN §4.2); a decision whose other branch cannot
reach an Ok exit is recorded as a *guard*.
"""
import re, itertools, collections
from fractions import Fraction
from . import mir
from .cfg import CFG
from .terms import *        # noqa: F401,F403
from .terms import mk, num, show, show_path, map_term, walk, has_havoc, ZERO, ONE, UNIT, TRUE, FALSE, _is_path, beta_elem
from .program import strip_generics

DIM_TAGS = {'Ratio', 'Power', 'Energy', 'Time', 'Length', 'Mass', 'Velocity', 'Force', 'Acceleration', 'PowerRate',
            'Area', 'InvVelocity', 'MassDensity', 'SpecificPower', 'SpecificEnergy', 'Pressure', 'Volume',
            'Curvature', 'Frequency', 'InvArea', 'Momentum', 'ForceRate', 'MassRate', 'LinearMassDensity',
            'VolumeRate', 'AngleQ', 'TemperatureQ'}

UNIT_FACTORS = {   # uom unit -> factor to SI base (only units that occur in the crate; unknown units fail closed to uf)
    'watt': 1, 'kilowatt': 1000, 'megawatt': 10**6, 'joule': 1, 'kilojoule': 1000, 'megajoule': 10**6,
    'watt_hour': 3600, 'kilowatt_hour': 3600000, 'megawatt_hour': 3600 * 10**6,
    'meter': 1, 'kilometer': 1000, 'foot': Fraction('0.3048'), 'mile': Fraction('1609.344'),
    'kilogram': 1, 'megagram': 1000, 'pound': Fraction('0.45359237'), 'ton_short': Fraction('907.18474'), 'ton': 1000,
    'second': 1, 'hour': 3600, 'minute': 60, 'ratio': 1, 'percent': Fraction('0.01'), 'newton': 1, 'pound_force': Fraction('4.4482216152605'),
    'meter_per_second': 1, 'mile_per_hour': Fraction('0.44704'), 'kilometer_per_hour': Fraction(1000, 3600),
    'meter_per_second_squared': 1, 'square_meter': 1, 'square_foot': Fraction('0.09290304'), 'cubic_meter': 1,
    'radian': 1, 'degree': None, 'radian_per_meter': 1, 'degree_per_meter': None, 'hertz': 1, 'watt_per_second': 1,
    'kilogram_per_cubic_meter': 1, 'second_per_meter': 1, 'watt_per_kilogram': 1, 'kilowatt_per_kilogram': 1000,
    'joule_per_kilogram': 1, 'kilowatt_hour_per_kilogram': 3600000, 'watt_hour_per_kilogram': 3600, 'kelvin': 1, 'pascal': 1,
}


def _is_dim(ty):
    ty = (ty or '').strip()
    if ty.startswith(('Quantity<', 'uom::si::Quantity<')):
        return True
    return ty in DIM_TAGS or ty.startswith('Q_') or (ty.endswith('Q') and ty[:-1].isalpha() and ty[0].isupper() and len(ty) > 2)


def strip_ref(ty):
    ty = (ty or '').strip()
    while True:
        m = re.match(r"^(?:&(?:'\w+ )?(?:mut )?|\*(?:const|mut) )(.*)$", ty, re.S)
        if m:
            ty = m.group(1).strip()
            continue
        m = re.match(r'^(?:std::boxed::)?Box<(.*)>$', ty, re.S)
        if m:
            ty = m.group(1).strip()
            continue
        return ty


def elem_type(ty):
    ty = strip_ref(ty)
    m = re.match(r'^(?:std::vec::)?Vec<(.*)>$', ty, re.S)
    if m:
        return mir.split_top(m.group(1))[0]
    m = re.match(r'^\[(.*?)(?:; [^\]]*)?\]$', ty, re.S)
    if m:
        return m.group(1)
    return None


class Store:
    """path -> term with 'longer entries are newer' overlay semantics."""
    __slots__ = ('d', 'roots')

    def __init__(self, d=None, roots=None):
        self.d = d if d is not None else {}
        self.roots = roots if roots is not None else {}

    def copy(self):
        return Store(dict(self.d), {k: set(v) for k, v in self.roots.items()})

    def get(self, k):
        return self.d.get(k)

    def set(self, k, v):
        r = k[0]
        ks = self.roots.get(r)
        if ks is None:
            ks = self.roots[r] = set()
        n = len(k)
        if len(ks) > (1 if k in ks else 0):
            dead = [x for x in ks if len(x) > n and x[:n] == k]
            for x in dead:
                ks.discard(x)
                del self.d[x]
        ks.add(k)
        self.d[k] = v

    def below(self, k):
        ks = self.roots.get(k[0])
        if not ks or (len(ks) == 1 and k in ks):
            return ()
        n = len(k)
        return [x for x in ks if len(x) > n and x[:n] == k]

    def keys(self):
        return self.d.keys()


class State:
    __slots__ = ('store', 'pc')

    def __init__(self, store=None, pc=()):
        self.store = store or Store()
        self.pc = pc

    def copy(self):
        return State(self.store.copy(), self.pc)


class Guard:
    __slots__ = ('cond', 'outcome', 'gate', 'span', 'block', 'kind', 'origin')

    def __init__(self, cond, outcome, gate, span, block, kind='switch', origin=None):
        self.cond = cond          # term switched on
        self.outcome = outcome    # key of the surviving edge ('0' = false, 'otherwise'/'1' = true for bools)
        self.gate = gate          # decisions (pc) under which the guard is evaluated
        self.span = span
        self.block = block
        self.kind = kind
        self.origin = origin      # callee fid when inherited through a summary

    def holds_term(self):
        """the boolean term that is true on every Ok path through this guard"""
        c = self.cond
        if self.outcome == '0':
            return mk('not', c)
        if self.outcome in ('otherwise', '1') :
            return c
        return ('eq', c, ('sym', 'case:' + str(self.outcome)))

    def __repr__(self):
        return 'Guard(%s => %s | gate=%s)' % (show(self.cond)[:120], self.outcome, len(self.gate))


class CallRec:
    __slots__ = ('block', 'callee', 'targets', 'args', 'argvals', 'pc', 'span', 'result', 'in_loop', 'how', 'pointees')

    def __init__(self, block, callee, targets, args, argvals, pc, span, in_loop):
        self.block = block; self.callee = callee; self.targets = targets; self.args = args
        self.argvals = argvals; self.pc = pc; self.span = span; self.result = None; self.in_loop = in_loop
        self.how = None


class Summary:
    __slots__ = ('fid', 'ret', 'writes', 'guards', 'nparams', 'has_loop', 'imprecise', 'calls')

    def __init__(self, fid, ret, writes, guards, nparams, has_loop, imprecise):
        self.fid = fid; self.ret = ret; self.writes = writes; self.guards = guards
        self.nparams = nparams; self.has_loop = has_loop; self.imprecise = imprecise


class Engine:
    MAX_DEPTH = 12

    def __init__(self, prog):
        self.prog = prog
        self.summ = {}
        self.ana = {}
        self.in_progress = []
        self.const_cache = {}
        self.closure_index = None
        self.fresh = itertools.count()
        # fids kept uninterpreted at call sites (their own bodies are analysed separately: C08 interp lemma)
        self.all_paths = set()       # fids analysed over every path (Err exits included): validators
        self.no_inline = {'utils::interp1d', 'utils::interp3d'}
        # tolerance helpers stay uninterpreted predicates (their bodies are checked in C09-0)
        for b in prog.bodies:
            if b.kind == 'fn' and re.match(r'^(\w+::)*almost_(eq|le|ge|lt|gt)(_uom)?$', b.fid or ''):
                self.no_inline.add(b.fid)
        self.stats = {'analysed': 0, 'summaries': 0}

    # ------------------------------------------------------------------ entry points
    def analysis(self, body):
        a = self.ana.get(body.fid)
        if a is None:
            a = Analysis(self, body)
            self.ana[body.fid] = a
            a.run()
            self.stats['analysed'] += 1
        return a

    def summary(self, body):
        fid = body.fid
        if fid in self.summ:
            return self.summ[fid]
        if fid in self.in_progress or len(self.in_progress) > self.MAX_DEPTH:
            return None
        self.in_progress.append(fid)
        try:
            a = self.analysis(body)
            s = a.make_summary()
            self.summ[fid] = s
            self.stats['summaries'] += 1
            return s
        finally:
            self.in_progress.pop()

    def const_value(self, name):
        """value of a crate const / promoted by analysing its body; None if unknown"""
        if name in self.const_cache:
            return self.const_cache[name]
        self.const_cache[name] = None
        b = self._find_const(name)
        v = None
        if b is None:
            ic = self.prog.inline_consts
            n2 = strip_generics(name)
            segs = [x for x in n2.split('::') if x]
            for k in (n2, '::'.join(segs[-3:]), '::'.join(segs[-2:]), segs[-1] if segs else ''):
                if k in ic:
                    m = Analysis._NUM_RE.match(ic[k])
                    if m:
                        v = ('num', Fraction(m.group(1)))
                    elif ic[k] in ('true', 'false'):
                        v = ('bool', ic[k] == 'true')
                    break
        if b is not None:
            a = Analysis(self, b)
            a.run()
            if a.exit_state is not None:
                v = a.load((('local', 0),), a.exit_state)

                def close(x, depth=0):
                    # references into the const body's own locals become self-contained constant references
                    if x[0] == 'ref' and x[1][0][0] == 'local' and depth < 6:
                        return ('constref', close(a.load(x[1], a.exit_state), depth + 1))
                    if x[0] in ('tuple', 'array', 'some', 'ok'):
                        return (x[0],) + tuple(close(y, depth + 1) if isinstance(y, tuple) and y and isinstance(y[0], str) else y for y in x[1:])
                    if x[0] == 'agg':
                        return ('agg', x[1], tuple((k, close(y, depth + 1)) for k, y in x[2]))
                    return x
                if v is not None:
                    v = close(v)
        self.const_cache[name] = v
        return v

    def _find_const(self, name):
        """const / promoted body for an operand name.  Names are matched exactly on their normalised form; shorter suffixes
        are used only when they are unique in the crate (promoted[n] of different functions share their last segments)."""
        p = self.prog
        idx = p.__dict__.get('_const_index')
        if idx is None:
            idx = collections.defaultdict(list)
            for b in p.bodies:
                if b.kind != 'fn':
                    segs = b.fid.split('::')
                    for k in {b.fid, b.path, '::'.join(segs[-3:]), '::'.join(segs[-2:])} | ({segs[-1]} if 'promoted[' not in b.fid else set()):
                        idx[k].append(b)
            p.__dict__['_const_index'] = idx

        def uniq(k):
            c = idx.get(k) or []
            return c[0] if len(c) == 1 else None
        hit = uniq(name)
        if hit is not None:
            return hit
        cands = []
        if name.startswith('<'):
            try:
                e = mir.find_matching(name, 0)
                inner = name[1:e - 1]
                kpos = p._top_level_as(inner)
                if kpos is not None:
                    ty = re.sub(r'\s+', '', p.qual_type(inner[:kpos]))
                    if re.sub(r'<.*', '', ty) in p.types:
                        ty = re.sub(r'<.*', '', ty)
                    tr = strip_generics(inner[kpos + 4:]).split('::')[-1]
                    rest = strip_generics(name[e:])
                    cands.append('<%s as %s>%s' % (ty, tr, rest if rest.startswith('::') else '::' + rest))
                    cands.append('%s%s' % (ty, rest if rest.startswith('::') else '::' + rest))
            except ValueError:
                pass
        n2 = strip_generics(name)
        segs = [x for x in n2.split('::') if x]
        cands += [n2, '::'.join(segs[-3:]), '::'.join(segs[-2:])]
        if segs and 'promoted[' not in segs[-1]:
            cands.append(segs[-1])
        for k in cands:
            hit = uniq(k)
            if hit is not None:
                return hit
        return None

    def closure_body(self, cid):
        """cid = '{closure@file:L:C: L:C}' -> Body"""
        if self.closure_index is None:
            self.closure_index = {}
            for b in self.prog.bodies:
                if b.kind == 'fn' and b.params:
                    m = re.search(r'\{closure@[^}]*\}', b.params[0][1])
                    if m and '{closure#' in b.fid:
                        self.closure_index.setdefault(m.group(0), b)
        return self.closure_index.get(cid)


# ============================================================================================== Analysis
class Analysis:
    def __init__(self, engine, body):
        self.eng = engine
        self.prog = engine.prog
        self.body = body
        self.cfg = CFG(body)
        if body.fid in engine.all_paths:
            # follow every non-cleanup path, not only those that can still reach an Ok exit
            self.cfg.ok_region = set(self.cfg.reach)
            self.cfg.err_blocks = set()
        self.names = {}
        for k, v in body.debug.items():
            m = re.fullmatch(r'_(\d+)', v)
            if m:
                self.names.setdefault(int(m.group(1)), k)
        self.param_types = dict(body.params)
        self.havoc = {}                 # loop header -> set(keys)
        self.exit_paths = []            # [(pc, returned value)] of every return reached
        self.loop_entry = {}            # loop header -> State on the entry edge (before widening)
        self.loop_back = {}             # loop header -> [State on each back edge]
        self.live_keys = {}             # switched-on term -> set of live outcome keys (for join completeness)
        self.guards = []
        self.calls = []
        self.block_in = {}
        self.exit_state = None
        self.notes = []
        self.has_loop = False
        self.stores_log = []            # (block, path, term, span) for every field store (rules inspect these)
        self.uid = 0

    # ------------------------------------------------------------------ fixpoint driver
    def run(self):
        cfg = self.cfg
        self.has_loop = bool(cfg.loops)
        for it in range(8):
            self.guards = []
            self.calls = []
            self.stores_log = []
            self.block_in = {}
            self.loop_entry = {}
            self.loop_back = {}
            self.uid = 0
            changed = self._run_once()
            if not changed:
                break
        else:
            self.notes.append('loop widening did not stabilise in 8 rounds')
        return self

    def _order(self):
        cfg = self.cfg
        be = cfg.back_edges()
        seen = set()
        order = []
        follow = cfg.reach

        def dfs(b):
            stack = [(b, iter(cfg.succ[b]))]
            seen.add(b)
            while stack:
                n, it = stack[-1]
                adv = False
                for s in it:
                    if s in seen or s not in follow or (n, s) in be:
                        continue
                    seen.add(s)
                    stack.append((s, iter(cfg.succ[s])))
                    adv = True
                    break
                if not adv:
                    order.append(n)
                    stack.pop()
        if cfg.entry:
            dfs(cfg.entry)
        order.reverse()
        return order, be

    def _run_once(self):
        cfg = self.cfg
        order, be = self._order()
        edge = {}
        changed = False
        okr = cfg.ok_region
        final = []
        for bb in order:
            if bb not in okr:
                continue
            if bb == cfg.entry:
                st = self._entry_state()
            else:
                ins = [edge[(p, bb)] for p in cfg.pred[bb] if (p, bb) in edge]
                if not ins:
                    continue
                st = self._merge(ins, bb)
            if bb in cfg.loops:
                hv = self.havoc.get(bb, ())
                self.loop_entry[bb] = st.copy()          # state on the entry edge(s), before widening (rules check recurrences)
                self.loop_back[bb] = []
                for k in hv:
                    st.store.set(k, ('loopvar', bb, k))
            self.block_in[bb] = st
            st = st.copy()
            blk = cfg.blocks[bb]
            for s in blk.stmts:
                self._stmt(s, st, bb)
            t = blk.term
            outs = self._terminator(t, st, bb)
            for tgt, st2 in outs:
                if (bb, tgt) in be:
                    # compare with header entry state -> widen
                    self.loop_back.setdefault(tgt, []).append(st2)
                    hin = self.block_in.get(tgt)
                    if hin is not None:
                        hv = self.havoc.setdefault(tgt, set())
                        for k in set(st2.store.keys()) | set(hin.store.keys()):
                            if k in hv:
                                continue
                            if k[0][0] == 'local' and self._is_temp_dead(k, tgt):
                                continue
                            a = st2.store.get(k)
                            b_ = hin.store.get(k)
                            if a != b_:
                                hv.add(k)
                                changed = True
                    continue
                if tgt in okr:
                    edge[(bb, tgt)] = st2
            if t.kind == 'return':
                final.append(st)
        self.exit_paths = [(f_.pc, self.load((('local', 0),), f_)) for f_ in final]     # (path condition, returned value) per return
        if final:
            self.exit_state = final[0] if len(final) == 1 else self._merge(final, '__exit__')
        else:
            self.exit_state = None
        return changed

    def _is_temp_dead(self, key, header):
        return False

    def _entry_state(self):
        st = State()
        for n, ty in self.body.params:
            t = ty.strip()
            if t.startswith('&') or t.startswith('*'):
                mut = 'mut' if re.match(r"^&(?:'\w+ )?mut |^\*mut ", t) else 'shr'
                st.store.set((('local', n),), ('ref', (('obj', n),), mut))
        return st

    # ------------------------------------------------------------------ merging
    def _merge(self, ins, bb):
        """join of the states arriving at `bb`. Values become a decision tree (γ/Γ) over the decisions taken since the
        paths diverged. If the arriving paths are not *all* the paths below their common prefix (some sibling of a
        decision went elsewhere: to another join, or to an Err exit), the joined state carries a synthetic decision
        ('pathset', bb, suffixes) so that nothing after the join is mistaken for unconditional."""
        if len(ins) == 1:
            return ins[0].copy()
        states = list(ins)
        pcs = [s.pc for s in states]
        L = 0
        m = min(len(p) for p in pcs)
        while L < m and all(p[L] == pcs[0][L] for p in pcs):
            L += 1
        prefix = pcs[0][:L]
        pairs = []
        try:
            for s in states:
                for seq in self._expand(s.pc[L:]):
                    pairs.append((seq, s))
                if len(pairs) > 512:
                    raise OverflowError
            out, complete = self._merge_pairs(pairs, bb)
        except OverflowError:
            out, complete = self._merge_blind(states, (), bb), False
        if complete:
            out.pc = prefix
        else:
            out.pc = prefix + ((('pathset', str(bb), tuple(s.pc[L:] for s in states)), '1'),)
        return self._reorder(out)

    def _merge_group(self, states, bb):
        return self._merge(states, bb)

    def _expand(self, suffix):
        """decision sequences denoted by a pc suffix (pathset decisions stand for several)"""
        seqs = [()]
        for c, o in suffix:
            if c[0] == 'pathset' and o == '1':
                subs = []
                for alt in c[2]:
                    subs.extend(self._expand(alt))
                seqs = [a + b for a in seqs for b in subs]
            else:
                seqs = [a + ((c, o),) for a in seqs]
            if len(seqs) > 512:
                raise OverflowError
        return seqs

    def _complete(self, seqs):
        """do these decision sequences form a complete decision tree (every live outcome of every decision present)?"""
        if any(len(q) == 0 for q in seqs):
            return all(len(q) == 0 for q in seqs)
        c0 = seqs[0][0][0]
        if any(q[0][0] != c0 for q in seqs):
            return False
        groups = {}
        for q in seqs:
            groups.setdefault(q[0][1], []).append(q[1:])
        live = self.live_keys.get(c0)
        if live is None or set(groups) != live:
            return False
        return all(self._complete(g) for g in groups.values())

    def _merge_pairs(self, pairs, bb):
        """pairs: [(decision sequence, state)] -> (State without pc, complete?)"""
        distinct = []
        for _, s in pairs:
            if not any(s is x for x in distinct):
                distinct.append(s)
        if len(distinct) == 1:
            return State(distinct[0].store.copy(), ()), self._complete([q for q, _ in pairs])
        if any(len(q) == 0 for q, _ in pairs):
            return self._merge_blind(distinct, (), bb), False
        cond0 = pairs[0][0][0][0]
        if any(q[0][0] != cond0 for q, _ in pairs):
            return self._merge_blind(distinct, (), bb), False
        groups = {}
        for q, s in pairs:
            groups.setdefault(q[0][1], []).append((q[1:], s))
        merged = {}
        complete = True
        for k, v in groups.items():
            merged[k], c = self._merge_pairs(v, bb)
            complete = complete and c
        live = self.live_keys.get(cond0)
        if live is None or set(groups) != live:
            complete = False
        keys = sorted(merged.keys(), key=str)
        out = State(Store(), ())
        allkeys = set()
        for s in merged.values():
            allkeys |= set(s.store.keys())
        for k in allkeys:
            vals = [merged[o].store.get(k) for o in keys]
            if any(v is None for v in vals):
                # written on one side only: other side holds the pre-/older value -> reconstruct via load on that side
                vals = [v if v is not None else self.load(k, merged[o]) for v, o in zip(vals, keys)]
            if all(v == vals[0] for v in vals):
                out.store.set(k, vals[0])
            elif len(keys) == 2 and '0' in keys and set(keys) <= {'0', '1', 'otherwise'} and self._is_boolish(cond0):
                tv = vals[keys.index('0')]
                other = [o for o in keys if o != '0'][0]
                out.store.set(k, mk('gamma', cond0, vals[keys.index(other)], tv))
            else:
                out.store.set(k, ('Gamma', cond0, tuple((o, v) for o, v in zip(keys, vals))))
        return self._reorder(out), complete

    def _reorder(self, st):
        # Store.set deletes longer keys when a shorter one is written afterwards; re-insert shortest-first
        items = sorted(st.store.d.items(), key=lambda kv: len(kv[0]))
        s2 = Store()
        for k, v in items:
            s2.set(k, v)
        st.store = s2
        return st

    def _merge_blind(self, states, pc, bb):
        out = State(Store(), pc)
        allkeys = set()
        for s in states:
            allkeys |= set(s.store.keys())
        for k in allkeys:
            vals = [s.store.get(k) if s.store.get(k) is not None else self.load(k, s) for s in states]
            if all(v == vals[0] for v in vals):
                out.store.set(k, vals[0])
            else:
                out.store.set(k, ('fresh', 'join:%s:%s' % (bb, show_path(k)), 'ungated join'))
        return self._reorder(out)

    @staticmethod
    def _is_boolish(c):
        return True

    # ------------------------------------------------------------------ places
    def local_type(self, n):
        if n in self.param_types:
            return self.param_types[n]
        if n == 0:
            return self.body.ret
        return self.body.locals.get(n)

    _BOXLIKE = re.compile(r'^(?:std::boxed::|alloc::boxed::)?Box<|^(?:std::ptr::|core::ptr::)?(?:Unique|NonNull)<')

    def field_name(self, cur_type, idx, variant):
        if cur_type and self._BOXLIKE.match(cur_type.strip()):
            return None                      # Box internals (Unique / NonNull / pointer): transparent
        base = strip_ref(cur_type)
        if _is_dim(base):
            return None if idx == 2 else '#%d' % idx
        td = self.prog.typedef(base)
        if td is not None:
            if td.kind == 'struct':
                n = td.field_name(idx)
                if n is not None:
                    return n
            elif variant:
                for v in td.variants:
                    if v['name'] == variant and idx < len(v['fields']):
                        return v['fields'][idx]['name'] or '#%d' % idx
        else:
            b = re.sub(r'<.*', '', base).split('::')[-1]
            if b.endswith('HistoryVec'):
                td2 = self.prog.typedef(b[:-len('HistoryVec')])
                if td2 is not None and td2.kind == 'struct':
                    n = td2.field_name(idx)
                    if n is not None:
                        return n
        return '#%d' % idx

    def place_path(self, place, st):
        path = (('local', place.local),)
        cur = self.local_type(place.local)
        variant = None
        self._last_type = cur
        for pr in place.proj:
            k = pr[0]
            if k == 'deref':
                v = self.load(path, st)
                if v[0] == 'ref':
                    path = v[1]
                elif cur and self._BOXLIKE.match(cur.strip()):
                    pass                     # Box<T> stored inline: the pointee is the place itself
                elif v[0] == 'constref':
                    path = (('ptr', v),)
                else:
                    path = (('ptr', v),)
                if cur:
                    c0 = cur.strip()
                    m = re.match(r'^(?:std::boxed::|alloc::boxed::)?Box<(.*)>$', c0, re.S)
                    if m:
                        cur = m.group(1).strip()
                    else:
                        m = re.match(r"^(?:&(?:'\w+ )?(?:mut )?|\*(?:const|mut) )(.*)$", c0, re.S)
                        cur = m.group(1).strip() if m else c0
                variant = None
            elif k == 'field':
                name = self.field_name(cur, pr[1], variant)
                if name is not None:
                    path = path + (('f', name),)
                cur = pr[2]
                variant = None
            elif k == 'downcast':
                variant = pr[1]
                path = path + (('as', pr[1]),)
            elif k == 'index':
                iv = self.load((('local', pr[1]),), st)
                path = path + (('idx', iv),)
                cur = elem_type(cur) if cur else None
                variant = None
            elif k == 'cindex':
                m = re.match(r'(-?)(\d+) of (\d+)', pr[1])
                if m and not m.group(1):
                    path = path + (('idx', num(int(m.group(2)))),)
                elif m:
                    path = path + (('idx', ('sub', ('len', self.load(path, st)), num(int(m.group(2))))),)
                else:
                    path = path + (('idx', ('sym', pr[1])),)
                cur = elem_type(cur) if cur else None
                variant = None
            elif k == 'subslice':
                path = path + (('idx', ('sym', 'subslice:' + pr[1])),)
                variant = None
        self._last_type = cur
        return path

    # ------------------------------------------------------------------ load / store
    def load(self, path, st):
        store = st.store
        r0 = path[0]
        if r0[0] == 'ptr' and r0[1][0] == 'gamma':
            g = r0[1]
            return mk('gamma', g[1], self._load_via(g[2], path[1:], st), self._load_via(g[3], path[1:], st))
        if r0[0] == 'ptr' and r0[1][0] == 'Gamma':
            g = r0[1]
            return ('Gamma', g[1], tuple((k, self._load_via(x, path[1:], st)) for k, x in g[2]))
        v = store.get(path)
        n = len(path)
        if v is None:
            base = None
            for j in range(n - 1, 0, -1):
                pv = store.get(path[:j])
                if pv is not None:
                    base = pv
                    for c in path[j:]:
                        base = self.project(base, c, st)
                    break
            if base is None:
                base = self._pre(path)
            v = base
        below = store.below(path)
        if below:
            for k in sorted(below, key=len):
                v = self._upd(v, k[n:], store.get(k))
        return v

    def _load_via(self, ptr, rest, st):
        if ptr[0] == 'ref':
            return self.load(ptr[1] + rest, st)
        if ptr[0] == 'constref':
            v = ptr[1]
            for c in rest:
                v = self.project(v, c, st)
            return v
        return self.load((('ptr', ptr),) + rest, st)

    def _pre(self, path):
        r = path[0]
        if r[0] == 'local':
            n = r[1]
            if 1 <= n <= self.body.nparams and n in self.param_types:
                return ('pre', (('val', n),) + path[1:])
            return ('pre', path) if False else ('undef', n) if len(path) == 1 else ('proj_undef', n, show_path(path[1:]))
        if r[0] == 'ptr':
            pv = r[1]
            if pv[0] == 'constref':
                v = pv[1]
                for c in path[1:]:
                    v = self.project(v, c, None)
                return v
            return ('pre', path)
        return ('pre', path)

    def _upd(self, base, sub, val):
        if not sub:
            return val
        if base[0] == 'agg' and sub[0][0] == 'f':
            fields = list(base[2])
            for i, (k, v) in enumerate(fields):
                if k == sub[0][1]:
                    fields[i] = (k, self._upd(v, sub[1:], val))
                    return ('agg', base[1], tuple(fields))
        return ('upd', base, sub, val)

    def project(self, v, c, st=None):
        op = v[0]
        k = c[0]
        if op == 'agg' and k == 'f':
            for fk, fv in v[2]:
                if fk == c[1]:
                    return fv
            return ('proj', v, c)
        if op == 'pre':
            return ('pre', v[1] + (c,))
        if op == 'gamma':
            return mk('gamma', v[1], self.project(v[2], c, st), self.project(v[3], c, st))
        if op == 'Gamma':
            return ('Gamma', v[1], tuple((kk, self.project(vv, c, st)) for kk, vv in v[2]))
        if op in ('some', 'ok', 'err', 'maybe'):
            if k == 'as':
                return v
            if k == 'f' and c[1] == '#0':
                return v[1]
        if op == 'cf':
            if k == 'as':
                return v
            if k == 'f' and c[1] == '#0':
                return v[2]
        if op == 'none' and k == 'as':
            return v
        if op == 'tuple' and k == 'f' and c[1].startswith('#'):
            i = int(c[1][1:])
            if i < len(v) - 1:
                return v[1 + i]
        if op == 'variant':
            if k == 'as':
                return v
            if k == 'f' and c[1].startswith('#'):
                i = int(c[1][1:])
                if i < len(v) - 2:
                    return v[2 + i]
        if op == 'closure' and k == 'f' and c[1].startswith('#'):
            i = int(c[1][1:])
            for ck, cv in v[2]:
                if ck == i:
                    return cv
        if op == 'array' and k == 'idx' and c[1][0] == 'num':
            i = int(c[1][1])
            if 0 <= i < len(v) - 1:
                return v[1 + i]
        if op == 'upd':
            sub = v[2]
            s0 = sub[0]
            if s0 == c:
                if len(sub) == 1:
                    return v[3]
                return self._upd(self.project(v[1], c, st), sub[1:], v[3])
            if s0[0] == 'f' and k == 'f':
                return self.project(v[1], c, st)
            if s0[0] == 'idx' and k == 'idx' and s0[1][0] == 'num' and c[1][0] == 'num':
                return self.project(v[1], c, st)
            if s0[0] == 'as' or k == 'as':
                return ('proj', v, c)
        if op == 'ref' and k == 'f' and c[1] is None:
            return v
        if op == 'constref':
            return self.project(v[1], c, st)
        if op == 'at':
            return ('at', v[1], self.project(v[2], c, st))
        if k == 'idx':
            r = beta_elem(v, c[1])
            if r is not None:
                return r
            return ('elem', v, c[1])
        return ('proj', v, c)

    def write(self, path, val, st, bb=None, span=None):
        r0 = path[0]
        if r0[0] == 'ptr' and r0[1][0] == 'gamma':
            g = r0[1]
            for ptr, pol in ((g[2], True), (g[3], False)):
                if ptr[0] == 'ref':
                    tgt = ptr[1] + path[1:]
                else:
                    tgt = (('ptr', ptr),) + path[1:]
                old = self.load(tgt, st)
                self.write(tgt, mk('gamma', g[1], val, old) if pol else mk('gamma', g[1], old, val), st, bb, span)
            return
        for i, c in enumerate(path):
            if c[0] == 'idx' and i > 0:
                coll = path[:i]
                old = self.load(coll, st)
                self.write(coll, self._upd_coll(old, path[i:], val), st, bb, None)
                if bb is not None:
                    self.stores_log.append((bb, path, val, span))
                return
        st.store.set(path, val)
        if bb is not None and path[0][0] != 'local':
            self.stores_log.append((bb, path, val, span))

    MAX_UPD_CHAIN = 12

    def _upd_coll(self, old, sub, val):
        # overwrite of the same element path replaces the previous update instead of nesting
        if old[0] == 'upd' and old[2] == sub:
            return ('upd', old[1], sub, val)
        # bound the length of update chains (element writes with many distinct symbolic indices): beyond the bound the
        # collection value is havoc'd, which is sound and keeps terms small
        n = 0
        x = old
        while x[0] == 'upd' and n <= self.MAX_UPD_CHAIN:
            x = x[1]
            n += 1
        if n > self.MAX_UPD_CHAIN:
            return ('fresh', 'updchain:%d' % next(self.eng.fresh), 'more than %d element updates of one collection' % self.MAX_UPD_CHAIN)
        return ('upd', old, sub, val)

    # ------------------------------------------------------------------ operands / rvalues
    _NUM_RE = re.compile(r'(-?\d+(?:\.\d+)?(?:[eE][+-]?\d+)?)(?:_?(f64|f32|usize|isize|[ui]\d+))?$')

    def const(self, c):
        m = self._NUM_RE.match(c)
        if m:
            return ('num', Fraction(m.group(1)))
        if c == 'true': return TRUE
        if c == 'false': return FALSE
        if c == '()': return UNIT
        if c.startswith('"') or c.startswith('b"'):
            return ('str', c[:200])
        if c.startswith("'"):
            return ('str', c)
        if re.search(r'as uom::ConstZero>::ZERO$', c) or c.endswith('::ZERO'):
            return ZERO
        if re.search(r'(?:f64|f32)>?::INFINITY$', c): return ('sym', 'INF')
        if re.search(r'(?:f64|f32)>?::NEG_INFINITY$', c): return mk('neg', ('sym', 'INF'))
        if re.search(r'(?:f64|f32)>?::NAN$', c): return ('sym', 'NAN')
        if re.search(r'(?:f64|f32)>?::EPSILON$', c): return ('sym', 'EPSILON')
        if re.search(r'<impl (?:u|i)(?:\d+|size)>::MAX$', c): return ('sym', 'INTMAX:' + c[-12:])
        if 'SizedTypeProperties' in c:
            return ('sym', 'layout')
        v = self.eng.const_value(c)
        if v is not None:
            return v
        return ('sym', 'const:' + strip_generics(c)[-80:])

    def operand(self, op, st):
        k = op[0]
        if k == 'const':
            return self.const(op[1])
        if k == 'fnitem':
            return ('fnitem', op[1])
        p = self.place_path(op[1], st)
        v = self.load(p, st)
        lt = self._last_type
        if lt and v[0] != 'ref' and self._BOXLIKE.match(lt.strip()) and lt.strip().startswith(('Box<', 'std::boxed::Box<', 'alloc::boxed::Box<')):
            return ('ref', p, 'mut')         # a Box value is modelled as a reference to its inline place
        return v

    _BIN = {'Add': 'add', 'Sub': 'sub', 'Mul': 'mul', 'Div': 'div', 'Rem': 'rem', 'Lt': 'lt', 'Le': 'le', 'Gt': 'gt',
            'Ge': 'ge', 'Eq': 'eq', 'Ne': 'ne', 'AddUnchecked': 'add', 'SubUnchecked': 'sub', 'MulUnchecked': 'mul',
            'BitAnd': 'and', 'BitOr': 'or'}

    def rvalue(self, rv, st):
        k = rv[0]
        if k == 'use':
            return self.operand(rv[1], st)
        if k == 'ref':
            p = self.place_path(rv[2], st)
            mut = 'mut' if ('mut' in rv[1]) else 'shr'
            return ('ref', p, mut)
        if k == 'binop':
            a = self.operand(rv[2], st)
            b = self.operand(rv[3], st)
            op = rv[1]
            if op.endswith('WithOverflow'):
                return ('tuple', mk(self._BIN[op[:3]], a, b), FALSE)
            if op in self._BIN:
                return mk(self._BIN[op], a, b)
            return ('uf', 'binop:' + op, a, b)
        if k == 'unop':
            a = self.operand(rv[2], st)
            if rv[1] == 'Neg': return mk('neg', a)
            if rv[1] == 'Not': return mk('not', a)
            if rv[1] == 'PtrMetadata':
                if a[0] == 'ref':
                    return ('len', self.load(a[1], st))
                return ('len', a)
            return ('uf', 'unop:' + rv[1], a)
        if k == 'discr':
            # the discriminant is not affected by stores into a variant's payload: read the enum value without composing
            # the overlay of such sub-entries
            p = self.place_path(rv[1], st)
            below = st.store.below(p)
            if below and all(len(x) > len(p) and x[len(p)][0] == 'as' for x in below):
                v = st.store.get(p)
                if v is None:
                    v = None
                    for j in range(len(p) - 1, 0, -1):
                        pv = st.store.get(p[:j])
                        if pv is not None:
                            v = pv
                            for c in p[j:]:
                                v = self.project(v, c, st)
                            break
                    if v is None:
                        v = self._pre(p)
                return self.discr(v)
            v = self.load(p, st)
            return self.discr(v)
        if k == 'cast':
            a = self.operand(rv[2], st)
            kind = rv[1]
            if kind.startswith('PointerCoercion') or kind in ('Transmute', 'PtrToPtr', 'IntToInt', 'FloatToFloat', 'IntToFloat'):
                return a
            if kind == 'FloatToInt':
                return ('uf', 'trunc', a)
            return a
        if k == 'tuple':
            return ('tuple',) + tuple(self.operand(o, st) for o in rv[1])
        if k == 'array':
            return ('array',) + tuple(self.operand(o, st) for o in rv[1])
        if k == 'repeat':
            return ('uf', 'repeat', self.operand(rv[1], st), ('sym', rv[2]))
        if k == 'len':
            return ('len', self.load(self.place_path(rv[1], st), st))
        if k == 'variant':
            args = tuple(self.operand(o, st) for o in rv[2])
            name = re.sub(r'::<.*?>(?=::|$)', '', rv[1])
            name = strip_generics(rv[1])
            last = name.split('::')[-1]
            if last == 'Some' and len(args) == 1: return ('some', args[0])
            if last == 'None' and not args: return ('none',)
            if last == 'Ok' and len(args) == 1: return ('ok', args[0])
            if last == 'Err' and len(args) == 1: return ('err', args[0])
            if last in ('Continue', 'Break') and 'ControlFlow' in name and len(args) == 1:
                return ('cf', last, args[0])
            if not args and 'PhantomData' in name:
                return UNIT
            return ('variant', '::'.join(name.split('::')[-2:]),) + args
        if k == 'struct':
            ty = rv[1]
            tyq = strip_generics(ty).strip()
            if _is_dim(tyq.split('::')[-1]) and 'value' in rv[2]:
                return self.operand(rv[2]['value'], st)
            flds = tuple((fname, self.operand(o, st)) for fname, o in rv[2].items())
            return ('agg', tyq.split('::')[-1] if '::' in tyq else tyq, flds)
        if k == 'closure':
            caps = []
            for i, (name, o) in enumerate(rv[2].items()):
                caps.append((i, self.operand(o, st)))
            return ('closure', rv[1], tuple(caps))
        if k == 'nullop':
            return ('sym', 'nullop:' + rv[1])
        return ('fresh', 'rv:%s:%d' % (k, next(self.eng.fresh)), 'unknown rvalue')

    def discr(self, v):
        op = v[0]
        if op == 'some' or op == 'maybe' and False: return num(1)
        if op == 'none': return num(0)
        if op == 'ok': return num(0)
        if op == 'err': return num(1)
        if op == 'cf': return num(0 if v[1] == 'Continue' else 1)
        if op == 'gamma':
            return mk('gamma', v[1], self.discr(v[2]), self.discr(v[3]))
        if op == 'upd' and v[2] and v[2][0][0] == 'as':
            return self.discr(v[1])          # a store into a variant's payload keeps the discriminant
        if op == 'variant':
            td = self.prog.typedef(v[1].split('::')[0]) if '::' in v[1] else None
            if td is not None and td.kind == 'enum':
                for var in td.variants:
                    if var['name'] == v[1].split('::')[-1]:
                        return num(var['idx'])
        return ('discr', v)

    # ------------------------------------------------------------------ statements / terminators
    def _stmt(self, s, st, bb):
        if s.kind == 'assign':
            val = self.rvalue(s.rv, st)
            self.write(self.place_path(s.lhs, st), val, st, bb, s.span)
        elif s.kind == 'setdiscr':
            p = self.place_path(s.lhs, st)
            self.write(p, ('uf', 'setdiscr', self.load(p, st), num(s.rv)), st, bb, s.span)
        elif s.kind == 'unknown':
            self.notes.append('unknown statement in %s: %s' % (bb, s.raw[:100]))

    def _decide(self, d, keys):
        """statically known discriminant/boolean? return the taken key or None"""
        if d[0] == 'bool':
            return '1' if d[1] else '0'
        if d[0] == 'num' and d[1].denominator == 1:
            return str(int(d[1]))
        return None

    def _terminator(self, t, st, bb):
        cfg = self.cfg
        k = t.kind
        if k == 'goto':
            return [(x, st) for x in cfg.succ[bb]]
        if k == 'return' or k in ('unreachable', 'resume'):
            return []
        if k == 'drop':
            return [(x, st) for x in cfg.succ[bb]]
        if k == 'assert':
            c = self.operand(t.cond, st)
            g = Guard(c, 'otherwise' if t.expected else '0', st.pc, t.span, bb, kind='assert')
            self.guards.append(g)
            return [(x, st) for x in cfg.succ[bb]]
        if k == 'switch':
            d = self.operand(t.discr, st)
            targets = [(key, tgt) for key, tgt in t.targets.items() if tgt.startswith('bb')]
            taken = self._decide(d, [x[0] for x in targets])
            if taken is not None:
                tk = None
                for key, tgt in targets:
                    if key == taken:
                        tk = tgt
                if tk is None:
                    for key, tgt in targets:
                        if key == 'otherwise':
                            tk = tgt
                if tk is not None:
                    return [(tk, st)] if tk in cfg.ok_region else []
            live = [(key, tgt) for key, tgt in targets if tgt in cfg.ok_region]
            dead = [(key, tgt) for key, tgt in targets if tgt not in cfg.ok_region]
            if len(live) == 1 and dead:
                key, tgt = live[0]
                okey = key
                if key == 'otherwise' and len(targets) == 2:
                    other = [x for x in targets if x[0] != 'otherwise'][0][0]
                    okey = 'otherwise' if other == '0' else 'not:' + other
                self.guards.append(Guard(d, okey, st.pc, t.span, bb, kind='switch'))
                return [(tgt, st)]
            outs = []
            same_target = {}
            for key, tgt in live:
                same_target.setdefault(tgt, []).append(key)
            if len(live) > 1:
                lk = set('|'.join(keys) for keys in same_target.values())
                if d in self.live_keys and self.live_keys[d] != lk:
                    lk = lk | self.live_keys[d] | {'?'}          # same term switched on twice with different arms: never complete
                self.live_keys[d] = lk
            for tgt, keys in same_target.items():
                st2 = State(st.store, st.pc + ((d, '|'.join(keys)),)) if len(live) > 1 else st
                # normalise bool switches: keys '0' and 'otherwise'
                outs.append((tgt, st2))
            if dead and len(live) > 1:
                # some arms cannot reach Ok: record as a multi-way guard
                self.guards.append(Guard(d, 'in:' + ','.join(k_ for k_, _ in live), st.pc, t.span, bb, kind='switch'))
            return outs
        if k == 'call':
            self._call(t, st, bb)
            return [(x, st) for x in cfg.succ[bb]]
        self.notes.append('unknown terminator in %s: %s' % (bb, t.raw[:80]))
        return [(x, st) for x in cfg.succ[bb]]

    # ------------------------------------------------------------------ calls
    def deref_val(self, v, st, depth=0):
        n = 0
        while n < 4:
            if v[0] == 'ref':
                v = self.load(v[1], st)
            elif v[0] == 'constref':
                v = v[1]
            elif v[0] == 'gamma' and depth < 6 and (v[2][0] in ('ref', 'constref', 'gamma') or v[3][0] in ('ref', 'constref', 'gamma')):
                return mk('gamma', v[1], self.deref_val(v[2], st, depth + 1), self.deref_val(v[3], st, depth + 1))
            else:
                break
            n += 1
        return v

    def _set_dest(self, t, val, st, bb):
        if t.dest is not None:
            self.write(self.place_path(t.dest, st), val, st, bb, t.span)

    def _havoc_mut_args(self, A, st, why, bb):
        for a in A:
            if a[0] == 'ref' and len(a) > 2 and a[2] == 'mut':
                self.write(a[1], ('fresh', 'havoc:%s:%d' % (bb, next(self.eng.fresh)), why), st, bb, None)

    def _call(self, t, st, bb):
        A = [self.operand(a, st) for a in t.args]
        rec = CallRec(bb, t.callee, None, t.args, A, st.pc, t.span, self.cfg.in_loop(bb))
        # what a reference argument points to at the time of the call (locals and fields alike): rules read aggregates
        # that are built in a temporary and passed by reference
        rec.pointees = [self.load(a[1], st) if a[0] == 'ref' else None for a in A]
        self.calls.append(rec)
        res = self._call_builtin(t, A, st, bb, rec)
        if res is None:
            res = self._call_crate(t, A, st, bb, rec)
        if res is None:
            rec.how = 'external'
            name = self._short(t.callee)
            res = ('uf', name) + tuple(self.deref_val(a, st) for a in A)
            self._havoc_mut_args(A, st, 'external call ' + name, bb)
        rec.result = res
        self._set_dest(t, res, st, bb)

    @staticmethod
    def _short(c):
        c = strip_generics(c)
        c = re.sub(r'\{closure@[^}]*\}', '{closure}', c)
        segs = c.split('::')
        return '::'.join(segs[-2:]) if len(segs) > 1 else c

    _TRAIT_RE = re.compile(r'^<(.*) as ([\w:]+?)(?:<.*>)?>::(\w+)$', re.S)

    def _call_builtin(self, t, A, st, bb, rec):
        c = t.callee
        cs = strip_generics(c) if '<' in c else c
        D = lambda i: self.deref_val(A[i], st)
        last = cs.rsplit('::', 1)[-1]
        tr = None
        ty = None
        if c.startswith('<'):
            try:
                e = mir.find_matching(c, 0)
                inner = c[1:e - 1]
                kpos = self.prog._top_level_as(inner)
                if kpos is not None:
                    ty = inner[:kpos].strip()
                    tr = strip_generics(inner[kpos + 4:]).split('::')[-1].strip()
                    last = strip_generics(c[e:]).strip(':')
            except ValueError:
                pass
        rec.how = 'builtin'
        # ---- vec![a, b, ..]: Box::new_uninit() ; *ptr = [a, b, ..] ; box_assume_init_into_vec_unsafe(box)
        if last == 'new_uninit' and not A and 'Box' in cs:
            return ('uf', 'Box::new_uninit', ('sym', '%s:%s' % (self.body.fid, bb)))
        if last == 'box_assume_init_into_vec_unsafe' and len(A) == 1:
            b0 = self.load(A[0][1], st) if A[0][0] == 'ref' else A[0]
            keys = [k for k in st.store.keys() if k[0] == ('ptr', b0)]
            if len(keys) == 1 and st.store.get(keys[0])[0] in ('array',):
                return st.store.get(keys[0])
        # ---- arithmetic / comparison traits
        if tr in ('Add', 'Sub', 'Mul', 'Div', 'Rem') and len(A) == 2 and self._numeric_ty(ty):
            return mk(tr.lower(), D(0), D(1))
        if tr in ('AddAssign', 'SubAssign', 'MulAssign', 'DivAssign') and len(A) == 2 and A[0][0] == 'ref' and self._numeric_ty(ty):
            old = self.load(A[0][1], st)
            self.write(A[0][1], mk(tr[:3].lower(), old, D(1)), st, bb, t.span)
            return UNIT
        if tr == 'Neg' and len(A) == 1:
            return mk('neg', D(0))
        if tr == 'Not' and len(A) == 1:
            return mk('not', D(0))
        if tr in ('PartialOrd', 'PartialEq', 'Ord') and last in ('lt', 'le', 'gt', 'ge', 'eq', 'ne') and len(A) == 2:
            return mk(last, D(0), D(1))
        if tr in ('Ord', 'PartialOrd') and last in ('max', 'min') and len(A) == 2:
            return mk(last, D(0), D(1))
        if last in ('max', 'min') and len(A) == 2 and (self._numeric_ty(cs.rsplit('::', 1)[0]) or 'f64' in cs or cs.startswith('std::cmp::')):
            return mk(last, D(0), D(1))
        if last == 'abs' and len(A) == 1: return mk('abs', D(0))
        if last == 'sqrt' and len(A) == 1: return ('sqrt', D(0))
        if last == 'powi' and len(A) == 2 and A[1][0] == 'num': return ('powi', D(0), int(A[1][1]))
        if last == 'powi' and len(A) == 2:
            m = re.search(r'::powi::<((?:uom::typenum::)?[PN]Int<.*>)>$', c)
            if m:
                bits = re.findall(r'B([01])', m.group(1))
                e = 0
                for b_ in bits:
                    e = e * 2 + int(b_)
                if 'NInt' in m.group(1).split('<')[0]:
                    e = -e
                return ('powi', D(0), e)
        if last in ('powf', 'exp', 'ln', 'log10', 'sin', 'cos', 'floor', 'ceil', 'round', 'signum', 'rem_euclid', 'clamp', 'mul_add') :
            return ('uf', last) + tuple(self.deref_val(a, st) for a in A)
        if last in ('is_nan', 'is_finite', 'is_infinite', 'is_sign_negative', 'is_sign_positive') and len(A) == 1:
            return ('uf', last, D(0))
        if tr == 'Default' and last == 'default' and not A:
            if self._numeric_ty(ty) or ty in ('usize', 'u32', 'u64', 'i32', 'i64', 'u16', 'u8'):
                return ZERO
            if ty == 'bool':
                return FALSE
            if ty and (ty.startswith('Vec<') or ty.startswith('std::vec::Vec<')):
                return ('uf', 'Vec::new')
            if ty and re.match(r'(std::option::)?Option<', ty):
                return ('none',)
            return None
        # ---- uom get / new
        m = re.search(r'::(get|new)::<uom::si::\w+::(\w+)>$', c)
        if m and len(A) == 1:
            f = UNIT_FACTORS.get(m.group(2), 'missing')
            if f == 'missing' or f is None:
                return ('uf', 'unit:' + m.group(1) + ':' + m.group(2), D(0))
            f = ('num', Fraction(f))
            return mk('div', D(0), f) if m.group(1) == 'get' else mk('mul', D(0), f)
        if last == 'value' and len(A) == 1 and 'Quantity' in c:
            return D(0)
        # ---- anyhow / control
        if cs.startswith('anyhow::__private::not') and len(A) == 1:
            return mk('not', A[0])
        if tr == 'Try' and last == 'branch' and len(A) == 1:
            v = A[0]
            return self._branch(v)
        if tr == 'FromResidual' and last == 'from_residual':
            return ('err', ('sym', 'residual'))
        if last in ('with_context', 'context', 'map_err') and len(A) >= 1 and ('anyhow' in c or 'Result' in c or 'Context' in c):
            return A[0]
        if last in ('must_use',) and len(A) == 1:
            return A[0]
        if cs.endswith('fmt::format') or cs == 'format' or last in ('format_err', 'msg', 'new_display', 'new_debug', 'from_str_nonconst') \
                or cs.startswith('core::fmt::') or cs.startswith('std::fmt::') or cs.startswith('log::') or last in ('max_level', 'anyhow_kind'):
            return ('uf', 'fmt:' + last)
        # ---- Clone / Copy-like / conversions
        if tr in ('Clone',) and last == 'clone' and len(A) == 1:
            return D(0)
        if last in ('to_owned', 'to_vec', 'cloned', 'copied', 'into') and len(A) == 1 and tr in ('ToOwned', 'Into', 'From', None) and \
                (tr != 'Into' or self._numeric_ty(ty)):
            return D(0) if last != 'into' else D(0)
        if tr in ('Deref', 'DerefMut', 'AsRef', 'AsMut', 'Borrow', 'BorrowMut') and len(A) == 1:
            return A[0] if A[0][0] == 'ref' else ('ref', (('ptr', A[0]),), 'shr')
        if tr in ('Index', 'IndexMut') and len(A) == 2:
            base = A[0]
            p = base[1] if base[0] == 'ref' else (('ptr', base),)
            m_ = base[2] if base[0] == 'ref' and len(base) > 2 else 'shr'
            i = A[1]
            if i[0] in ('agg', 'variant', 'uf') or (i[0] == 'pre' and False):
                return ('ref', p + (('idx', ('uf', 'range', i)),), m_)
            return ('ref', p + (('idx', i),), m_)
        # ---- Option / Result combinators
        owner = cs.rsplit('::', 1)[0] if '::' in cs else ''
        is_opt = owner.endswith('Option') or 'option::Option' in owner
        is_res = owner.endswith('Result') or 'result::Result' in owner
        if is_opt or is_res:
            v = A[0] if A else None
            if last in ('unwrap', 'expect', 'unwrap_unchecked') and v is not None:
                return self._unwrap(v)
            if last == 'unwrap_or' and len(A) == 2:
                if v[0] in ('some', 'ok'): return v[1]
                if v[0] in ('none',): return A[1]
                return ('uf', 'unwrap_or', v, A[1])
            if last == 'unwrap_or_default' and len(A) == 1:
                if v[0] in ('some', 'ok'): return v[1]
                return ('uf', 'unwrap_or', v, ZERO)
            if last in ('is_some', 'is_ok'):
                vv = D(0)
                if vv[0] in ('some', 'ok'): return TRUE
                if vv[0] in ('none', 'err'): return FALSE
                return ('uf', 'is_some', vv)
            if last in ('is_none', 'is_err'):
                vv = D(0)
                if vv[0] in ('some', 'ok'): return FALSE
                if vv[0] in ('none', 'err'): return TRUE
                return mk('not', ('uf', 'is_some', vv))
            if last in ('as_ref', 'as_mut', 'as_deref') and len(A) == 1:
                if A[0][0] == 'ref':
                    inner = self.load(A[0][1], st)
                    if inner[0] == 'none': return ('none',)
                    return ('maybe', ('ref', A[0][1] + (('as', 'Some'), ('f', '#0')), A[0][2]))
                return A[0]
            if last in ('ok_or_else', 'ok_or', 'ok', 'copied', 'cloned') and v is not None:
                if v[0] == 'some': return ('ok', v[1]) if last.startswith('ok_or') else v
                if v[0] == 'maybe' and last in ('copied', 'cloned'):
                    return ('maybe', self.deref_val(v[1], st))
                return ('uf', last, v)
            if last in ('map', 'and_then', 'map_or', 'map_or_else', 'unwrap_or_else', 'is_some_and') :
                return self._opt_map(last, A, st, bb)
        # ---- Vec / slice
        if re.match(r'^(Vec|std::vec::Vec|alloc::vec::Vec)$', owner) or c.startswith(('core::slice::<impl [', 'std::slice::<impl [', 'slice::<impl [')) \
                or owner in ('core::slice', 'std::slice', 'slice') or owner.startswith('Vec::'):
            if last == 'len' and len(A) == 1: return ('len', D(0))
            if last == 'is_empty' and len(A) == 1: return mk('eq', ('len', D(0)), ZERO)
            if last in ('new', 'with_capacity'): return ('uf', 'Vec::new')
            if last == 'push' and len(A) == 2 and A[0][0] == 'ref':
                old = self.load(A[0][1], st)
                self.write(A[0][1], ('push', old, A[1]), st, bb, t.span)
                return UNIT
            if last == 'insert' and len(A) == 3 and A[0][0] == 'ref':
                old = self.load(A[0][1], st)
                self.write(A[0][1], ('vinsert', old, A[1], A[2]), st, bb, t.span)
                return UNIT
            if last == 'remove' and len(A) == 2 and A[0][0] == 'ref':
                old = self.load(A[0][1], st)
                self.write(A[0][1], ('vremove', old, A[1]), st, bb, t.span)
                return self.project(old, ('idx', A[1]), st)
            if last in ('first', 'last', 'first_mut', 'last_mut') and len(A) == 1 and A[0][0] == 'ref':
                coll = self.load(A[0][1], st)
                i = ZERO if last.startswith('first') else mk('sub', ('len', coll), ONE)
                return ('maybe', ('ref', A[0][1] + (('idx', i),), A[0][2]))
            if last in ('get', 'get_mut') and len(A) == 2 and A[0][0] == 'ref':
                return ('maybe', ('ref', A[0][1] + (('idx', A[1]),), A[0][2]))
            if last in ('get_unchecked', 'get_unchecked_mut') and len(A) == 2 and A[0][0] == 'ref':
                return ('ref', A[0][1] + (('idx', A[1]),), A[0][2])
            if last in ('iter', 'iter_mut') and len(A) == 1:
                return self._mk_iter_slice(A[0], 'mut' if last == 'iter_mut' else 'shr', bb)
            if last == 'windows' and len(A) == 2:
                p = A[0][1] if A[0][0] == 'ref' else (('ptr', A[0]),)
                return ('iter', 'windows', p, A[1], 'w:%s:%s' % (self.body.fid, bb))
            if last in ('as_slice', 'as_mut_slice') and len(A) == 1:
                return A[0]
            if last in ('reserve', 'shrink_to_fit', 'reserve_exact') :
                return UNIT
            if last in ('clear',) and A and A[0][0] == 'ref':
                self.write(A[0][1], ('uf', 'Vec::new'), st, bb, t.span)
                return UNIT
            if last in ('contains', 'binary_search', 'starts_with', 'ends_with') :
                return ('uf', last) + tuple(self.deref_val(a, st) for a in A)
        # ---- iterators
        r = self._call_iter(t, A, st, bb, cs, tr, ty, last)
        if r is not None:
            return r
        # ---- closures
        if tr in ('Fn', 'FnMut', 'FnOnce') and last in ('call', 'call_mut', 'call_once') and len(A) == 2:
            args = A[1]
            argl = list(args[1:]) if args[0] == 'tuple' else [args]
            return self.apply_closure(A[0], argl, st, bb, t.span)
        # Box
        if owner.endswith('Box') and last == 'new' and len(A) == 1:
            return A[0]
        if cs.endswith('mem::swap') and len(A) == 2 and A[0][0] == 'ref' and A[1][0] == 'ref':
            a = self.load(A[0][1], st); b = self.load(A[1][1], st)
            self.write(A[0][1], b, st, bb, t.span); self.write(A[1][1], a, st, bb, t.span)
            return UNIT
        if cs.endswith('mem::replace') and len(A) == 2 and A[0][0] == 'ref':
            a = self.load(A[0][1], st)
            self.write(A[0][1], A[1], st, bb, t.span)
            return a
        if cs.endswith('mem::take') and len(A) == 1 and A[0][0] == 'ref':
            a = self.load(A[0][1], st)
            self.write(A[0][1], ('uf', 'default'), st, bb, t.span)
            return a
        if last in ('precondition_check',) or cs.startswith('core::ub_checks') or cs.startswith('std::intrinsics') or \
                cs.startswith('core::intrinsics'):
            return UNIT if last != 'size_of' else ('sym', 'layout')
        if cs in ('std::mem::drop', 'core::mem::drop', 'drop') :
            return UNIT
        rec.how = None
        return None

    def _numeric_ty(self, ty):
        if not ty:
            return False
        ty = strip_ref(ty.strip())
        return _is_dim(ty) or ty in ('f64', 'f32', 'usize', 'isize', 'u8', 'u16', 'u32', 'u64', 'i8', 'i16', 'i32', 'i64') \
            or ty.startswith('Quantity')

    def _branch(self, v):
        if v[0] == 'ok' or v[0] == 'some':
            return ('cf', 'Continue', v[1])
        if v[0] in ('err', 'none'):
            return ('cf', 'Break', v)
        if v[0] == 'maybe':
            return ('cf', 'Continue', v[1])
        if v[0] == 'gamma':
            return mk('gamma', v[1], self._branch(v[2]), self._branch(v[3]))
        # unknown Result/Option: the Break arm is an Err exit (not followed); on the Continue arm the payload is unwrap(v)
        return ('cf', 'Continue', ('uf', 'unwrap', v))

    def _unwrap(self, v):
        if v[0] in ('some', 'ok', 'maybe'):
            return v[1]
        if v[0] == 'gamma':
            return mk('gamma', v[1], self._unwrap(v[2]), self._unwrap(v[3]))
        if v[0] == 'Gamma':
            return ('Gamma', v[1], tuple((k, self._unwrap(x)) for k, x in v[2]))
        return ('uf', 'unwrap', v)

    def _opt_map(self, last, A, st, bb):
        v = A[0]
        if last == 'map' and len(A) == 2:
            if v[0] == 'none': return ('none',)
            if v[0] in ('some', 'maybe'):
                r = self.apply_closure(A[1], [v[1]], st, bb, None)
                return (v[0], r)
            if v[0] == 'ok':
                return ('ok', self.apply_closure(A[1], [v[1]], st, bb, None))
            r = self.apply_closure(A[1], [('uf', 'unwrap', v)], st, bb, None)
            return ('uf', 'opt_map', v, r)
        if last == 'and_then' and len(A) == 2:
            if v[0] == 'none': return ('none',)
            if v[0] in ('some', 'ok', 'maybe'):
                return self.apply_closure(A[1], [v[1]], st, bb, None)
        if last == 'unwrap_or_else' and len(A) == 2:
            if v[0] in ('some', 'ok'): return v[1]
            r = self.apply_closure(A[1], [], st, bb, None) if v[0] == 'none' else None
            if r is not None: return r
        return ('uf', 'opt_' + last) + tuple(A)

    # ---- iterators
    def _mk_iter_slice(self, a, mut, bb):
        p = a[1] if a[0] == 'ref' else (('ptr', a),)
        return ('iter', 'slice', p, mut, 'it:%s:%s' % (self.body.fid, bb))

    def _call_iter(self, t, A, st, bb, cs, tr, ty, last):
        if tr == 'IntoIterator' and last == 'into_iter' and len(A) == 1:
            v = A[0]
            if v[0] == 'iter':
                return v
            if v[0] == 'ref':
                return self._mk_iter_slice(v, v[2] if len(v) > 2 else 'shr', bb)
            if v[0] == 'agg' and v[1].endswith('Range'):
                d = dict(v[2])
                return ('iter', 'range', d.get('start', ZERO), d.get('end', ('sym', 'end')), 'r:%s:%s' % (self.body.fid, bb))
            return ('iter', 'owned', v, 'o:%s:%s' % (self.body.fid, bb))
        if tr in ('Iterator', 'DoubleEndedIterator', 'ExactSizeIterator') or (cs.startswith('std::iter::') or cs.startswith('core::iter::')):
            it = A[0] if A else None
            itv = self.deref_val(it, st) if it is not None else None
            if last == 'next' and len(A) == 1:
                if itv is not None and itv[0] == 'iter':
                    sel = self._selecting(itv)
                    if sel:
                        # a selecting adaptor (filter / take_while / skip / ...) sits between the source and this next():
                        # the element is one of the source's, but NOT every element arrives — the Option carries the
                        # adaptors so that "is Some" is never mistaken for "the source has another element"
                        return ('maybe', self.iter_item(itv, st, bb), ('adaptors',) + sel)
                    return ('maybe', self.iter_item(itv, st, bb))
                return ('maybe', ('uf', 'next', itv))
            if last in ('map', 'filter', 'filter_map', 'zip', 'enumerate', 'rev', 'skip', 'take', 'chain', 'cloned', 'copied',
                        'skip_while', 'take_while', 'step_by', 'peekable', 'flat_map', 'flatten', 'by_ref', 'inspect') and it is not None:
                if last in ('cloned', 'copied', 'by_ref', 'peekable'):
                    return ('iter', last, itv)
                return ('iter', last, itv) + tuple(A[1:]) + (('tag', '%s:%s' % (self.body.fid, bb)),)
            if last in ('sum', 'product') and len(A) == 1:
                return ('Sum' if last == 'sum' else 'Product', self.iter_norm(itv, st, bb))
            if last in ('fold', 'try_fold', 'try_for_each', 'for_each', 'all', 'any', 'find', 'position', 'count', 'collect',
                        'min_by', 'max_by', 'last', 'nth', 'find_map', 'rposition', 'unzip', 'min', 'max', 'partition'):
                if itv is not None and itv[0] == 'iter':
                    # mutation through iter_mut inside the combinator: havoc the source collection
                    for x in walk(itv):
                        if x[0] == 'iter' and x[1] == 'slice' and x[3] == 'mut':
                            self.write(x[2], ('fresh', 'itermut:%s:%d' % (bb, next(self.eng.fresh)), 'iter_mut consumer'), st, bb, None)
                return ('uf', 'iter.' + last, self.iter_norm(itv, st, bb) if itv is not None else UNIT) + tuple(A[1:])
            if last in ('len', 'size_hint'):
                return ('uf', 'iter.len', itv)
        return None

    def iter_item(self, it, st, bb):
        kind = it[1]
        if kind == 'slice':
            return ('ref', it[2] + (('idx', ('iterpos', it[4])),), it[3])
        if kind == 'range':
            return ('iterpos', it[4])
        if kind == 'windows':
            return ('ref', it[2] + (('idx', ('uf', 'window', ('iterpos', it[4]))),), 'shr')
        if kind == 'owned':
            return ('elem', it[2], ('iterpos', it[3]))
        if kind == 'zip':
            b_ = it[3]
            if b_[0] == 'ref':
                b_ = self._mk_iter_slice(b_, 'shr', bb)
            ia = self.iter_item(it[2], st, bb)
            pa = self.iter_pos(it[2])
            if b_[0] == 'iter':
                ib = self.iter_item(b_, st, bb)
                pb = self.iter_pos(b_)
                # both sides of a zip advance in lockstep: one position symbol
                if pb != pa and pb[0] == 'iterpos':
                    ib = map_term(ib, lambda x: pa if x == pb else x)
            else:
                # an owned collection consumed by value (zip(vec)): element at the same position
                r = beta_elem(b_, pa)
                ib = r if r is not None else ('elem', b_, pa)
            return ('tuple', ia, ib)
        if kind == 'enumerate':
            return ('tuple', self.iter_pos(it[2]), self.iter_item(it[2], st, bb))
        if kind == 'map':
            inner = self.iter_item(it[2], st, bb)
            return self.apply_closure(it[3], [inner], st, bb, None)
        if kind in ('cloned', 'copied'):
            v = self.iter_item(it[2], st, bb)
            return self.deref_val(v, st)
        if kind in ('rev', 'skip', 'take', 'filter', 'skip_while', 'take_while', 'step_by', 'by_ref', 'peekable', 'inspect', 'chain'):
            if it[2][0] == 'iter':
                return self.iter_item(it[2], st, bb)
        return ('uf', 'next', it)

    _SELECTING = ('filter', 'filter_map', 'skip', 'take', 'skip_while', 'take_while', 'step_by', 'chain', 'flat_map', 'flatten')

    def _selecting(self, it):
        """the selecting adaptors in an iterator chain, outermost first: ((kind, args...), ...)"""
        out = ()
        while isinstance(it, tuple) and it and it[0] == 'iter':
            if it[1] in self._SELECTING:
                out = out + ((it[1],) + tuple(x for x in it[3:] if not (isinstance(x, tuple) and x and x[0] == 'tag')),)
            nxt = it[2] if len(it) > 2 else None
            it = nxt if isinstance(nxt, tuple) and nxt and nxt[0] == 'iter' else None
        return out

    def iter_pos(self, it):
        if it[0] == 'iter':
            if it[1] == 'slice': return ('iterpos', it[4])
            if it[1] == 'range': return ('iterpos', it[4])
            if it[1] in ('map', 'cloned', 'copied', 'zip', 'enumerate', 'by_ref', 'inspect'):
                return self.iter_pos(it[2])
        return ('uf', 'pos', it)

    def iter_norm(self, it, st, bb):
        """normal form of an iterator expression for Σ terms: ('seq', source, element-term) where the element term
        is expressed over the bound position ('bound', 0)."""
        if it is None or it[0] != 'iter':
            return it
        try:
            item = self.iter_item(it, st, bb)
        except Exception:
            return it
        src = self._iter_sources(it)
        ids = {x[1] for x in walk(('tuple', item)) if x[0] == 'iterpos'}
        item = self.deref_val(item, st) if item[0] == 'ref' else item

        # de Bruijn level for the new bound position: one above any bound variable already inside the element term
        lvl = 0
        for x in walk(('tuple', item)):
            if x[0] == 'bound':
                lvl = max(lvl, x[1] + 1)

        def rb(x):
            if x[0] == 'iterpos':
                return ('bound', lvl)
            return x
        item = map_term(item, rb)
        return ('seq', tuple(src), item, lvl)

    def _iter_sources(self, it):
        out = []
        if it[0] != 'iter':
            return out
        k = it[1]
        if k == 'slice':
            out.append(('slice', it[2]))
        elif k == 'range':
            out.append(('range', it[2], it[3]))
        elif k == 'windows':
            out.append(('windows', it[2]))
        elif k == 'owned':
            out.append(('owned', it[2]))
        else:
            for x in it[2:]:
                if isinstance(x, tuple) and x and x[0] == 'iter':
                    out.extend(self._iter_sources(x))
                elif isinstance(x, tuple) and x and x[0] == 'ref' and k == 'zip':
                    out.append(('slice', x[1]))
            if k in ('filter', 'skip', 'take', 'rev', 'skip_while', 'take_while', 'step_by', 'chain', 'filter_map', 'flat_map'):
                out.append((k,) + tuple(x for x in it[3:] if not (isinstance(x, tuple) and x and x[0] == 'tag')))
        return out

    # ---- closures
    def apply_closure(self, cv, args, st, bb, span):
        cval = self.deref_val(cv, st)
        if cval[0] == 'fnitem':
            name = cval[1]
            last = strip_generics(name).split('::')[-1]
            if last in ('Some',): return ('some', args[0])
            if last in ('Ok',): return ('ok', args[0])
            cands = self.prog.resolve(name)
            if len(cands) == 1:
                r = self._apply_summary(cands[0], list(args), st, bb, 'fnitem')
                if r is not None:
                    return r
            return ('uf', self._short(name)) + tuple(args)
        if cval[0] != 'closure':
            return ('uf', 'call_closure', cval) + tuple(args)
        body = self.eng.closure_body(cval[1])
        if body is None:
            return ('uf', 'call_closure', cval) + tuple(args)
        # closure param 1 is the environment (by ref or by value); remaining params are the arguments
        p1 = body.params[0][1].strip() if body.params else ''
        if p1.startswith('&'):
            if cv[0] == 'ref':
                env = cv
            else:
                # materialise the closure value in a scratch location of the caller store
                self.uid += 1
                tmp = (('local', 100000 + self.uid),)
                st.store.set(tmp, cval)
                env = ('ref', tmp, 'mut')
        else:
            env = cval
        r = self._apply_summary(body, [env] + list(args), st, bb, 'closure')
        if r is None:
            self._havoc_captures(cval, st, bb)
            return ('uf', 'call_closure', cval) + tuple(args)
        return r

    def _havoc_captures(self, cval, st, bb):
        for _, cap in cval[2]:
            if cap[0] == 'ref' and len(cap) > 2 and cap[2] == 'mut':
                self.write(cap[1], ('fresh', 'havoc:%s:%d' % (bb, next(self.eng.fresh)), 'closure capture'), st, bb, None)

    # ---- crate functions
    def _call_crate(self, t, A, st, bb, rec):
        cands = self.prog.resolve(t.callee)
        rec.targets = [b.fid for b in cands]
        if len(cands) != 1:
            if cands:
                rec.how = 'dispatch(%d)' % len(cands)
                name = self._short(t.callee)
                self._havoc_mut_args(A, st, 'dynamic dispatch ' + name, bb)
                return ('uf', name) + tuple(self.deref_val(a, st) for a in A)
            return None
        body = cands[0]
        if body.fid in self.eng.no_inline:
            rec.how = 'uf(no_inline)'
            self._havoc_mut_args(A, st, 'no_inline ' + body.fid, bb)
            return ('uf', body.fid) + tuple(self.deref_val(a, st) for a in A)
        r = self._apply_summary(body, A, st, bb, 'summary')
        if r is None:
            rec.how = 'crate-opaque'
            self._havoc_mut_args(A, st, 'unsummarised crate fn ' + body.fid, bb)
            return ('uf', body.fid) + tuple(self.deref_val(a, st) for a in A)
        rec.how = 'summary'
        return r

    def _apply_summary(self, body, A, st, bb, how):
        s = self.eng.summary(body)
        if s is None:
            return None
        site = '%s:%s' % (self.body.fid.split('::')[-1], bb)
        pre_st = st.copy() if s.writes else st
        _memo = {}
        _orig_load = self.load

        def cached_load(path, state):
            if state is pre_st:
                v = _memo.get(path)
                if v is None:
                    v = _orig_load(path, state)
                    _memo[path] = v
                return v
            return _orig_load(path, state)

        def leaf(x):
            op = x[0]
            if op == 'pre':
                p = x[1]
                r = p[0]
                if r[0] == 'obj' and r[1] - 1 < len(A):
                    a = A[r[1] - 1]
                    if a[0] == 'ref':
                        return cached_load(a[1] + p[1:], pre_st)
                    if a[0] == 'constref':
                        v = a[1]
                        for c in p[1:]:
                            v = self.project(v, c, pre_st)
                        return v
                    return cached_load((('ptr', a),) + p[1:], pre_st)
                if r[0] == 'val' and r[1] - 1 < len(A):
                    v = A[r[1] - 1]
                    for c in p[1:]:
                        v = self.project(v, c, pre_st)
                    return v
                if r[0] == 'ptr':
                    return self.resimplify(x, pre_st)
                return x
            if op == 'ref':
                p = x[1]
                r = p[0]
                if r[0] == 'obj' and r[1] - 1 < len(A):
                    a = A[r[1] - 1]
                    if a[0] == 'ref':
                        return ('ref', a[1] + p[1:], x[2] if len(x) > 2 else 'shr')
                    return ('ref', (('ptr', a),) + p[1:], x[2] if len(x) > 2 else 'shr')
                if r[0] == 'local':
                    return ('ref', (('ptr', ('at', site, ('sym', show_path(p)))),), x[2] if len(x) > 2 else 'shr')
                return x
            if op in ('fresh', 'loopvar'):
                return ('at', site, x)
            if op == 'iter' and x[1] == 'slice':
                p = x[2]
                r = p[0]
                if r[0] == 'obj' and r[1] - 1 < len(A) and A[r[1] - 1][0] == 'ref':
                    return ('iter', 'slice', A[r[1] - 1][1] + p[1:]) + x[3:]
            if op == 'seq':
                srcs = []
                for src in x[1]:
                    new_src = []
                    for y in src:
                        if _is_path(y) and y[0][0] == 'obj' and y[0][1] - 1 < len(A) and A[y[0][1] - 1][0] == 'ref':
                            new_src.append(A[y[0][1] - 1][1] + y[1:])
                        else:
                            new_src.append(y)
                    srcs.append(tuple(new_src))
                return ('seq', tuple(srcs), x[2]) + x[3:]
            return self.resimplify(x, pre_st)
        _mm = {}
        new = []
        for p, v in s.writes.items():
            r = p[0]
            if r[0] != 'obj' or r[1] - 1 >= len(A):
                continue
            a = A[r[1] - 1]
            if a[0] == 'ref':
                tgt = a[1] + p[1:]
            elif a[0] == 'constref':
                continue
            else:
                tgt = (('ptr', a),) + p[1:]
            tgt = tuple(('idx', map_term(c[1], leaf, _mm)) if c[0] == 'idx' else c for c in tgt)
            new.append((tgt, map_term(v, leaf, _mm)))
        ret = map_term(s.ret, leaf, _mm) if s.ret is not None else UNIT
        for p, v in sorted(new, key=lambda kv: len(kv[0])):
            self.write(p, v, st, bb, None)
        for g in s.guards:
            if g.kind == 'assert':
                continue
            gate = tuple((map_term(c, leaf, _mm), o) for c, o in g.gate)
            self.guards.append(Guard(map_term(g.cond, leaf, _mm), g.outcome, st.pc + gate, g.span, bb, kind=g.kind,
                                     origin=g.origin or body.fid))
        return ret

    def resimplify(self, x, st):
        """re-normalise nodes whose children became concrete after a substitution"""
        op = x[0]
        if op == 'pre' and x[1][0][0] == 'ptr' and x[1][0][1][0] in ('ref', 'constref', 'gamma', 'Gamma') and st is not None:
            return self.load(x[1], st) if x[1][0][1][0] in ('gamma', 'Gamma') else self._load_via(x[1][0][1], x[1][1:], st)
        if op == 'uf':
            n = x[1]
            if n == 'unwrap_or' and len(x) == 4:
                v = x[2]
                if v[0] in ('some', 'ok'): return v[1]
                if v[0] == 'none': return x[3]
            elif n == 'unwrap' and len(x) == 3:
                v = x[2]
                if v[0] in ('some', 'ok', 'maybe'): return v[1]
            elif n == 'is_some' and len(x) == 3:
                v = x[2]
                if v[0] in ('some', 'ok', 'maybe'): return TRUE
                if v[0] in ('none', 'err'): return FALSE
        elif op == 'discr':
            return self.discr(x[1])
        elif op == 'proj':
            v = x[1]
            if v[0] not in ('pre',) :
                r = self.project(v, x[2], st)
                return r
            return ('pre', v[1] + (x[2],))
        elif op == 'elem':
            r = beta_elem(x[1], x[2])
            if r is not None:
                return r
            return self.project(x[1], ('idx', x[2]), st) if x[1][0] in ('array', 'upd', 'pre', 'gamma') else x
        elif op == 'Gamma':
            d = x[1]
            if d[0] == 'num' and d[1].denominator == 1:
                k = str(int(d[1]))
                dflt = None
                for kk, vv in x[2]:
                    if k in kk.split('|'):
                        return vv
                    if 'otherwise' in kk.split('|'):
                        dflt = vv
                if dflt is not None:
                    return dflt
        elif op == 'cf' and False:
            pass
        elif op == 'len':
            v = x[1]
            if v[0] == 'array':
                return num(len(v) - 1)
        return x

    # ------------------------------------------------------------------ summary construction
    def make_summary(self):
        st = self.exit_state
        if st is None:
            return None
        writes = {}
        for k in st.store.keys():
            if k[0][0] == 'obj' :
                writes[k] = st.store.get(k)
        ret = self.load((('local', 0),), st)
        imprecise = list(self.notes)
        return Summary(self.body.fid, ret, writes, list(self.guards), self.body.nparams, self.has_loop, imprecise)

    # ------------------------------------------------------------------ helpers for rules
    def post(self, pathstr, root=1):
        """term at the Ok exit of the field `pathstr` of the object behind parameter `root`"""
        from .terms import path_from_str
        return self.load(path_from_str(pathstr, ('obj', root)), self.exit_state)

    def post_path(self, path):
        return self.load(path, self.exit_state)

    def ret(self):
        return self.load((('local', 0),), self.exit_state)

    def param_index(self, name):
        for n, nm in self.names.items():
            if nm == name and 1 <= n <= self.body.nparams:
                return n
        return None

    def arg(self, name):
        n = self.param_index(name)
        if n is None:
            raise KeyError('no parameter named %s in %s' % (name, self.body.fid))
        t = self.param_types[n].strip()
        if t.startswith('&'):
            return ('pre', (('obj', n),))
        return ('pre', (('val', n),))

    def written_paths(self):
        return [k for k in self.exit_state.store.keys() if k[0][0] == 'obj'] if self.exit_state else []

    def pretty(self, t):
        return show(t, self.names)
