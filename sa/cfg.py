"""Control-flow facts of one MIR body: successor/predecessor maps (normal edges only, unwind edges kept
separately), dominators, post-dominators, natural loops, and Ok / Err / abort exit classification."""
import re
from collections import defaultdict

PANIC_CALLEES = re.compile(
    r'(^|::)(panic|panic_fmt|panic_display|panic_explicit|panic_str|panic_nounwind|begin_panic|unwrap_failed|expect_failed|'
    r'unreachable_display|assert_failed|assert_failed_inner|panic_bounds_check|slice_index_fail|'
    r'slice_start_index_len_fail|slice_end_index_len_fail|slice_index_order_fail|panic_cold_explicit|'
    r'panic_const_\w+|handle_alloc_error|todo|unimplemented|abort|exit|capacity_overflow)(::<.*>)?$')


class CFG:
    def __init__(self, body):
        self.body = body
        self.blocks = body.blocks
        self.succ = {}
        self.unwind = {}
        for name, blk in body.blocks.items():
            t = blk.term
            s = []
            u = []
            for k, v in t.targets.items():
                if not isinstance(v, str):
                    continue
                if k in ('unwind', 'cleanup'):
                    if v.startswith('bb'):
                        u.append(v)
                    continue
                if v.startswith('bb'):
                    s.append(v)
            self.succ[name] = s
            self.unwind[name] = u
        self.pred = defaultdict(list)
        for a, ss in self.succ.items():
            for x in ss:
                self.pred[x].append(a)
        self.entry = 'bb0' if 'bb0' in self.blocks else (body.order[0] if body.order else None)
        self.reach = self._reach_from(self.entry) if self.entry else set()
        self._dom = None
        self._pdom = None
        self._loops = None
        self._classify()

    # ------------------------------------------------------------ reachability
    def _reach_from(self, start, succ=None):
        succ = succ or self.succ
        seen = set()
        work = [start]
        while work:
            x = work.pop()
            if x in seen:
                continue
            seen.add(x)
            work.extend(succ.get(x, []))
        return seen

    def can_reach(self, a, targets):
        """blocks reachable from a (inclusive) intersect targets?"""
        return bool(self._reach_from(a) & set(targets))

    # ------------------------------------------------------------ exits
    def _classify(self):
        b = self.body
        self.return_blocks = [n for n in self.reach if self.blocks[n].term.kind == 'return']
        self.abort_blocks = set()
        for n in self.reach:
            t = self.blocks[n].term
            if t.kind == 'call' and not self.succ[n]:
                self.abort_blocks.add(n)          # diverging call (panic family or `!` function)
            elif t.kind == 'unreachable':
                self.abort_blocks.add(n)
        ret = (b.ret or '')
        self.returns_result = bool(re.match(r'(std::result::)?Result<', ret)) or 'Result<' in ret[:40]
        # blocks that assign `_0 = Err(..)` / from_residual (the `?` failure arm) / anyhow Err construction
        self.err_blocks = set()
        self.ok_assign_blocks = set()
        for n in self.reach:
            blk = self.blocks[n]
            for s in blk.stmts:
                if s.kind == 'assign' and s.lhs.local == 0 and not s.lhs.proj:
                    rv = s.rv
                    if rv[0] == 'variant' and re.search(r'::Err$', re.sub(r'::<.*?>', '', rv[1])):
                        self.err_blocks.add(n)
                    elif rv[0] == 'variant' and re.search(r'::Ok$', re.sub(r'::<.*?>', '', rv[1])):
                        self.ok_assign_blocks.add(n)
            t = blk.term
            if t.kind == 'call' and t.dest is not None and t.dest.local == 0 and not t.dest.proj:
                if 'from_residual' in t.callee:
                    self.err_blocks.add(n)
        # Ok region: blocks from which a return is reachable without passing an err block, backwards
        ok = set()
        work = list(self.return_blocks)
        while work:
            x = work.pop()
            if x in ok or x in self.err_blocks:
                continue
            ok.add(x)
            work.extend(self.pred[x])
        self.ok_region = ok if self.returns_result else set(self._back_from(self.return_blocks))
        # err region: blocks from which only Err returns / aborts are reachable
        self.err_only = {n for n in self.reach if n not in self.ok_region}

    def _back_from(self, starts):
        seen = set()
        work = list(starts)
        while work:
            x = work.pop()
            if x in seen:
                continue
            seen.add(x)
            work.extend(self.pred[x])
        return seen

    def ok_exits(self):
        """return blocks reachable on a path that does not assign Err to _0"""
        return [n for n in self.return_blocks if n in self.ok_region]

    # ------------------------------------------------------------ dominators (iterative, on reachable normal edges)
    def _compute_dom(self, entry, succ, pred, nodes):
        order = []
        seen = set()
        stack = [(entry, iter(succ.get(entry, [])))]
        seen.add(entry)
        while stack:
            n, it = stack[-1]
            adv = False
            for s in it:
                if s in nodes and s not in seen:
                    seen.add(s)
                    stack.append((s, iter(succ.get(s, []))))
                    adv = True
                    break
            if not adv:
                order.append(n)
                stack.pop()
        rpo = list(reversed(order))
        idx = {n: i for i, n in enumerate(rpo)}
        idom = {entry: entry}
        changed = True
        while changed:
            changed = False
            for n in rpo[1:]:
                ps = [p for p in pred.get(n, []) if p in idom]
                if not ps:
                    continue
                new = ps[0]
                for p in ps[1:]:
                    a, b = p, new
                    while a != b:
                        while idx[a] > idx[b]:
                            a = idom[a]
                        while idx[b] > idx[a]:
                            b = idom[b]
                    new = a
                if idom.get(n) != new:
                    idom[n] = new
                    changed = True
        return idom, rpo

    @property
    def idom(self):
        if self._dom is None:
            self._dom, self.rpo = self._compute_dom(self.entry, self.succ, self.pred, self.reach)
        return self._dom

    def dominates(self, a, b):
        """a dominates b (reflexive)"""
        idom = self.idom
        if b not in idom:
            return False
        x = b
        while True:
            if x == a:
                return True
            p = idom.get(x)
            if p is None or p == x:
                return False
            x = p

    def dominators(self, b):
        out = []
        idom = self.idom
        x = b
        while x in idom:
            out.append(x)
            if idom[x] == x:
                break
            x = idom[x]
        return out

    @property
    def ipdom(self):
        """immediate post-dominators w.r.t. a virtual exit joined to all return / abort / err-return blocks."""
        if self._pdom is None:
            EXIT = '__exit__'
            rsucc = defaultdict(list)
            rpred = defaultdict(list)
            nodes = set(self.reach) | {EXIT}
            for a in self.reach:
                ss = self.succ[a]
                if not ss:
                    rsucc[EXIT].append(a)
                    rpred[a].append(EXIT)
                for s in ss:
                    rsucc[s].append(a)
                    rpred[a].append(s)
            self._pdom, _ = self._compute_dom(EXIT, rsucc, rpred, nodes)
        return self._pdom

    def postdominates(self, a, b):
        ip = self.ipdom
        x = b
        while x in ip:
            if x == a:
                return True
            if ip[x] == x:
                return False
            x = ip[x]
        return False

    # ------------------------------------------------------------ loops
    @property
    def loops(self):
        """natural loops: {header: set(blocks)} from back edges a->h where h dominates a"""
        if self._loops is None:
            loops = {}
            for a in self.reach:
                for h in self.succ[a]:
                    if self.dominates(h, a):
                        body = {h}
                        work = [a]
                        while work:
                            x = work.pop()
                            if x in body:
                                continue
                            body.add(x)
                            work.extend(self.pred[x])
                        loops.setdefault(h, set()).update(body)
            self._loops = loops
        return self._loops

    def in_loop(self, bb):
        return any(bb in body for body in self.loops.values())

    def back_edges(self):
        return {(a, h) for a in self.reach for h in self.succ[a] if self.dominates(h, a)}

    # ------------------------------------------------------------ queries used by the rules
    def call_sites(self, pred=None):
        """[(block, Term)] of reachable call terminators, optionally filtered by pred(callee_string)"""
        out = []
        for n in self.body.order:
            if n not in self.reach:
                continue
            t = self.blocks[n].term
            if t.kind == 'call' and (pred is None or pred(t.callee)):
                out.append((n, t))
        return out

    def every_ok_path_passes(self, marked):
        """True iff every path entry -> Ok exit passes through a block in `marked` (must-pass-through)."""
        marked = set(marked)
        exits = set(self.ok_exits())
        if not exits:
            return True
        seen = set()
        work = [self.entry]
        while work:
            x = work.pop()
            if x in seen or x in marked or x not in self.ok_region:
                continue
            seen.add(x)
            if x in exits:
                return False
            work.extend(self.succ[x])
        return True

    def path_avoiding(self, marked):
        """a witness path entry -> Ok exit avoiding `marked` (list of blocks) or None"""
        marked = set(marked)
        exits = set(self.ok_exits())
        prev = {self.entry: None}
        work = [self.entry]
        while work:
            x = work.pop(0)
            if x in marked or x not in self.ok_region:
                continue
            if x in exits:
                path = []
                while x is not None:
                    path.append(x)
                    x = prev[x]
                return list(reversed(path))
            for s in self.succ[x]:
                if s not in prev:
                    prev[s] = x
                    work.append(s)
        return None
