"""Program database: joins the parsed MIR bodies of one configuration with the syntax-tree facts.

 * canonical function ids  `Type::method`, `<Type as Trait>::method`, `module::free_fn`, `…::{closure#n}`
   (type names are qualified with their module's last segment only when ambiguous in the crate),
 * (type, field index) -> field name, enum variant index -> name,
 * callee-string resolution to bodies of this crate (inherent, trait impl, trait default, free fn).
"""
import json, os, pickle, re, collections, sys
from . import mir

SRC_PREFIX = 'altrios-core/src/'


def _nospace(s):
    return re.sub(r'\s+', '', s or '')


def strip_generics(s):
    """remove every <...> group (turbofish and type args) from a path string; keeps `<T as Trait>` heads intact
    only when called on the tail part."""
    out = []
    d = 0
    i = 0
    n = len(s)
    while i < n:
        c = s[i]
        if c == '<':
            d += 1
        elif c == '>' and not (i > 0 and s[i - 1] in '-='):
            d -= 1
        elif d == 0:
            out.append(c)
        i += 1
    r = ''.join(out).replace('::::', '::')
    while r.endswith('::'):
        r = r[:-2]
    return r


class TypeDef:
    def __init__(self, rec):
        self.rec = rec
        self.name = rec['name']
        self.kind = rec['kind']
        self.file = rec['ctx']['file']
        self.mod = rec['ctx']['mod']
        self.test = rec['ctx']['test']
        self.qual = self.name           # possibly replaced by mod::name when ambiguous
        if self.kind == 'struct':
            self.fields = rec['fields']
        else:
            self.variants = rec['variants']

    def field_name(self, idx):
        if self.kind != 'struct' or idx >= len(self.fields):
            return None
        return self.fields[idx]['name'] or str(idx)

    def field(self, name):
        for f in self.fields:
            if f['name'] == name:
                return f
        return None

    def __repr__(self):
        return 'TypeDef(%s)' % self.qual


class Program:
    def __init__(self, facts_dir, cfg='default'):
        self.dir = facts_dir
        self.cfg = cfg
        base = os.path.join(facts_dir, cfg)
        self.ast = json.load(open(os.path.join(facts_dir, 'ast.json')))
        pk = base + '.bodies.pkl'
        if os.path.exists(pk):
            self.bodies = pickle.load(open(pk, 'rb'))
        else:
            self.bodies = self._parse_all(base)
            tmp = pk + '.%d.tmp' % os.getpid()
            with open(tmp, 'wb') as f:
                pickle.dump(self.bodies, f, protocol=pickle.HIGHEST_PROTOCOL)
            os.replace(tmp, pk)
        try:
            self.inline_consts = json.load(open(base + '.idx.json')).get('inline_consts', {})
        except OSError:
            self.inline_consts = {}
        self._index_ast()
        self._assign_ids()

    # ------------------------------------------------------------ parsing
    def _parse_all(self, base):
        s = open(base + '.mirc').read()
        idx = json.load(open(base + '.idx.json'))
        sys.setrecursionlimit(10000)
        out = []
        for e in idx['bodies']:
            out.append(mir.parse_body(s[e['start']:e['end']]))
        return out

    # ------------------------------------------------------------ AST index
    def _index_ast(self):
        self.types = collections.defaultdict(list)        # bare name -> [TypeDef]
        self.impls_by_pos = {}                             # (file, line, col) -> impl record
        self.derive_by_pos = {}                            # (file, line, col) -> (trait, type name)
        self.attr_by_pos = {}                              # (file, line, col) -> (attr name, item name)
        self.impls = []
        self.traits = {}
        self.free_fns = collections.defaultdict(list)      # name -> [rec]
        self.macros = []
        self.unsafe_blocks = []
        self.mods = []
        self.consts = {}
        self.files = {}
        for r in self.ast:
            k = r['kind']
            if k in ('struct', 'enum'):
                td = TypeDef(r)
                self.types[td.name].append(td)
                for d in r.get('derives', []):
                    self.derive_by_pos[(td.file, d['pos'][0], d['pos'][1])] = (d['name'], td)
                for a in r.get('attr_macros', []):
                    self.attr_by_pos[(td.file, a['pos'][0], a['pos'][1])] = (a['name'], td)
                    self.attr_by_pos[(td.file, a['path_pos'][0], a['path_pos'][1])] = (a['name'], td)
            elif k == 'impl':
                f = r['ctx']['file']
                self.impls.append(r)
                self.impls_by_pos[(f, r['impl_pos'][0], r['impl_pos'][1])] = r
                self.impls_by_pos[(f, r['pos'][0], r['pos'][1])] = r
            elif k == 'trait':
                self.traits[r['name']] = r
            elif k == 'fn':
                self.free_fns[r['name']].append(r)
            elif k == 'macro':
                self.macros.append(r)
            elif k == 'unsafe_block':
                self.unsafe_blocks.append(r)
            elif k == 'mod':
                self.mods.append(r)
            elif k == 'const':
                self.consts[r['name']] = r
            elif k == 'file':
                self.files[r['file']] = r
        for name, tds in self.types.items():
            nontest = [t for t in tds if not t.test]
            if len(nontest) > 1:
                for t in tds:
                    t.qual = t.mod.split('::')[-1] + '::' + t.name
        self.ambiguous = {n for n, tds in self.types.items() if len([t for t in tds if not t.test]) > 1}
        # test regions: (file, start_line, end_line) of #[cfg(test)] modules
        self.test_regions = [(m['ctx']['file'], m['pos'][0], m['pos'][2]) for m in self.mods
                             if m['ctx']['test'] and m['inline']]
        self.test_files = {m['ctx']['file'] for m in self.mods if m['ctx']['test']} | \
                          {r['ctx']['file'] for r in self.ast if r['kind'] in ('fn', 'impl') and r['ctx']['test']}

    def in_test(self, file, line):
        if file is None:
            return False
        for f, a, b in self.test_regions:
            if f == file and a <= line <= b:
                return True
        base = os.path.basename(file)
        if base in ('tests.rs', 'test.rs', 'testing.rs'):
            return base != 'testing.rs' or False
        return False

    def typedef(self, path):
        """resolve a (possibly module-qualified, possibly generic) type path string to a TypeDef or None."""
        if path is None:
            return None
        p = path.strip()
        p = re.sub(r"^&(?:'\w+ )?(?:mut )?", '', p).strip()
        p = strip_generics(p).strip()
        segs = [x for x in p.split('::') if x]
        if not segs:
            return None
        name = segs[-1].strip()
        cands = [t for t in self.types.get(name, []) if not t.test] or self.types.get(name, [])
        if not cands:
            return None
        if len(cands) == 1:
            return cands[0]
        if len(segs) > 1:
            suffix = '::'.join(segs[:-1])
            c2 = [t for t in cands if t.mod.endswith(suffix) or t.mod.split('::')[-1] == segs[-2]]
            if len(c2) == 1:
                return c2[0]
        return None

    def qual_type(self, s):
        """normalise a type string: drop module paths except the qualifier of ambiguous names, drop spaces."""
        s = s.strip()

        def rep(m):
            segs = m.group(0).split('::')
            name = segs[-1]
            if name in self.ambiguous and len(segs) > 1:
                return segs[-2] + '::' + name
            return name
        out = re.sub(r'(?:[A-Za-z_]\w*::)+[A-Za-z_]\w*', rep, s)
        return re.sub(r'\s+', ' ', out).replace(' <', '<').replace('< ', '<').replace(' >', '>').replace(' ,', ',')

    # ------------------------------------------------------------ canonical ids
    _IMPL_RE = re.compile(r'<impl at ([^>]*?):(\d+):(\d+): (\d+):(\d+)>')

    def _assign_ids(self):
        self.by_id = {}
        self.by_path = {}
        self.unmatched_impls = []
        for b in self.bodies:
            self._assign_id(b)
        for b in self.bodies:
            self.by_path[b.path] = b
            if b.kind == 'fn':
                if b.fid in self.by_id:
                    # duplicate ids (e.g. cfg'd twins): disambiguate by file:line
                    b.fid = '%s@%s:%s' % (b.fid, b.file, b.line)
                self.by_id[b.fid] = b

    def _self_ty_of(self, imp):
        st = _nospace(imp['self_ty'])
        name = re.sub(r'<.*', '', st)
        if name in self.types:
            st = name                                   # local generic type: ComboErrors<E> -> ComboErrors
        if name in self.ambiguous:
            return imp['ctx']['mod'].split('::')[-1] + '::' + st
        return st

    def _owner_from_sig(self, b, default):
        """for macro-generated impls (all share the macro's call-site span): owner = type of `self`."""
        if b.debug.get('self') == '_1' and b.params:
            t = b.params[0][1]
            t = re.sub(r"^&(?:'\w+ )?(?:mut )?", '', t).strip()
            q = _nospace(self.qual_type(t))
            if re.match(r'[\w:]+$', q):
                return q
        if default is not None and b.ret:
            r = _nospace(self.qual_type(b.ret))
            if r.endswith('HistoryVec') and re.match(r'[\w:]+$', r):
                return r
        return default

    def _assign_id(self, b):
        path = b.path
        impls = list(self._IMPL_RE.finditer(path))
        file = None
        owner = None
        trait = None
        if impls:
            m = impls[-1]
            file, line, col = m.group(1), int(m.group(2)), int(m.group(3))
            tail = path[m.end():]
            key = (file, line, col)
            b.impl_pos = key
            if key in self.impls_by_pos:
                imp = self.impls_by_pos[key]
                owner = self._self_ty_of(imp)
                trait = _nospace(imp['trait']) if imp['trait'] else None
                if trait:
                    trait = re.sub(r'^.*::', '', re.sub(r'<.*', '', trait)) + (re.search(r'<.*', trait).group(0) if '<' in trait else '')
            elif key in self.derive_by_pos:
                tr, td = self.derive_by_pos[key]
                owner, trait = self._owner_from_sig(b, td.qual), 'derive(%s)' % tr
            elif key in self.attr_by_pos:
                an, td = self.attr_by_pos[key]
                owner, trait = self._owner_from_sig(b, td.qual), 'attr(%s)' % an
            else:
                self.unmatched_impls.append((key, path[:160]))
                owner = '<impl@%s:%d:%d>' % (os.path.basename(file), line, col)
            tail = strip_generics(tail)
            names = [x for x in tail.split('::') if x]
            if len(impls) > 1:
                # nested impl (serde visitor inside deserialize): prefix with the outer chain
                outer = strip_generics(path[impls[0].end():impls[-1].start()])
                names = [x for x in outer.split('::') if x and x != '_'] + ['<impl>'] + names
            if trait and not trait.startswith(('derive(', 'attr(')):
                fid = '<%s as %s>::%s' % (owner, trait, '::'.join(names))
            elif trait:
                fid = '%s::%s::%s' % (owner, trait, '::'.join(names))
            else:
                fid = '%s::%s' % (owner, '::'.join(names))
            b.names = names
        else:
            p = strip_generics(path)
            segs = [x for x in p.split('::') if x and x != '_']
            # trait default methods: `module::Trait::method` -> `Trait::method`
            for i_, sg in enumerate(segs[:-1]):
                if sg in self.traits and i_ > 0:
                    segs = segs[i_:]
                    break
            b.names = segs
            fid = '::'.join(segs)
        b.fid = fid
        # file/line from the first span we can find
        sp = None
        for n in sorted(b.local_spans):
            sp = b.local_spans[n]
            if sp and ('.rs:' in sp):
                break
        f, ln, _ = mir.span_file_line(sp)
        if f is None and file:
            f, ln = file, int(impls[-1].group(2))
        b.file, b.line = f, ln
        b.test = self.in_test(f, ln or 0) or (f or '').endswith(('/tests.rs', '/test.rs'))
        if '{closure#' in fid:
            b.closure_of = fid[:fid.index('::{closure#')]

    # ------------------------------------------------------------ callee resolution
    def resolve(self, callee):
        """callee string at a call site -> list of candidate Body objects of this crate ([] if external).
        Trait calls on a generic `Self`/type parameter resolve to every implementor's method plus the default."""
        c = callee.strip()
        key = c
        cache = self.__dict__.setdefault('_rcache', {})
        if key in cache:
            return cache[key]
        res = self._resolve(c)
        cache[key] = res
        return res

    def _resolve(self, c):
        # closures called through Fn* traits are resolved by the caller (needs the operand); not here
        m = re.match(r'<(.*) as ([^>]*?(?:<.*>)?)>::(\w+)(?:::<.*>)?$', c, re.S)
        if m and c.startswith('<'):
            # find the top-level ' as '
            inner_end = mir.find_matching(c, 0)
            inner = c[1:inner_end - 1]
            k = self._top_level_as(inner)
            if k is not None:
                ty, tr = inner[:k], inner[k + 4:]
                meth = strip_generics(c[inner_end:]).strip(':')
                return self._resolve_trait(ty, tr, meth)
        c = re.sub(r'<impl ([^<>]*(?:<[^<>]*>)?)>', lambda mm: mm.group(1).split(' for ')[-1], c)
        p = strip_generics(c)
        segs = [x for x in p.split('::') if x]
        if len(segs) >= 2:
            meth = segs[-1]
            tname = segs[-2]
            # inherent method or trait default called as Trait::method
            qual = (segs[-3] + '::' + tname) if (tname in self.ambiguous and len(segs) >= 3) else tname
            fid = '%s::%s' % (qual, meth)
            if fid in self.by_id:
                return [self.by_id[fid]]
            if tname in self.traits:
                return self._resolve_trait(None, tname, meth)
            # attr/derive generated inherent methods
            out = [b for f, b in self.by_id.items() if f.startswith(qual + '::') and f.endswith('::' + meth)
                   and re.match(re.escape(qual) + r'::(derive|attr)\([^)]*\)::' + re.escape(meth) + '$', f)]
            if out:
                return out
        # free function: match by trailing segments
        if segs:
            fid = '::'.join(segs)
            if fid in self.by_id:
                return [self.by_id[fid]]
            cands = [b for f, b in self.by_id.items() if (f == segs[-1] or f.endswith('::' + segs[-1]))
                     and '<' not in f and b.impl_pos is None]
            if len(segs) >= 2:
                c2 = [b for b in cands if b.fid.endswith('::'.join(segs[-2:]))]
                if c2:
                    cands = c2
                else:
                    # a qualified path only denotes a crate function when its qualifier is one of the crate's own modules
                    # and the candidate is defined in that module (external crates such as serde_yaml are not)
                    q = segs[-2]
                    if q not in self.crate_modules():
                        cands = []
            if len(cands) == 1:
                return cands
        return []

    @staticmethod
    def _top_level_as(inner):
        d = 0
        i = 0
        n = len(inner)
        while i < n:
            ch = inner[i]
            if ch in '<([':
                d += 1
            elif ch in ')]' or (ch == '>' and not (i > 0 and inner[i - 1] in '-=')):
                d -= 1
            elif d == 0 and inner.startswith(' as ', i):
                return i
            i += 1
        return None

    def _resolve_trait(self, ty, tr, meth):
        trn = re.sub(r'^.*::', '', strip_generics(tr).strip())
        out = []
        if ty is not None:
            q = _nospace(self.qual_type(ty))
            q = re.sub(r"^&(?:'\w+)?(?:mut)?", '', q)
            for f, b in self.by_id.items():
                if f.startswith('<') and f.endswith('>::' + meth):
                    mm = re.match(r'<(.*) as ([^>]*?)(?:<.*>)?>::' + re.escape(meth) + '$', f)
                    if mm and re.sub(r'<.*', '', mm.group(2)) == trn:
                        owner = _nospace(mm.group(1))
                        if owner == q or strip_generics(owner) == strip_generics(q):
                            out.append(b)
            if out:
                return out
            # same comparison with module qualifiers of ambiguous names removed on both sides (`[link_impl::Link]` vs `[Link]`)
            dq = lambda z: re.sub(r'\b\w+::', '', z)
            for f, b in self.by_id.items():
                if f.startswith('<') and f.endswith('>::' + meth):
                    mm = re.match(r'<(.*) as ([^>]*?)(?:<.*>)?>::' + re.escape(meth) + '$', f)
                    if mm and re.sub(r'<.*', '', mm.group(2)) == trn and dq(_nospace(mm.group(1))) == dq(q):
                        out.append(b)
            if out:
                return out
            # derive-generated trait impls
            for f, b in self.by_id.items():
                if f == '%s::derive(%s)::%s' % (q, trn, meth):
                    return [b]
            # concrete type without own impl -> trait default body
            d = self.by_id.get('%s::%s' % (trn, meth))
            if d is not None and not self._is_generic_self(q):
                return [d]
            # extension traits generated by a macro over an inherent-looking impl (easy_ext): `impl [T] { fn m }`
            d = self.by_id.get('%s::%s' % (q, meth))
            if d is not None and trn not in self.traits:
                return [d]
        # generic Self / type parameter: every implementor + default
        if trn in self.traits:
            for f, b in self.by_id.items():
                if f.startswith('<') and f.endswith('>::' + meth):
                    mm = re.match(r'<(.*) as ([^>]*?)(?:<.*>)?>::' + re.escape(meth) + '$', f)
                    if mm and re.sub(r'<.*', '', mm.group(2)) == trn:
                        out.append(b)
            d = self.by_id.get('%s::%s' % (trn, meth))
            if d is not None:
                out.append(d)
        return out

    @staticmethod
    def _is_generic_self(q):
        return q in ('Self', 'T', 'U', 'D', 'S') or re.fullmatch(r'[A-Z]', q) is not None

    # ------------------------------------------------------------ helpers for rules
    def fn(self, fid):
        b = self.by_id.get(fid)
        if b is None:
            raise KeyError('anchor function not found: ' + fid)
        return b

    def crate_modules(self):
        cm = self.__dict__.get('_crate_modules')
        if cm is None:
            cm = {m['name'] for m in self.mods} | {'crate', 'self', 'super'}
            for f in self.files:
                stem = os.path.basename(f)[:-3]
                cm.add(stem if stem != 'mod' else os.path.basename(os.path.dirname(f)))
            self.__dict__['_crate_modules'] = cm
        return cm

    def find_fn(self, name):
        """unique non-test fn whose id is `name` or ends with `::name` (module prefixes are printed trimmed by rustc)"""
        if name in self.by_id:
            return self.by_id[name]
        last = name.split('::')[-1]
        c = [b for f, b in self.by_id.items() if (f == last or f.endswith('::' + last)) and not b.test and '{closure' not in f
             and b.impl_pos is None]
        if len(c) == 1:
            return c[0]
        c2 = [b for b in c if b.fid.endswith(name)]
        return c2[0] if len(c2) == 1 else None

    def find(self, pat):
        r = re.compile(pat)
        return [b for f, b in self.by_id.items() if r.search(f)]

    def closures_of(self, fid):
        return sorted([b for f, b in self.by_id.items() if b.closure_of == fid], key=lambda b: b.fid)

    def nontest_fns(self):
        return [b for b in self.bodies if b.kind == 'fn' and not b.test]
