"""Rule API and run context shared by rules/Cxx.py and the `check` runner."""
import json, os, time

PROVED, DISPROVED, UNPROVED, INFO = 'PROVED', 'DISPROVED', 'UNPROVED', 'INFO'


class Result:
    __slots__ = ('rule', 'key', 'verdict', 'detail', 'where', 'kind', 'cfg', 'term')

    def __init__(self, rule, key, verdict, detail='', where=None, kind=None, cfg='default', term=None):
        self.rule = rule          # rule id inside the property, e.g. 'C19-2.order'
        self.key = key            # stable instance key: canonical function id [+ obligation id]; never a line number
        self.verdict = verdict
        self.detail = detail
        self.where = where        # file:line (diagnostic only; not part of the key)
        self.kind = kind or {'PROVED': 'proved', 'DISPROVED': 'disproved', 'UNPROVED': 'unproved', 'INFO': 'info'}[verdict]
        self.cfg = cfg
        self.term = term

    def ident(self):
        return '%s|%s' % (self.rule, self.key)

    def to_json(self):
        d = {'rule': self.rule, 'key': self.key, 'verdict': self.verdict, 'detail': self.detail}
        if self.where:
            d['where'] = self.where
        if self.term:
            d['term'] = self.term
        if self.cfg != 'default':
            d['cfg'] = self.cfg
        return d


class Ctx:
    """what a rule file gets: the program(s), the tier, and recorders."""

    def __init__(self, prop, tier, prog, cfg='default', progs=None):
        self.prop = prop
        self.tier = tier
        self.prog = prog
        self.cfg = cfg
        self.progs = progs or {cfg: prog}
        self.results = []
        self.counts = {}
        self.floors = {}
        self.notes = []
        self.samples = []
        self.analysed = {}        # free-form inventory for the evidence file
        self.assumptions = []

    # -- recording
    def ok(self, rule, key, detail='', where=None, term=None):
        self.results.append(Result(rule, key, PROVED, detail, where, cfg=self.cfg, term=term))

    def bad(self, rule, key, detail='', where=None, term=None):
        self.results.append(Result(rule, key, DISPROVED, detail, where, cfg=self.cfg, term=term))

    def unproved(self, rule, key, detail='', where=None, term=None):
        self.results.append(Result(rule, key, UNPROVED, detail, where, cfg=self.cfg, term=term))

    def info(self, rule, key, detail='', where=None):
        self.results.append(Result(rule, key, INFO, detail, where, cfg=self.cfg))

    def check(self, cond, rule, key, ok_detail='', bad_detail='', where=None):
        if cond:
            self.ok(rule, key, ok_detail, where)
        else:
            self.bad(rule, key, bad_detail or ok_detail, where)
        return cond

    def anchor(self, rule, fid):
        """fetch an anchor function; a missing anchor fails closed (UNPROVED, kind=anchor)."""
        b = self.prog.by_id.get(fid)
        if b is None:
            r = Result(rule, fid, UNPROVED, 'anchor function not found in the crate: %s' % fid, cfg=self.cfg, kind='anchor')
            self.results.append(r)
        return b

    def floor(self, name, count, minimum):
        """instance-count floor confirmed by hand on the pinned tree; below it the check fails closed."""
        self.counts[name] = count
        self.floors[name] = minimum
        if count < minimum:
            self.results.append(Result('floor', name, UNPROVED,
                                       'instance count %d is below the hand-confirmed floor %d: the rule would pass vacuously'
                                       % (count, minimum), cfg=self.cfg, kind='floor'))

    def note(self, s):
        self.notes.append(s)

    def sample(self, s):
        if len(self.samples) < 12:
            self.samples.append(s)

    def where(self, body, span=None):
        if span:
            return span.split(': ')[0] if ': ' in span else span
        return '%s:%s' % (body.file, body.line)


def load_known(verif_dir):
    p = os.path.join(verif_dir, 'known_findings.json')
    if not os.path.exists(p):
        return {'findings': [], 'fixed': []}
    return json.load(open(p))
