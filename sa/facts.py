"""Freshness and extraction: every check analyses facts extracted from the *current* /repo working tree.

facts live in /verif/.cache/facts/<treehash>/ :  ast.json, <cfg>.mirc, <cfg>.idx.json, <cfg>.bodies.pkl, extract.log
<treehash> covers every file under $REPO/rust (except target/), `rustc -V`, and the extractor's own sources.
Extraction runs under an exclusive flock so that concurrently started checks share one extraction."""
import fcntl, hashlib, json, os, shutil, subprocess, sys, time

VERIF = os.path.dirname(os.path.dirname(os.path.abspath(__file__)))
REPO = os.environ.get('VERIF_REPO', '/repo')
CACHE = os.path.join(VERIF, '.cache')
FACTS = os.path.join(CACHE, 'facts')
ASTFACTS_DIR = os.path.join(VERIF, 'extract', 'astfacts')
ASTFACTS_BIN = os.path.join(ASTFACTS_DIR, 'target', 'release', 'astfacts')
BODY_FLOOR = {'default': 3000, 'pyo3': 3000}
EXTRACTOR_FILES = ['extract/wrap.sh', 'extract/mirdump.sh', 'extract/astfacts/src/main.rs', 'sa/collapse.py',
                   'sa/mir.py']


class ExtractionFailed(Exception):
    pass


def tree_hash(repo=None):
    repo = repo or REPO
    root = os.path.join(repo, 'rust')
    h = hashlib.sha256()
    files = []
    for dp, dn, fn in os.walk(root):
        dn[:] = sorted(d for d in dn if d not in ('target', '.git'))
        for f in sorted(fn):
            files.append(os.path.join(dp, f))
    for p in files:
        h.update(os.path.relpath(p, root).encode())
        h.update(b'\0')
        try:
            with open(p, 'rb') as fh:
                h.update(hashlib.sha256(fh.read()).digest())
        except OSError:
            h.update(b'?')
    try:
        h.update(subprocess.run(['rustc', '-V'], capture_output=True, text=True, cwd=root).stdout.encode())
    except OSError:
        pass
    for f in EXTRACTOR_FILES:
        with open(os.path.join(VERIF, f), 'rb') as fh:
            h.update(hashlib.sha256(fh.read()).digest())
    return h.hexdigest()[:20], len(files)


def _build_astfacts(log):
    if os.path.exists(ASTFACTS_BIN):
        return
    env = dict(os.environ, CARGO_NET_OFFLINE='true')
    r = subprocess.run(['cargo', 'build', '--release', '--offline', '-q'], cwd=ASTFACTS_DIR, env=env,
                       capture_output=True, text=True)
    log.write(r.stdout + r.stderr)
    if r.returncode != 0 or not os.path.exists(ASTFACTS_BIN):
        raise ExtractionFailed('astfacts build failed:\n' + r.stderr[-2000:])


def ensure_facts(cfg='default', repo=None, quiet=False):
    """returns (facts_dir, info dict). Raises ExtractionFailed."""
    repo = repo or REPO
    os.makedirs(FACTS, exist_ok=True)
    th, nfiles = tree_hash(repo)
    d = os.path.join(FACTS, th)
    done = os.path.join(d, cfg + '.ok')
    info = {'tree_hash': th, 'source_files_hashed': nfiles, 'cfg': cfg, 'repo': repo}
    if os.path.exists(done) and os.path.exists(os.path.join(d, 'ast.json')):
        info.update(json.load(open(done)))
        info['cached'] = True
        try:
            os.utime(d, None)
        except OSError:
            pass
        return d, info
    # one extraction at a time per cargo target directory (the self-test runs several workers, each with its own)
    lock = open(os.path.join(CACHE, 'extract%s.lock' % os.environ.get('VERIF_WORKER', '')), 'w')
    fcntl.flock(lock, fcntl.LOCK_EX)
    try:
        if os.path.exists(done) and os.path.exists(os.path.join(d, 'ast.json')):
            info.update(json.load(open(done)))
            info['cached'] = True
            return d, info
        os.makedirs(d, exist_ok=True)
        t0 = time.time()
        with open(os.path.join(d, 'extract.log'), 'a') as log:
            _build_astfacts(log)
            if not os.path.exists(os.path.join(d, 'ast.json')):
                env = dict(os.environ, ASTFACTS_ROOT=os.path.join(repo, 'rust'))
                r = subprocess.run([ASTFACTS_BIN, os.path.join(repo, 'rust', 'altrios-core', 'src'),
                                    os.path.join(repo, 'rust', 'altrios-core', 'altrios-proc-macros', 'src')],
                                   env=env, capture_output=True, text=True)
                if r.returncode != 0:
                    raise ExtractionFailed('astfacts failed: ' + r.stderr[-2000:])
                ast = json.loads(r.stdout)
                perr = [x for x in ast if x['kind'] == 'parse_error']
                if perr:
                    raise ExtractionFailed('source does not parse: %s' % perr[:3])
                with open(os.path.join(d, 'ast.json'), 'w') as f:
                    f.write(r.stdout)
            raw = os.path.join(d, cfg + '.mir')
            if not quiet:
                print('[extract] dumping MIR of %s/rust (%s configuration) ...' % (repo, cfg), file=sys.stderr)
            r = subprocess.run([os.path.join(VERIF, 'extract', 'mirdump.sh'), os.path.join(repo, 'rust'), raw, cfg],
                               capture_output=True, text=True)
            log.write(r.stdout + r.stderr)
            if r.returncode != 0 or not os.path.exists(raw):
                raise ExtractionFailed('MIR dump failed (does the crate compile?):\n' + (r.stderr or '')[-3000:])
            from . import collapse
            nb, left = collapse.collapse(raw, os.path.join(d, cfg))
            os.remove(raw)
            if nb < BODY_FLOOR[cfg]:
                raise ExtractionFailed('MIR dump holds %d bodies, floor %d' % (nb, BODY_FLOOR[cfg]))
            # parse everything once; every check of this tree state loads the pickle
            from .program import Program
            p = Program(d, cfg)
            perr = [(b.fid, b.errors[:2]) for b in p.bodies if b.errors]
            meta = {'bodies': nb, 'fn_bodies': sum(1 for b in p.bodies if b.kind == 'fn'),
                    'leftover_dimension_strings': left, 'parse_errors': len(perr),
                    'parse_error_bodies': [x[0] for x in perr][:50], 'extract_wall_s': round(time.time() - t0, 1)}
            json.dump(meta, open(done, 'w'))
            info.update(meta)
            info['cached'] = False
        _prune(keep={th})
        return d, info
    finally:
        fcntl.flock(lock, fcntl.LOCK_UN)
        lock.close()


def _prune(keep, n=16):
    try:
        ds = sorted((os.path.getmtime(os.path.join(FACTS, x)), x) for x in os.listdir(FACTS))
    except OSError:
        return
    for _, x in ds[:-n]:
        if x not in keep:
            shutil.rmtree(os.path.join(FACTS, x), ignore_errors=True)


def purge():
    shutil.rmtree(CACHE, ignore_errors=True)
