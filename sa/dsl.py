"""Tiny expression DSL for writing reference terms in rule files: wraps term tuples with operators."""
from fractions import Fraction
from .terms import mk, num, ZERO, ONE


def _t(x):
    if isinstance(x, T):
        return x.t
    if isinstance(x, (int, float, Fraction)):
        return num(x)
    if isinstance(x, tuple):
        return x
    raise TypeError('not a term: %r' % (x,))


class T:
    __slots__ = ('t',)

    def __init__(self, t):
        self.t = _t(t)

    def __add__(self, o): return T(mk('add', self.t, _t(o)))
    def __radd__(self, o): return T(mk('add', _t(o), self.t))
    def __sub__(self, o): return T(mk('sub', self.t, _t(o)))
    def __rsub__(self, o): return T(mk('sub', _t(o), self.t))
    def __mul__(self, o): return T(mk('mul', self.t, _t(o)))
    def __rmul__(self, o): return T(mk('mul', _t(o), self.t))
    def __truediv__(self, o): return T(mk('div', self.t, _t(o)))
    def __rtruediv__(self, o): return T(mk('div', _t(o), self.t))
    def __neg__(self): return T(mk('neg', self.t))
    def __pow__(self, n): return T(('powi', self.t, int(n)))
    def abs(self): return T(mk('abs', self.t))
    def max(self, o): return T(mk('max', self.t, _t(o)))
    def min(self, o): return T(mk('min', self.t, _t(o)))
    def sqrt(self): return T(('sqrt', self.t))
    # comparisons build boolean terms (not Python bools)
    def ge(self, o): return T(mk('ge', self.t, _t(o)))
    def gt(self, o): return T(mk('gt', self.t, _t(o)))
    def le(self, o): return T(mk('le', self.t, _t(o)))
    def lt(self, o): return T(mk('lt', self.t, _t(o)))
    def eq(self, o): return T(mk('eq', self.t, _t(o)))

    def __repr__(self):
        from .terms import show
        return 'T(%s)' % show(self.t)


def gamma(c, a, b):
    return T(mk('gamma', _t(c), _t(a), _t(b)))


def NOT(c):
    return T(mk('not', _t(c)))


def select(term, discr_pred, key):
    """replace every Γ whose discriminant satisfies discr_pred by its branch for `key` (arm selection)"""
    from .terms import map_term

    def f(x):
        if x[0] == 'Gamma' and discr_pred(x[1]):
            dflt = None
            for k, v in x[2]:
                ks = k.split('|')
                if str(key) in ks:
                    return v
                if 'otherwise' in ks:
                    dflt = v
            if dflt is not None:
                return dflt
        return x
    return map_term(_t(term), f)


def specialize(term, scrutinee, key, variant_term=None):
    """restrict `term` to the case discr(scrutinee) == key: Γ's on that discriminant are replaced by their arm, the
    scrutinee itself by `variant_term` (so comparisons with constant variants fold)"""
    from .terms import map_term, mk, num
    d = ('discr', scrutinee)
    nk = num(int(key))

    def f(x):
        if x == d or (variant_term is not None and x == ('discr', variant_term)):
            return nk
        if x[0] == 'Gamma' and x[1] == nk:
            dflt = None
            for k, v in x[2]:
                ks = k.split('|')
                if str(key) in ks:
                    return v
                if 'otherwise' in ks:
                    dflt = v
            return dflt if dflt is not None else x
        if x[0] == 'gamma' and x[1] == nk:
            return x[2] if int(key) != 0 else x[3]
        if variant_term is not None and x == scrutinee:
            return variant_term
        return x
    t = _t(term)
    for _ in range(4):
        t2 = map_term(t, f)
        if t2 == t:
            break
        t = t2
    return t
