"""Inventories over all bodies: who writes which (Type, field), who calls what, call graph reachability.
Purely structural (no SVN)."""
import re, collections
from .cfg import CFG
from .svn import strip_ref, elem_type, _is_dim
from .program import strip_generics


class Inventory:
    def __init__(self, prog):
        self.prog = prog
        self._writes = None
        self._calls = None
        self._callers = None
        self._cfg = {}

    def cfg(self, body):
        c = self._cfg.get(body.fid)
        if c is None:
            c = self._cfg[body.fid] = CFG(body)
        return c

    # ------------------------------------------------------------ field chain of a place
    def place_fields(self, body, place):
        """[(owner type qualified name, field name, field type)] for every field projection of the place"""
        out = []
        n = place.local
        cur = dict(body.params).get(n) or (body.ret if n == 0 else body.locals.get(n))
        variant = None
        for pr in place.proj:
            k = pr[0]
            if k == 'deref':
                cur = strip_ref(cur) if cur else cur
                variant = None
            elif k == 'field':
                base = strip_ref(cur or '')
                if _is_dim(base):
                    cur = pr[2]
                    continue
                td = self.prog.typedef(base)
                owner = td.qual if td is not None else re.sub(r'<.*', '', base).split('::')[-1]
                name = None
                if td is not None and td.kind == 'struct':
                    name = td.field_name(pr[1])
                elif td is not None and variant:
                    for v in td.variants:
                        if v['name'] == variant and pr[1] < len(v['fields']):
                            name = v['fields'][pr[1]]['name'] or '#%d' % pr[1]
                    owner = '%s::%s' % (owner, variant)
                elif owner.endswith('HistoryVec'):
                    td2 = self.prog.typedef(owner[:-len('HistoryVec')])
                    if td2 is not None and td2.kind == 'struct':
                        name = td2.field_name(pr[1])
                out.append((owner, name or '#%d' % pr[1], pr[2]))
                cur = pr[2]
                variant = None
            elif k == 'downcast':
                variant = pr[1]
            elif k in ('index', 'cindex', 'subslice'):
                cur = elem_type(cur) if cur else None
                variant = None
        return out

    # ------------------------------------------------------------ writes
    def writes(self):
        """{(Type, field): [(body, block, span, how)]}; how in assign | opassign | lend(&mut handed to a call)"""
        if self._writes is not None:
            return self._writes
        W = collections.defaultdict(list)
        for b in self.prog.bodies:
            if b.kind != 'fn':
                continue
            mutrefs = {}
            for bn in b.order:
                blk = b.blocks[bn]
                if blk.cleanup:
                    continue
                for s in blk.stmts:
                    if s.kind == 'assign' and s.rv[0] == 'ref' and 'mut' in s.rv[1] and s.rv[2].proj and not s.lhs.proj:
                        ch = self.place_fields(b, s.rv[2])
                        if ch:
                            mutrefs[s.lhs.local] = (ch, s.span)
            for bn in b.order:
                blk = b.blocks[bn]
                if blk.cleanup:
                    continue
                for s in blk.stmts:
                    if s.kind == 'assign':
                        if s.lhs.proj:
                            ch = self.place_fields(b, s.lhs)
                            # a store to a.b.c writes field c of its owner, and (partially) b of its owner ...
                            if ch:
                                W[(ch[-1][0], ch[-1][1])].append((b, bn, s.span, 'assign'))
                                for o, f, _ in ch[:-1]:
                                    W[(o, f)].append((b, bn, s.span, 'assign-inner'))
                    elif s.kind == 'setdiscr' and s.lhs.proj:
                        ch = self.place_fields(b, s.lhs)
                        if ch:
                            W[(ch[-1][0], ch[-1][1])].append((b, bn, s.span, 'assign'))
                t = blk.term
                if t.kind == 'call':
                    for a in t.args:
                        if a[0] in ('move', 'copy') and not a[1].proj and a[1].local in mutrefs:
                            ch, sp = mutrefs[a[1].local]
                            how = 'opassign' if re.search(r'(Add|Sub|Mul|Div)Assign', t.callee) else 'lend:' + strip_generics(t.callee)[-60:]
                            W[(ch[-1][0], ch[-1][1])].append((b, bn, t.span, how))
                    if t.dest is not None and t.dest.proj:
                        ch = self.place_fields(b, t.dest)
                        if ch:
                            W[(ch[-1][0], ch[-1][1])].append((b, bn, t.span, 'assign'))
                            for o, f, _ in ch[:-1]:
                                W[(o, f)].append((b, bn, t.span, 'assign-inner'))
        self._writes = W
        return W

    def writers(self, ty, field, hows=('assign', 'opassign'), include_test=False, include_ctor=False):
        """bodies that directly store into Type.field (dedup), excluding tests, constructors/Default/serde by default"""
        out = {}
        for b, bn, span, how in self.writes().get((ty, field), []):
            if how.split(':')[0] not in hows:
                continue
            if b.test and not include_test:
                continue
            if not include_ctor and self.is_ctor_like(b):
                continue
            out.setdefault(b.fid, b)
        return list(out.values())

    @staticmethod
    def is_ctor_like(b):
        f = b.fid
        if re.search(r'derive\((Deserialize|Serialize|Clone|Default|Debug|PartialEq)\)', f):
            return True
        if re.search(r' as Default>::default$|::default$|::new$|::valid$|::from_|::try_from|<impl>', f):
            return True
        if re.search(r' as From<', f):
            return True
        return False

    # ------------------------------------------------------------ calls
    def calls(self):
        """{caller fid: [(block, Term, [callee fids])]}"""
        if self._calls is None:
            C = {}
            R = collections.defaultdict(set)
            for b in self.prog.bodies:
                if b.kind != 'fn':
                    continue
                lst = []
                for bn in b.order:
                    blk = b.blocks[bn]
                    t = blk.term
                    if t.kind == 'call':
                        tg = [x.fid for x in self.prog.resolve(t.callee)]
                        # function items / closures passed as arguments count as (potential) calls
                        lst.append((bn, t, tg))
                        for x in tg:
                            R[x].add(b.fid)
                    for s in blk.stmts:
                        if s.kind == 'assign' and s.rv[0] == 'closure':
                            m = s.rv[1]
                            # closure bodies are callees of their parent
                            for cb in self.prog.closures_of(b.fid):
                                if cb.params and m in cb.params[0][1]:
                                    R[cb.fid].add(b.fid)
                                    lst.append((bn, None, [cb.fid]))
                C[b.fid] = lst
            self._calls = C
            self._callers = R
        return self._calls

    def callers(self, fid):
        self.calls()
        return sorted(self._callers.get(fid, ()))

    def reachable(self, roots):
        """fids reachable from roots through resolved calls (incl. closures)"""
        C = self.calls()
        seen = set()
        work = list(roots)
        while work:
            x = work.pop()
            if x in seen:
                continue
            seen.add(x)
            for _, _, tg in C.get(x, []):
                work.extend(tg)
        return seen

    def reachable_to(self, targets):
        """fids from which some fid in `targets` is reachable"""
        self.calls()
        seen = set()
        work = list(targets)
        while work:
            x = work.pop()
            if x in seen:
                continue
            seen.add(x)
            work.extend(self._callers.get(x, ()))
        return seen

    def transitive_writes(self, roots):
        """{(Type, field)} directly written by any function reachable from roots"""
        reach = self.reachable(roots)
        out = collections.defaultdict(set)
        for key, lst in self.writes().items():
            for b, bn, span, how in lst:
                if b.fid in reach and how.split(':')[0] in ('assign', 'opassign', 'assign-inner', 'lend'):
                    out[key].add(b.fid)
        return out
