"""Term language of the symbolic value numbering (DESIGN §4.6).  Terms are plain tuples.

  ('num', Fraction)            ('bool', b)           ('unit',)             ('str', s)
  ('pre', path)                value of `path` in the function's pre-state (path rooted at a parameter)
  ('sym', name)                named opaque constant (f64::INFINITY, external consts, statics)
  ('fresh', id, why)           havoc'd value
  ('loopvar', header, key)     value of a store key at a loop header (widened)
  ('iterpos', id)              position of iterator `id` in the iteration being analysed
  ('add'|'sub'|'mul'|'div'|'rem'|'max'|'min', a, b)   ('neg'|'abs'|'sqrt'|'not', a)   ('powi', a, n)
  ('lt'|'le'|'gt'|'ge'|'eq'|'ne'|'and'|'or', a, b)
  ('uf', name, a...)           uninterpreted function application
  ('gamma', cond, a, b)        a if cond else b            ('Gamma', discr, ((key, t), ...))
  ('some', t) ('none',) ('ok', t) ('err', t) ('maybe', t)  ('cf', 'Continue'|'Break', t)
  ('agg', typename, ((field, t), ...))   ('tuple', t...)   ('variant', name, t...)   ('array', t...)
  ('ref', path, 'mut'|'shr')   ('closure', id, ((idx, t), ...))   ('fnitem', name)
  ('discr', t)  ('len', t)  ('elem', coll, idx)  ('proj', t, comp)  ('upd', base, subpath, t)  ('push', coll, t)
  ('vinsert', coll, idx, t)  ('vremove', coll, idx)
  ('iter', kind, ...)          symbolic iterators       ('Sum', iter_term)  ('at', site, t)

Paths are tuples of components; roots ('obj', n) = pointee of reference parameter n, ('val', n) = by-value
parameter n, ('local', n), ('ptr', term) = pointee of an unknown pointer value, ('static', name);
components ('f', name) ('as', Variant) ('idx', term) .
"""
from fractions import Fraction

ZERO = ('num', Fraction(0))
ONE = ('num', Fraction(1))
UNIT = ('unit',)
TRUE = ('bool', True)
FALSE = ('bool', False)

ARITH2 = {'add', 'sub', 'mul', 'div', 'rem', 'max', 'min'}
CMP = {'lt', 'le', 'gt', 'ge', 'eq', 'ne'}
NEGCMP = {'lt': 'ge', 'le': 'gt', 'gt': 'le', 'ge': 'lt', 'eq': 'ne', 'ne': 'eq'}


def num(v):
    if isinstance(v, Fraction):
        return ('num', v)
    if isinstance(v, int):
        return ('num', Fraction(v))
    return ('num', Fraction(str(v)))


def is_num(t):
    return isinstance(t, tuple) and t and t[0] == 'num'


def mk(op, *a):
    """smart constructor: constant folding and trivial identities only (keeps terms recognisable)."""
    if op in ARITH2:
        x, y = a
        if is_num(x) and is_num(y):
            try:
                if op == 'add': return ('num', x[1] + y[1])
                if op == 'sub': return ('num', x[1] - y[1])
                if op == 'mul': return ('num', x[1] * y[1])
                if op == 'div' and y[1] != 0: return ('num', x[1] / y[1])
                if op == 'max': return ('num', max(x[1], y[1]))
                if op == 'min': return ('num', min(x[1], y[1]))
                if op == 'rem' and y[1] != 0 and x[1].denominator == 1 and y[1].denominator == 1:
                    return ('num', Fraction(int(x[1]) % int(y[1])))
            except (ZeroDivisionError, OverflowError):
                pass
        if op == 'mul':
            if x == ONE: return y
            if y == ONE: return x
        if op == 'div' and y == ONE:
            return x
        if op == 'add':
            if x == ZERO: return y
            if y == ZERO: return x
        if op == 'sub' and y == ZERO:
            return x
        return (op, x, y)
    if op == 'neg':
        x, = a
        if is_num(x): return ('num', -x[1])
        if x[0] == 'neg': return x[1]
        return ('neg', x)
    if op == 'abs':
        x, = a
        if is_num(x): return ('num', abs(x[1]))
        return ('abs', x)
    if op == 'not':
        x, = a
        if x[0] == 'bool': return ('bool', not x[1])
        if x[0] == 'not': return x[1]
        if x[0] in NEGCMP and x[0] in ('eq', 'ne'):
            return (NEGCMP[x[0]], x[1], x[2])
        return ('not', x)
    if op in CMP:
        x, y = a
        if is_num(x) and is_num(y):
            r = {'lt': x[1] < y[1], 'le': x[1] <= y[1], 'gt': x[1] > y[1], 'ge': x[1] >= y[1],
                 'eq': x[1] == y[1], 'ne': x[1] != y[1]}[op]
            return ('bool', r)
        if x[0] == 'bool' and y[0] == 'bool' and op in ('eq', 'ne'):
            return ('bool', (x[1] == y[1]) == (op == 'eq'))
        if x[0] == 'variant' and y[0] == 'variant' and len(x) == 2 and len(y) == 2 and op in ('eq', 'ne'):
            return ('bool', (x[1] == y[1]) == (op == 'eq'))
        return (op, x, y)
    if op in ('and', 'or'):
        x, y = a
        if x[0] == 'bool':
            return (y if x[1] else FALSE) if op == 'and' else (TRUE if x[1] else y)
        if y[0] == 'bool':
            return (x if y[1] else FALSE) if op == 'and' else (TRUE if y[1] else x)
        return (op, x, y)
    if op == 'gamma':
        c, x, y = a
        if c[0] == 'bool':
            return x if c[1] else y
        if c[0] == 'num':                      # a two-valued discriminant used as the condition (0 = the '0' arm)
            return x if c[1] != 0 else y
        if x == y:
            return x
        return ('gamma', c, x, y)
    return (op,) + tuple(a)


def children(t):
    """sub-terms of t (not descending into paths of 'pre'/'ref' except idx terms)"""
    op = t[0]
    if op in ('num', 'bool', 'unit', 'str', 'sym', 'fresh', 'loopvar', 'iterpos', 'none', 'fnitem', 'bound', 'undef', 'proj_undef'):
        return ()
    if op in ('pre',):
        return tuple(c[1] for c in t[1] if c[0] in ('idx',) ) + tuple(c[1] for c in t[1][:1] if c[0] == 'ptr')
    if op == 'ref':
        return tuple(c[1] for c in t[1] if c[0] in ('idx',)) + tuple(c[1] for c in t[1][:1] if c[0] == 'ptr')
    if op == 'agg':
        return tuple(v for _, v in t[2])
    if op == 'closure':
        return tuple(v for _, v in t[2])
    if op == 'Gamma':
        return (t[1],) + tuple(v for _, v in t[2])
    if op == 'uf':
        return tuple(x for x in t[2:] if isinstance(x, tuple))
    if op in ('variant',):
        return tuple(x for x in t[2:] if isinstance(x, tuple))
    if op == 'at':
        return (t[2],)
    if op == 'upd':
        return (t[1], t[3]) + tuple(c[1] for c in t[2] if c[0] == 'idx')
    if op == 'proj':
        return (t[1],) + ((t[2][1],) if t[2][0] == 'idx' else ())
    if op == 'iter':
        return tuple(x for x in t[2:] if isinstance(x, tuple) and x and isinstance(x[0], str))
    if op == 'seq':
        out = [t[2]]
        for src in t[1]:
            for y in src:
                if _is_path(y):
                    out.extend(c[1] for c in y if c[0] in ('idx', 'ptr'))
                elif isinstance(y, tuple) and y and isinstance(y[0], str):
                    out.append(y)
        return tuple(out)
    if op == 'cf':
        return (t[2],)
    if op == 'powi':
        return (t[1],)
    return tuple(x for x in t[1:] if isinstance(x, tuple) and x and isinstance(x[0], str))


def walk(t):
    """pre-order generator over all sub-terms"""
    stack = [t]
    while stack:
        x = stack.pop()
        yield x
        try:
            stack.extend(children(x))
        except (IndexError, TypeError):
            pass


def contains(t, pred):
    for x in walk(t):
        if pred(x):
            return True
    return False


def has_havoc(t):
    return contains(t, lambda x: x[0] in ('fresh', 'loopvar'))


def map_term(t, f, memo=None):
    """bottom-up rebuild: f is applied to each node after its children were rebuilt. Uses mk for arithmetic.
    Shared sub-terms (same object) are rebuilt once."""
    if memo is None:
        memo = {}
    key = id(t)
    hit = memo.get(key)
    if hit is not None and hit[0] is t:
        return hit[1]
    r = _map_term(t, f, memo)
    memo[key] = (t, r)
    return r


def _map_term(t, f, memo):
    op = t[0]
    M = lambda x: map_term(x, f, memo)
    if op in ('num', 'bool', 'unit', 'str', 'sym', 'fresh', 'loopvar', 'iterpos', 'none', 'fnitem', 'bound', 'undef', 'proj_undef'):
        return f(t)
    if op in ('pre', 'ref'):
        p = map_path(t[1], f, memo)
        return f((op, p) + t[2:])
    if op == 'agg':
        return f(('agg', t[1], tuple((k, M(v)) for k, v in t[2])))
    if op == 'closure':
        return f(('closure', t[1], tuple((k, M(v)) for k, v in t[2])))
    if op == 'Gamma':
        return f(('Gamma', M(t[1]), tuple((k, M(v)) for k, v in t[2])))
    if op == 'uf':
        return f(('uf', t[1]) + tuple(M(x) if isinstance(x, tuple) else x for x in t[2:]))
    if op == 'variant':
        return f(('variant', t[1]) + tuple(M(x) for x in t[2:]))
    if op == 'at':
        return f(('at', t[1], M(t[2])))
    if op == 'upd':
        return f(('upd', M(t[1]), map_path(t[2], f, memo), M(t[3])))
    if op == 'proj':
        c = t[2]
        if c[0] == 'idx':
            c = ('idx', M(c[1]))
        return f(('proj', M(t[1]), c))
    if op == 'cf':
        return f(('cf', t[1], M(t[2])))
    if op == 'powi':
        return f(('powi', M(t[1]), t[2]))
    if op == 'seq':
        return f(('seq', tuple(tuple(map_path(y, f, memo) if _is_path(y) else (M(y) if _is_term(y) else y) for y in src) for src in t[1]), M(t[2])) + t[3:])
    if op == 'iter':
        return f(('iter', t[1]) + tuple(map_path(x, f, memo) if _is_path(x) else (M(x) if _is_term(x) else x) for x in t[2:]))
    args = tuple(M(x) if _is_term(x) else x for x in t[1:])
    if op in ARITH2 or op in CMP or op in ('neg', 'abs', 'not', 'and', 'or', 'gamma'):
        return f(mk(op, *args))
    return f((op,) + args)


def _is_term(x):
    return isinstance(x, tuple) and len(x) > 0 and isinstance(x[0], str)


def _is_path(x):
    return isinstance(x, tuple) and x and isinstance(x[0], tuple) and x[0] and x[0][0] in ('obj', 'val', 'local', 'ptr', 'static')


def map_path(p, f, memo=None):
    out = []
    for c in p:
        if c[0] == 'idx':
            out.append(('idx', map_term(c[1], f, memo)))
        elif c[0] == 'ptr':
            out.append(('ptr', map_term(c[1], f, memo)))
        else:
            out.append(c)
    return tuple(out)


# ------------------------------------------------------------------ printing
_INFIX = {'add': ' + ', 'sub': ' - ', 'mul': '*', 'div': '/', 'rem': ' % ', 'lt': ' < ', 'le': ' <= ', 'gt': ' > ',
          'ge': ' >= ', 'eq': ' == ', 'ne': ' != ', 'and': ' && ', 'or': ' || '}


def show_path(p):
    out = []
    for c in p:
        k = c[0]
        if k == 'obj':
            out.append('arg%d' % c[1])
        elif k == 'val':
            out.append('arg%d' % c[1])
        elif k == 'local':
            out.append('_%d' % c[1])
        elif k == 'ptr':
            out.append('*(' + show(c[1]) + ')')
        elif k == 'static':
            out.append(c[1])
        elif k == 'f':
            out.append('.' + str(c[1]))
        elif k == 'as':
            out.append('@' + c[1])
        elif k == 'idx':
            out.append('[' + show(c[1]) + ']')
        else:
            out.append('.<%s>' % (k,))
    return ''.join(out)


SHOW_BUDGET = 6000
_budget = [None]


def show(t, names=None):
    """printer with an output budget: terms are DAGs with heavy sharing, a full print can be exponential"""
    top = _budget[0] is None
    if top:
        _budget[0] = SHOW_BUDGET
    try:
        if _budget[0] <= 0:
            return '…'
        r = _show(t, names)
        _budget[0] -= len(r) if not isinstance(t, tuple) or not t or t[0] in ('num', 'bool', 'unit', 'str', 'pre', 'sym', 'fresh', 'loopvar', 'iterpos', 'bound', 'ref') else 8
        return r
    finally:
        if top:
            _budget[0] = None


def _show(t, names=None):
    if not isinstance(t, tuple) or not t:
        return str(t)
    op = t[0]
    if op == 'num':
        v = t[1]
        if v.denominator == 1:
            return str(v.numerator)
        f = float(v)
        return repr(f)
    if op == 'bool': return 'true' if t[1] else 'false'
    if op == 'unit': return '()'
    if op == 'str': return repr(t[1])
    if op == 'pre':
        s = show_path(t[1])
        if names:
            root = t[1][0]
            if root[0] in ('obj', 'val') and root[1] in names:
                s = names[root[1]] + show_path(t[1][1:])
        return s
    if op == 'sym': return t[1]
    if op == 'fresh': return '?%s' % (t[1],)
    if op == 'loopvar': return 'L[%s:%s]' % (t[1], show_path(t[2]) if _is_path(t[2]) else t[2])
    if op == 'iterpos': return 'pos(%s)' % (t[1],)
    if op == 'bound': return 'k%s' % (t[1],)
    if op in _INFIX:
        return '(' + _INFIX[op].join(show(a, names) for a in t[1:]) + ')'
    if op == 'neg': return '-' + show(t[1], names)
    if op == 'not': return '!' + show(t[1], names)
    if op == 'gamma': return 'γ(%s ? %s : %s)' % (show(t[1], names), show(t[2], names), show(t[3], names))
    if op == 'Gamma': return 'Γ(%s){%s}' % (show(t[1], names), ', '.join('%s: %s' % (k, show(v, names)) for k, v in t[2]))
    if op == 'ref': return '&%s%s' % ('mut ' if len(t) > 2 and t[2] == 'mut' else '', show_path(t[1]))
    if op == 'agg': return '%s{%s}' % (t[1], ', '.join('%s: %s' % (k, show(v, names)) for k, v in t[2]))
    if op == 'uf': return '%s(%s)' % (t[1], ', '.join(show(a, names) for a in t[2:]))
    if op == 'variant': return '%s(%s)' % (t[1], ', '.join(show(a, names) for a in t[2:]))
    if op == 'closure': return 'closure[%s]' % (t[1],)
    if op == 'at': return '%s@%s' % (show(t[2], names), t[1])
    if op == 'upd': return 'upd(%s, %s := %s)' % (show(t[1], names), show_path(t[2]), show(t[3], names))
    if op == 'proj': return '%s%s' % (show(t[1], names), show_path((t[2],)))
    if op == 'iter': return 'iter.%s(%s)' % (t[1], ', '.join(show_path(a) if _is_path(a) else show(a, names) for a in t[2:]))
    if op == 'powi': return '%s^%s' % (show(t[1], names), t[2])
    if op == 'pathset':
        return 'paths@%s{%s}' % (t[1], ' | '.join(' & '.join(('!' if o == '0' else '') + show(c, names) + ('' if o in ('0', '1', 'otherwise') else '=' + str(o)) for c, o in alt) for alt in t[2]))
    if op == 'seq':
        srcs = []
        for src in t[1]:
            srcs.append(src[0] + '(' + ', '.join(show_path(y) if _is_path(y) else (show(y, names) if _is_term(y) else str(y)) for y in src[1:]) + ')')
        return 'seq[%s | k0 -> %s]' % ('; '.join(srcs), show(t[2], names))
    return op + '(' + ', '.join(show(a, names) if isinstance(a, tuple) else str(a) for a in t[1:]) + ')'


def path_from_str(s, root=('obj', 1)):
    """'state.pwr_fuel' -> (root, ('f','state'), ('f','pwr_fuel'));  'loco_vec[k]' not supported here"""
    comps = [root]
    for part in s.split('.'):
        if not part:
            continue
        if part.startswith('@'):
            comps.append(('as', part[1:]))
        else:
            comps.append(('f', part))
    return tuple(comps)


def beta_elem(coll, idx):
    """element `idx` of a collected pure map: elem(collect(seq[S | k -> item]), idx) = item[k := idx].
    Only for sequences over slices / ranges / zips (same length and order as the source); filters etc. are left alone."""
    if coll[0] == 'gamma':
        a, b = beta_elem(coll[2], idx), beta_elem(coll[3], idx)
        if a is not None and b is not None:
            return mk('gamma', coll[1], a, b)
        return None
    if not (coll[0] == 'uf' and coll[1] == 'iter.collect' and len(coll) >= 3 and coll[2][0] == 'seq'):
        return None
    seq = coll[2]
    if any(src[0] not in ('slice', 'range', 'owned') for src in seq[1]):
        return None
    lvl = seq[3] if len(seq) > 3 else None
    if lvl is None:
        return None

    def f(x):
        if x == ('bound', lvl):
            return idx
        return x
    return map_term(seq[2], f)
