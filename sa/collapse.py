"""Pre-pass over the raw MIR dump: collapse uom Quantity<..> type strings into short dimension tags,
drop the `// + ...` / `// mir::ConstOperand` annotation lines, and index the bodies by byte offset.
Writes <out>.mirc and <out>.idx.json.  Pure text processing, no semantics."""
import re, json, sys

P = r'(?:uom::typenum::)?'
UINT = r'(?:%sUInt<)+%sUTerm(?:, %sB[01]>)+' % (P, P, P)
TN = r'(?:%sZ0|%s[PN]Int<%s>)' % (P, P, UINT)
KIND = r"(?:dyn [\w:]*Kind|\(dyn [\w:]*Kind \+ 'static\))"
DIM0 = r'dyn (?:uom::si::)?Dimension<I = (%s), J = (%s), Kind = %s, L = (%s), M = (%s), N = (%s), T = (%s), Th = (%s)>' % (
    TN, TN, KIND, TN, TN, TN, TN, TN)
UNITS0 = r'dyn (?:uom::si::)?Units<f64, [^<>]*>'
def _opt_static(p):
    return r"(?:%s|\(%s \+ 'static\))" % (p, p)
QRE = re.compile(r'(?:uom::si::)?Quantity(?:::)?<%s, %s, f64>' % (_opt_static(DIM0), _opt_static(UNITS0)))
# generic argument pairs `<dyn Dimension<..>, dyn Units<..>>` (e.g. almost_eq_uom::<D, U>)
DRE = re.compile(r'%s, %s' % (_opt_static(DIM0), _opt_static(UNITS0)))

DONLY = re.compile(_opt_static(DIM0))
UONLY = re.compile(_opt_static(UNITS0))

DIM_NAMES = {
    # (L, M, T)
    (0, 0, 0): 'Ratio', (2, 1, -3): 'Power', (2, 1, -2): 'Energy', (0, 0, 1): 'Time', (1, 0, 0): 'Length',
    (0, 1, 0): 'Mass', (1, 0, -1): 'Velocity', (1, 1, -2): 'Force', (1, 0, -2): 'Acceleration',
    (2, 1, -4): 'PowerRate', (2, 0, 0): 'Area', (-1, 0, 1): 'InvVelocity', (-3, 1, 0): 'MassDensity',
    (2, 0, -3): 'SpecificPower', (2, 0, -2): 'SpecificEnergy', (-1, 1, -2): 'Pressure', (3, 0, 0): 'Volume',
    (-1, 0, 0): 'Curvature', (0, 0, -1): 'Frequency', (-2, 0, 0): 'InvArea', (1, 1, -1): 'Momentum',
    (1, 1, -3): 'ForceRate', (0, 1, -1): 'MassRate', (-1, 1, 0): 'LinearMassDensity', (-1, 1, 1): 'Q_Lm1M1T1',
    (3, 1, -2): 'Q_L3M1Tm2', (3, 0, -1): 'VolumeRate', (0, -1, 1): 'Q_Mm1T1',
}

def _tn(x):
    if x.endswith('Z0'):
        return 0
    sign = 1 if 'PInt' in x else -1
    v = 0
    for b in re.findall(r'B([01])', x):
        v = v * 2 + int(b)
    return sign * v

def _rep(m):
    g = [x for x in m.groups() if x is not None]
    # two alternations (plain / parenthesised) -> exactly 7 non-None groups
    i, j, l, mm, n, t, th = (_tn(x) for x in g[:7])
    km = re.search(r'(\w+)Kind', m.group(0))
    if km and km.group(1):
        return km.group(1) + 'Q'   # AngleKind etc.: distinct tag, same f64 arithmetic
    if i or j or n or th:
        return 'Q_I%d_J%d_L%d_M%d_N%d_T%d_Th%d' % (i, j, l, mm, n, t, th)
    return DIM_NAMES.get((l, mm, t), 'Q_L%d_M%d_T%d' % (l, mm, t)).replace('-', 'm')

def _rep_d(m):
    return 'Dim' + _rep(m)

ANNOT = re.compile(r'^\s+// (?:\+ |mir::).*\n', re.M)
HEAD = re.compile(r'^(fn |const |static |promoted\[)', re.M)

def collapse(raw_path, out_base):
    s = open(raw_path, errors='replace').read()
    s = ANNOT.sub('', s)
    s = QRE.sub(_rep, s)
    s = DRE.sub(_rep_d, s)
    s = DONLY.sub(_rep_d, s)
    s = UONLY.sub('SIUnits', s)
    leftovers = len(re.findall(r'Dimension<', s))
    bodies = []
    pos = 0
    n = len(s)
    # bodies start at column 0 with fn/const/static/promoted[ and end at the next line that is exactly "}"
    for m in HEAD.finditer(s):
        st = m.start()
        if st < pos:
            continue
        eol = s.index('\n', st)
        head = s[st:eol]
        if not head.rstrip().endswith('{'):
            continue
        e = s.find('\n}\n', eol - 1)
        if e < 0:
            e = n - 2
        end = e + 3
        kind = m.group(1).strip().rstrip('[')
        bodies.append({'kind': kind, 'head': head.rstrip()[:-1].rstrip(), 'start': st, 'end': end})
        pos = end
    inline = {}
    for m in re.finditer(r'^(?:const|static(?: mut)?) ([^\n]*?): ([^\n=]*?) = const ([^\n]*);$', s, re.M):
        inline[m.group(1)] = m.group(3)
    with open(out_base + '.mirc', 'w') as f:
        f.write(s)
    # offsets are in characters of the decoded text; store the text as utf-8 and re-read decoded, so keep char offsets
    json.dump({'bodies': bodies, 'leftover_dimension_strings': leftovers, 'chars': n, 'inline_consts': inline},
              open(out_base + '.idx.json', 'w'))
    return len(bodies), leftovers

if __name__ == '__main__':
    print(collapse(sys.argv[1], sys.argv[2]))
