"""MIR-text parser for the collapsed dump (`*.mirc`, see collapse.py).

The dump is rustc's own `-Zunpretty=mir` output of the type-checked, borrow-checked crate at
mir-opt-level 0.  This module turns one body's text into a small object model:

  Body{head, kind, path, params, ret, locals, debug, blocks, spans}
  Block{stmts:[Stmt], term:Term, cleanup}
  Stmt  = ('assign', Place, Rvalue, span) | ('setdiscr', Place, variant_idx, span)
  Term  = goto / switch / call / assert / drop / return / unreachable / resume
  Place = (local:int, proj:tuple)   proj items: ('deref',) ('field', idx, ty) ('downcast', name, idx?)
                                     ('index', local) ('cindex', 'i of n') ('subslice', txt)
  Operand = ('copy'|'move', Place) | ('const', text)

Nothing here interprets the program; unknown shapes are kept as ('unknown', text) so that a rule
touching them can fail closed.
"""
import re
from collections import namedtuple

Place = namedtuple('Place', 'local proj')
Stmt = namedtuple('Stmt', 'kind lhs rv span raw')


class Term:
    __slots__ = ('kind', 'raw', 'callee', 'args', 'dest', 'targets', 'discr', 'span', 'cond', 'expected', 'msg')

    def __init__(self, kind, raw='', callee='', args=None, dest=None, targets=None, discr=None, span='',
                 cond=None, expected=None, msg=''):
        self.kind = kind; self.raw = raw; self.callee = callee; self.args = args or []
        self.dest = dest; self.targets = targets or {}; self.discr = discr; self.span = span
        self.cond = cond; self.expected = expected; self.msg = msg

    def __repr__(self):
        return 'Term(%s %s %s)' % (self.kind, self.callee[:60], self.targets)


class Block:
    __slots__ = ('name', 'stmts', 'term', 'cleanup')

    def __init__(self, name, cleanup):
        self.name = name; self.stmts = []; self.term = None; self.cleanup = cleanup


class Body:
    __slots__ = ('head', 'kind', 'path', 'params', 'ret', 'locals', 'debug', 'blocks', 'errors', 'order',
                 'fid', 'file', 'line', 'impl_pos', 'names', 'closure_of', 'nparams', 'local_spans', 'test')

    def __init__(self):
        self.errors = []; self.locals = {}; self.debug = {}; self.blocks = {}; self.order = []
        self.params = []; self.ret = None; self.fid = None; self.file = None; self.line = None
        self.impl_pos = None; self.names = []; self.closure_of = None; self.nparams = 0
        self.local_spans = {}; self.test = False


# ---------------------------------------------------------------- low-level helpers
def find_matching(s, i, open_c='<', close_c='>'):
    """s[i] == open_c; return index just after the matching close (handles strings for () only coarsely)."""
    d = 0
    n = len(s)
    k = i
    instr = False
    while k < n:
        c = s[k]
        if instr:
            if c == '\\':
                k += 1
            elif c == '"':
                instr = False
        elif c == '"':
            instr = True
        elif c == open_c:
            d += 1
        elif c == close_c and not (close_c == '>' and k > 0 and s[k - 1] in '-='):
            d -= 1
            if d == 0:
                return k + 1
        k += 1
    raise ValueError('unbalanced %s at %d: %s' % (open_c, i, s[i:i + 80]))


def split_top(s, sep=','):
    """split on `sep` at bracket depth 0 (all of ([{< count; '->' and '=>' are not closers)."""
    out = []
    d = 0
    cur = []
    i = 0
    n = len(s)
    instr = False
    while i < n:
        c = s[i]
        if instr:
            cur.append(c)
            if c == '\\' and i + 1 < n:
                cur.append(s[i + 1]); i += 1
            elif c == '"':
                instr = False
        elif c == '"':
            instr = True; cur.append(c)
        elif c == "'" and i + 2 < n and s[i + 2] == "'":      # char literal 'x'
            cur.append(s[i:i + 3]); i += 2
        elif c in '([{<':
            d += 1; cur.append(c)
        elif c in ')]}':
            d -= 1; cur.append(c)
        elif c == '>':
            if i > 0 and s[i - 1] in '-=':
                cur.append(c)
            else:
                d -= 1; cur.append(c)
        elif c == sep and d == 0:
            out.append(''.join(cur)); cur = []
        else:
            cur.append(c)
        i += 1
    if ''.join(cur).strip():
        out.append(''.join(cur))
    return [x.strip() for x in out]


def strip_comment(line):
    """split a MIR line into (code, trailing `//` comment)."""
    i = 0
    n = len(line)
    instr = False
    while i < n:
        c = line[i]
        if instr:
            if c == '\\':
                i += 1
            elif c == '"':
                instr = False
        elif c == '"':
            instr = True
        elif c == "'" and i + 2 < n and line[i + 2] == "'":
            i += 2
        elif c == '/' and line.startswith('//', i):
            return line[:i].rstrip(), line[i + 2:].strip()
        i += 1
    return line.rstrip(), ''


_SPAN_RE = re.compile(r'(?:in )?scope \d+ at (.*)$')


def span_of(comment):
    m = _SPAN_RE.search(comment)
    return m.group(1) if m else comment


def span_file_line(span):
    """'altrios-core/src/x.rs:12:5: 12:20' -> ('altrios-core/src/x.rs', 12, 5)"""
    m = re.match(r'(.*?):(\d+):(\d+)(?:: (\d+):(\d+))?', span or '')
    if not m:
        return (None, None, None)
    return (m.group(1), int(m.group(2)), int(m.group(3)))


# ---------------------------------------------------------------- places / operands
_LOCAL_RE = re.compile(r'_(\d+)$')


def parse_place(s):
    s = s.strip()
    m = _LOCAL_RE.match(s)
    if m and m.end() == len(s):
        return Place(int(m.group(1)), ())
    if s.endswith(']'):
        d = 0
        k = len(s) - 1
        while k >= 0:
            if s[k] == ']':
                d += 1
            elif s[k] == '[':
                d -= 1
                if d == 0:
                    break
            k -= 1
        base = parse_place(s[:k])
        idx = s[k + 1:-1].strip()
        mi = _LOCAL_RE.match(idx)
        if mi and mi.end() == len(idx):
            return Place(base.local, base.proj + (('index', int(mi.group(1))),))
        if ':' in idx and ' of ' not in idx:
            return Place(base.local, base.proj + (('subslice', idx),))
        return Place(base.local, base.proj + (('cindex', idx),))
    if s.startswith('('):
        if find_matching(s, 0, '(', ')') != len(s):
            raise ValueError('place? ' + s)
        inner = s[1:-1].strip()
        if inner.startswith('*'):
            b = parse_place(inner[1:])
            return Place(b.local, b.proj + (('deref',),))
        if inner.startswith('('):
            e = find_matching(inner, 0, '(', ')')
        else:
            mm = re.match(r'_\d+(?:\[[^\]]*\])*', inner)
            if not mm:
                raise ValueError('place? ' + s)
            e = mm.end()
        base = parse_place(inner[:e])
        rest = inner[e:]
        # index directly after a parenthesised base:  ((*_1).3: Vec<..>)[..] is handled by the endswith(']') arm
        while rest.startswith('['):
            e2 = find_matching(rest, 0, '[', ']')
            base = parse_place('%s' % (inner[:e] + rest[:e2]))
            inner = inner[:e] + rest[:e2] + rest[e2:]
            e = e + e2
            rest = inner[e:]
        if rest.startswith(' as '):
            return Place(base.local, base.proj + (('downcast', rest[4:].strip()),))
        m = re.match(r'\.(\d+): (.*)$', rest, re.S)
        if m:
            return Place(base.local, base.proj + (('field', int(m.group(1)), m.group(2).strip()),))
        if not rest:
            return base
        raise ValueError('place? ' + s)
    raise ValueError('place?? ' + s)


def parse_operand(s):
    s = s.strip()
    if s.startswith('copy '):
        return ('copy', parse_place(s[5:]))
    if s.startswith('move '):
        return ('move', parse_place(s[5:]))
    if s.startswith('const '):
        return ('const', s[6:].strip())
    if re.match(r'[<\w]', s) and not s.startswith('_'):
        return ('fnitem', s)            # a function item / tuple-variant constructor used as a value
    raise ValueError('operand? ' + s)


# ---------------------------------------------------------------- rvalues
BINOPS = {'Add', 'Sub', 'Mul', 'Div', 'Rem', 'Eq', 'Ne', 'Lt', 'Le', 'Gt', 'Ge', 'BitAnd', 'BitOr', 'BitXor',
          'Shl', 'Shr', 'Offset', 'Cmp', 'AddWithOverflow', 'SubWithOverflow', 'MulWithOverflow',
          'AddUnchecked', 'SubUnchecked', 'MulUnchecked', 'ShlUnchecked', 'ShrUnchecked'}
UNOPS = {'Not', 'Neg', 'PtrMetadata'}
NULLOPS = {'SizeOf', 'AlignOf', 'OffsetOf', 'UbChecks', 'ContractChecks'}


def parse_rvalue(s):
    s = s.strip()
    if s.startswith('&'):
        m = re.match(r'&(raw (?:const|mut) (?:\(fake\) )?|mut |fake [a-z]+ |\(fake [a-z]*\) |\(fake\) |fake )?(.*)$', s, re.S)
        return ('ref', (m.group(1) or '').strip(), parse_place(m.group(2)))
    m = re.match(r'(\w+)\((.*)\)$', s, re.S)
    if m and m.group(1) in BINOPS:
        a = split_top(m.group(2))
        return ('binop', m.group(1), parse_operand(a[0]), parse_operand(a[1]))
    if m and m.group(1) in UNOPS:
        return ('unop', m.group(1), parse_operand(m.group(2)))
    if m and m.group(1) in NULLOPS:
        return ('nullop', m.group(1), m.group(2))
    if s.startswith('discriminant('):
        return ('discr', parse_place(s[len('discriminant('):-1]))
    if s.startswith('Len('):
        return ('len', parse_place(s[4:-1]))
    if s.startswith('CopyForDeref('):
        return ('use', ('copy', parse_place(s[len('CopyForDeref('):-1])))
    if s.startswith('ShallowInitBox('):
        a = split_top(s[len('ShallowInitBox('):-1])
        return ('use', parse_operand(a[0]))
    if s.startswith(('copy ', 'move ', 'const ')):
        if not s.startswith('const "'):
            m = re.match(r'(.*) as (.*) \((\w+(?:\(.*\))?)\)$', s, re.S)
            if m:
                try:
                    return ('cast', m.group(3), parse_operand(m.group(1)), m.group(2))
                except ValueError:
                    pass
        return ('use', parse_operand(s))
    if s.startswith('[') and s.endswith(']'):
        inner = s[1:-1]
        parts = split_top(inner, ';')
        if len(parts) == 2:
            return ('repeat', parse_operand(parts[0]), parts[1])
        return ('array', [parse_operand(x) for x in split_top(inner)])
    if s.startswith('(') and s.endswith(')') and find_matching(s, 0, '(', ')') == len(s):
        inner = s[1:-1].strip()
        if inner.endswith(','):
            inner = inner[:-1]
        return ('tuple', [parse_operand(x) for x in split_top(inner)] if inner else [])
    m = re.match(r'(\{(?:closure|coroutine)@[^}]*\})(?: \{ (.*) \})?$', s, re.S)
    if m:
        caps = {}
        if m.group(2):
            for part in split_top(m.group(2)):
                k, v = part.split(': ', 1)
                caps[k.strip()] = parse_operand(v)
        return ('closure', m.group(1), caps)
    m = re.match(r'(.*?) \{ (.*) \}$', s, re.S)
    if m and not s.startswith('{'):
        fields = {}
        for part in split_top(m.group(2)):
            k, v = part.split(': ', 1)
            fields[k.strip()] = parse_operand(v)
        return ('struct', m.group(1).strip(), fields)
    if s.endswith(')'):
        d = 0
        j = len(s) - 1
        while j >= 0:
            if s[j] == ')':
                d += 1
            elif s[j] == '(':
                d -= 1
                if d == 0:
                    break
            j -= 1
        head, inner = s[:j].strip(), s[j + 1:-1]
        if head:
            return ('variant', head, [parse_operand(x) for x in split_top(inner)] if inner.strip() else [])
    if re.match(r'[\w:<>, \[\]&\'();{}@./\-#]+$', s):
        return ('variant', s, [])      # unit struct / unit variant / fn item
    return ('unknown', s)


def parse_targets(s):
    s = s.strip()
    t = {}
    if s.startswith('['):
        for part in split_top(s[1:-1]):
            if ': ' in part:
                k, v = part.split(': ', 1)
                t[k.strip()] = v.strip()
            else:
                k, _, v = part.partition(' ')
                t[k] = v
    elif s.startswith('bb'):
        t['goto'] = s
    else:
        k, _, v = s.partition(' ')
        t[k] = v
    return t


_SKIP = ('StorageLive', 'StorageDead', 'FakeRead', 'PlaceMention', 'AscribeUserType', 'Retag', 'Coverage', 'nop',
         'ConstEvalCounter', 'BackwardIncompatibleDropHint', 'Deinit(', 'assume(', 'copy_nonoverlapping')
_LET_RE = re.compile(r'let (mut )?_(\d+): (.*);$')
_DBG_RE = re.compile(r'debug (.+?) => (.*);$')
_BB_RE = re.compile(r'(bb\d+)( \(cleanup\))?: \{$')
_ASSIGN_LHS = re.compile(r'((?:_\d+|\(.*?\))(?:\[[^\]]*\])*) = (.*)$', re.S)


def _parse_assign_lhs(st):
    """find the ' = ' that separates place from rvalue (types inside a place may contain ' = ')."""
    pos = -1
    while True:
        pos = st.find(' = ', pos + 1)
        if pos < 0:
            return None, None
        try:
            return parse_place(st[:pos]), st[pos + 3:]
        except ValueError:
            continue


def parse_head(head):
    """'fn path(params) -> ret' | 'const path: ty =' | 'static path: ty ='  -> (kind, path, params, ret)"""
    if head.startswith('fn '):
        rest = head[3:]
        # the parameter list is the last top-level '(' group that is followed by ' -> '
        k = rest.rfind(') -> ')
        if k < 0:
            raise ValueError('head? ' + head[:200])
        d = 0
        j = k
        while j >= 0:
            c = rest[j]
            if c == ')':
                d += 1
            elif c == '(':
                d -= 1
                if d == 0:
                    break
            j -= 1
        path = rest[:j]
        params = []
        for p in split_top(rest[j + 1:k]):
            m = re.match(r'_(\d+): (.*)$', p, re.S)
            if m:
                params.append((int(m.group(1)), m.group(2).strip()))
        ret = rest[k + 5:].strip()
        return 'fn', path, params, ret
    m = re.match(r'(const|static(?: mut)?) (.*) =$', head, re.S)
    if m:
        rest = m.group(2)
        d = 0
        i = 0
        while i < len(rest):
            ch = rest[i]
            if ch == '<':
                d += 1
            elif ch == '>' and not (i > 0 and rest[i - 1] in '-='):
                d -= 1
            elif d == 0 and rest.startswith(': ', i):
                return m.group(1).split()[0], rest[:i], [], rest[i + 2:]
            i += 1
        raise ValueError('head? ' + head[:200])
    m = re.match(r'(promoted\[\d+\]) in (.*?): (.*?) =$', head, re.S)
    if m:
        return 'promoted', m.group(2) + '::' + m.group(1), [], m.group(3)
    raise ValueError('head? ' + head[:200])


def parse_body(text):
    lines = text.split('\n')
    b = Body()
    head = lines[0].rstrip()
    if head.endswith('{'):
        head = head[:-1].rstrip()
    b.head = head
    try:
        b.kind, b.path, b.params, b.ret = parse_head(head)
    except ValueError as e:
        b.kind, b.path = 'unknown', head[:120]
        b.errors.append(str(e))
    b.nparams = len(b.params)
    cur = None
    for raw in lines[1:]:
        line, comment = strip_comment(raw)
        st = line.strip()
        if not st:
            continue
        if cur is None:
            m = _LET_RE.match(st)
            if m:
                n = int(m.group(2))
                b.locals[n] = m.group(3)
                b.local_spans[n] = span_of(comment)
                continue
            m = _DBG_RE.match(st)
            if m:
                # a later `let` that shadows a parameter must not take the parameter's name away from it
                prev = b.debug.get(m.group(1))
                pm = re.fullmatch(r'_(\d+)', prev) if prev else None
                if pm and 1 <= int(pm.group(1)) <= b.nparams:
                    k_ = 2
                    while '%s#%d' % (m.group(1), k_) in b.debug:
                        k_ += 1
                    b.debug['%s#%d' % (m.group(1), k_)] = m.group(2)
                else:
                    b.debug[m.group(1)] = m.group(2)
                continue
            m = _BB_RE.match(st)
            if m:
                cur = Block(m.group(1), bool(m.group(2)))
                b.blocks[cur.name] = cur
                b.order.append(cur.name)
                continue
            continue
        if st == '}':
            cur = None
            continue
        if st.startswith(_SKIP):
            continue
        span = span_of(comment)
        if not st.endswith(';'):
            b.errors.append('no-semicolon: ' + st[:120]); continue
        st = st[:-1]
        try:
            t = _parse_terminator(st, span)
            if t is not None:
                cur.term = t
                continue
            m = re.match(r'discriminant\((.*)\) = (\d+)$', st)
            if m:
                cur.stmts.append(Stmt('setdiscr', parse_place(m.group(1)), int(m.group(2)), span, st))
                continue
            lhs, rhs = _parse_assign_lhs(st)
            if lhs is None:
                raise ValueError('stmt? ' + st[:160])
            cur.stmts.append(Stmt('assign', lhs, parse_rvalue(rhs), span, st))
        except (ValueError, AssertionError, AttributeError, IndexError) as e:
            b.errors.append('%s: %s' % (type(e).__name__, str(e)[:200]))
            cur.stmts.append(Stmt('unknown', None, ('unknown', st), span, st))
    for name, blk in b.blocks.items():
        if blk.term is None:
            b.errors.append('block without terminator: ' + name)
            blk.term = Term('unreachable', 'missing')
    return b


def _parse_terminator(st, span):
    if st.startswith('goto -> '):
        return Term('goto', st, targets={'goto': st[8:].strip()}, span=span)
    if st == 'return':
        return Term('return', st, span=span)
    if st == 'unreachable':
        return Term('unreachable', st, span=span)
    if st.startswith(('resume', 'terminate', 'abort')):
        return Term('resume', st, span=span)
    if st.startswith('switchInt('):
        e = find_matching(st, len('switchInt'), '(', ')')
        op = parse_operand(st[len('switchInt('):e - 1])
        return Term('switch', st, discr=op, targets=parse_targets(st[e:].split('->', 1)[1]), span=span)
    if st.startswith('drop('):
        e = find_matching(st, 4, '(', ')')
        return Term('drop', st, args=[parse_place(st[5:e - 1])], targets=parse_targets(st[e:].split('->', 1)[1]),
                    span=span)
    if st.startswith('assert('):
        e = find_matching(st, 6, '(', ')')
        a = split_top(st[7:e - 1])
        neg = a[0].startswith('!')
        return Term('assert', st, cond=parse_operand(a[0].lstrip('!')), expected=not neg, msg=', '.join(a[1:]),
                    targets=parse_targets(st[e:].split('->', 1)[1]), span=span)
    if st.startswith(('falseEdge', 'falseUnwind', 'yield', 'tailcall', 'asm!', 'InlineAsm')):
        if st.startswith('falseEdge') or st.startswith('falseUnwind'):
            return Term('goto', st, targets=parse_targets(st.split('->', 1)[1]), span=span)
        return Term('unknown', st, span=span)
    if ' -> ' in st and re.search(r'\) -> (\[|unwind|bb)', st):
        k = st.rindex(') -> ')
        left = st[:k + 1]
        tg = st[k + 5:]
        dest = None
        # destination = text before the first ' = ' that parses as a place
        pos = -1
        while True:
            pos = left.find(' = ', pos + 1)
            if pos < 0:
                break
            try:
                dest = parse_place(left[:pos])
                left = left[pos + 3:]
                break
            except ValueError:
                continue
        if not left.endswith(')'):
            raise ValueError('call? ' + st[:200])
        d = 0
        j = len(left) - 1
        instr = False
        while j >= 0:
            c = left[j]
            if c == '"' and (j == 0 or left[j - 1] != '\\'):
                instr = not instr
            elif not instr:
                if c == ')':
                    d += 1
                elif c == '(':
                    d -= 1
                    if d == 0:
                        break
            j -= 1
        callee = left[:j].strip()
        args = left[j + 1:-1]
        return Term('call', st, callee=callee, args=[parse_operand(x) for x in split_top(args)] if args.strip() else [],
                    dest=dest, targets=parse_targets(tg), span=span)
    return None
