#!/bin/bash
# RUSTC_WORKSPACE_WRAPPER for the fact extractor.
#   $1 = real rustc, rest = the arguments cargo would have passed to it.
# For the crate named in $VERIF_DUMP_CRATE (default altrios_core), non-test build, rustc is run a
# second time with the project's own flags plus -Zunpretty=mir (RUSTC_BOOTSTRAP=1 makes the
# pinned stable compiler accept -Z flags), writing the type-checked MIR of every body to
# $VERIF_DUMP_OUT.  Then the normal invocation is exec'd so cargo gets its .rmeta.
rustc="$1"; shift
crate="${VERIF_DUMP_CRATE:-altrios_core}"
is_target=0; prev=""
for a in "$@"; do
  if [ "$prev" = "--crate-name" ] && [ "$a" = "$crate" ]; then is_target=1; fi
  prev="$a"
done
if [ $is_target = 1 ] && [[ " $* " != *" --test "* ]] && [ -n "$VERIF_DUMP_OUT" ]; then
  args=(); skip=0
  for a in "$@"; do
    if [ $skip = 1 ]; then skip=0; continue; fi
    case "$a" in
      --emit=*) ;;
      --emit) skip=1 ;;
      *) args+=("$a") ;;
    esac
  done
  if RUSTC_BOOTSTRAP=1 "$rustc" "${args[@]}" -Awarnings -Zunpretty=mir -Zmir-opt-level=0 \
       -Zmir-include-spans=yes -o "$VERIF_DUMP_OUT.tmp" >&2; then
    mv "$VERIF_DUMP_OUT.tmp" "$VERIF_DUMP_OUT"
    echo "WRAP: MIR dumped to $VERIF_DUMP_OUT" >&2
  else
    echo "WRAP: MIR dump FAILED" >&2
  fi
fi
exec "$rustc" "$@"
