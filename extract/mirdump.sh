#!/bin/bash
# usage: mirdump.sh <src_rust_dir> <out.mir> [default|pyo3]
# Copies <src_rust_dir> (the `rust/` workspace) to a scratch dir outside /repo and /verif,
# runs `cargo check --offline -p altrios-core` there through wrap.sh and leaves the MIR dump in <out.mir>.
set -u
here="$(cd "$(dirname "$0")" && pwd)"
src="$1"; out="$2"; cfg="${3:-default}"
ws="${VERIF_SCRATCH:-$HOME/.cache/altrios-verif}/ws-$cfg"
tgt="${VERIF_TARGET_DIR:-$here/../.cache/target}"
mkdir -p "$ws" "$tgt" "$(dirname "$out")"
rsync -a --delete --exclude target --exclude '.git' "$src"/ "$ws"/ || exit 2
feat=()
[ "$cfg" = pyo3 ] && feat=(--features pyo3)
# force the wrapper to run: cargo's freshness cache would otherwise skip rustc for altrios-core.
# The workspace's own proc-macro crate must be rebuilt from THIS tree as well: cargo decides freshness of path
# dependencies by mtime, rsync -a keeps mtimes, so after a variant with a newer proc-macro source had been built into the
# shared target directory, an older (e.g. the unchanged) source would be taken for fresh and the stale macro expanded.
rm -rf "$tgt"/debug/.fingerprint/altrios-* "$tgt"/debug/deps/libaltrios_proc_macros-* "$tgt"/debug/deps/altrios_proc_macros-* 2>/dev/null
find "$ws" -type f \( -name '*.rs' -o -name 'Cargo.toml' \) -exec touch {} + 2>/dev/null
rm -f "$out"
( cd "$ws" && CARGO_NET_OFFLINE=true CARGO_TARGET_DIR="$tgt" RUSTC_WORKSPACE_WRAPPER="$here/wrap.sh" \
    VERIF_DUMP_OUT="$out" VERIF_DUMP_CRATE=altrios_core \
    cargo check --offline -q -p altrios-core "${feat[@]}" ) > "$out.log" 2>&1
rc=$?
rm -rf "$ws"
# drop workspace members' own artefacts; keep third-party dependency metadata only
rm -rf "$tgt"/debug/.fingerprint/altrios-* "$tgt"/debug/deps/libaltrios_core-* "$tgt"/debug/deps/altrios_core-* \
       "$tgt"/debug/deps/libaltrios_proc_macros-* "$tgt"/debug/deps/altrios_proc_macros-* "$tgt"/debug/incremental 2>/dev/null
if [ $rc -ne 0 ] || [ ! -s "$out" ]; then
  echo "EXTRACTION-FAILED cfg=$cfg rc=$rc (see $out.log)" >&2
  tail -n 30 "$out.log" >&2
  exit 2
fi
exit 0
