//! astfacts: syntax-tree facts of the *unexpanded* ALTRIOS sources that the MIR dump does not carry:
//! field names/order/attributes, enum variant order, impl headers keyed by source position,
//! derive lists keyed by the position of each derive ident, attribute-macro positions, fn items with
//! their line ranges / cfg(test) context, macro invocations (name + tokens), `unsafe` tokens.
//! usage: astfacts <src-dir> [<src-dir> ...]   → JSON on stdout
use proc_macro2::{TokenStream, TokenTree};
use quote::ToTokens;
use serde_json::{json, Value};
use syn::spanned::Spanned;
use syn::visit::Visit;

struct V {
    file: String,
    modpath: Vec<String>,
    test_depth: usize,
    fn_stack: Vec<String>,
    out: Vec<Value>,
}

fn attr_strs(a: &[syn::Attribute]) -> Vec<String> {
    a.iter()
        .map(|x| x.to_token_stream().to_string())
        .filter(|s| !s.starts_with("# [doc"))
        .collect()
}
fn is_cfg_test(a: &[syn::Attribute]) -> bool {
    a.iter().any(|x| {
        let s = x.to_token_stream().to_string().replace(' ', "");
        s.starts_with("#[cfg(test") || s == "#[test]" || s.starts_with("#[cfg(all(test")
    })
}
fn pos(s: proc_macro2::Span) -> Value {
    let a = s.start();
    let b = s.end();
    json!([a.line, a.column + 1, b.line, b.column + 1])
}
/// positions of `unsafe` idents inside a raw token stream (macro arguments)
fn unsafe_in_tokens(ts: TokenStream, acc: &mut Vec<Value>) {
    for t in ts {
        match t {
            TokenTree::Ident(i) => {
                if i == "unsafe" {
                    acc.push(pos(i.span()));
                }
            }
            TokenTree::Group(g) => unsafe_in_tokens(g.stream(), acc),
            _ => {}
        }
    }
}
fn derives(attrs: &[syn::Attribute]) -> Vec<Value> {
    let mut out = vec![];
    for a in attrs {
        if a.path().is_ident("derive") {
            let _ = a.parse_nested_meta(|m| {
                let name = m.path.segments.last().map(|s| s.ident.to_string()).unwrap_or_default();
                out.push(json!({"name": name, "pos": pos(m.path.span())}));
                Ok(())
            });
        }
    }
    out
}
fn attr_macros(attrs: &[syn::Attribute]) -> Vec<Value> {
    attrs
        .iter()
        .filter(|a| !a.path().is_ident("derive") && !a.path().is_ident("doc"))
        .map(|a| {
            json!({"name": a.path().to_token_stream().to_string().replace(' ', ""),
                   "pos": pos(a.span()), "path_pos": pos(a.path().span()),
                   "tokens": a.to_token_stream().to_string()})
        })
        .collect()
}
fn fields_json(fields: &syn::Fields) -> Vec<Value> {
    fields
        .iter()
        .enumerate()
        .map(|(k, f)| {
            json!({"idx": k, "name": f.ident.as_ref().map(|x| x.to_string()),
                   "ty": f.ty.to_token_stream().to_string(), "attrs": attr_strs(&f.attrs),
                   "vis": f.vis.to_token_stream().to_string(), "line": f.span().start().line})
        })
        .collect()
}

impl V {
    fn ctx(&self) -> Value {
        json!({"file": self.file, "mod": self.modpath.join("::"), "test": self.test_depth > 0,
               "in_fn": self.fn_stack.last()})
    }
}

impl<'ast> Visit<'ast> for V {
    fn visit_item_mod(&mut self, i: &'ast syn::ItemMod) {
        let t = is_cfg_test(&i.attrs);
        if t {
            self.test_depth += 1;
        }
        self.modpath.push(i.ident.to_string());
        self.out.push(json!({"kind": "mod", "name": i.ident.to_string(), "ctx": self.ctx(),
                             "inline": i.content.is_some(), "attrs": attr_strs(&i.attrs), "pos": pos(i.span())}));
        syn::visit::visit_item_mod(self, i);
        self.modpath.pop();
        if t {
            self.test_depth -= 1;
        }
    }
    fn visit_item_struct(&mut self, i: &'ast syn::ItemStruct) {
        self.out.push(json!({"kind": "struct", "name": i.ident.to_string(), "ctx": self.ctx(),
            "pos": pos(i.span()), "name_pos": pos(i.ident.span()),
            "attrs": attr_strs(&i.attrs), "derives": derives(&i.attrs), "attr_macros": attr_macros(&i.attrs),
            "generics": i.generics.to_token_stream().to_string(),
            "tuple": matches!(i.fields, syn::Fields::Unnamed(_)),
            "fields": fields_json(&i.fields)}));
        syn::visit::visit_item_struct(self, i);
    }
    fn visit_item_enum(&mut self, i: &'ast syn::ItemEnum) {
        let vars: Vec<Value> = i
            .variants
            .iter()
            .enumerate()
            .map(|(k, v)| {
                json!({"idx": k, "name": v.ident.to_string(), "attrs": attr_strs(&v.attrs),
                       "fields": fields_json(&v.fields),
                       "discr": v.discriminant.as_ref().map(|d| d.1.to_token_stream().to_string())})
            })
            .collect();
        self.out.push(json!({"kind": "enum", "name": i.ident.to_string(), "ctx": self.ctx(),
            "pos": pos(i.span()), "attrs": attr_strs(&i.attrs), "derives": derives(&i.attrs),
            "attr_macros": attr_macros(&i.attrs), "variants": vars}));
        syn::visit::visit_item_enum(self, i);
    }
    fn visit_item_trait(&mut self, i: &'ast syn::ItemTrait) {
        let fns: Vec<Value> = i
            .items
            .iter()
            .filter_map(|it| {
                if let syn::TraitItem::Fn(f) = it {
                    Some(json!({"name": f.sig.ident.to_string(), "has_default": f.default.is_some(),
                                "pos": pos(f.span())}))
                } else {
                    None
                }
            })
            .collect();
        self.out.push(json!({"kind": "trait", "name": i.ident.to_string(), "ctx": self.ctx(),
            "pos": pos(i.span()), "fns": fns,
            "supertraits": i.supertraits.to_token_stream().to_string()}));
        self.fn_stack.push(format!("trait {}", i.ident));
        syn::visit::visit_item_trait(self, i);
        self.fn_stack.pop();
    }
    fn visit_item_impl(&mut self, i: &'ast syn::ItemImpl) {
        let t = is_cfg_test(&i.attrs);
        if t {
            self.test_depth += 1;
        }
        let fns: Vec<Value> = i
            .items
            .iter()
            .filter_map(|it| {
                if let syn::ImplItem::Fn(f) = it {
                    Some(json!({"name": f.sig.ident.to_string(), "pos": pos(f.span()),
                                "vis": f.vis.to_token_stream().to_string(),
                                "attrs": attr_strs(&f.attrs), "unsafe": f.sig.unsafety.is_some(),
                                "test": is_cfg_test(&f.attrs)}))
                } else {
                    None
                }
            })
            .collect();
        self.out.push(json!({"kind": "impl", "self_ty": i.self_ty.to_token_stream().to_string(),
            "trait": i.trait_.as_ref().map(|t| t.1.to_token_stream().to_string()),
            "unsafe": i.unsafety.is_some(),
            "generics": i.generics.to_token_stream().to_string(),
            "ctx": self.ctx(), "pos": pos(i.span()), "impl_pos": pos(i.impl_token.span),
            "attrs": attr_strs(&i.attrs), "attr_macros": attr_macros(&i.attrs), "fns": fns}));
        let label = format!(
            "impl {}{}",
            i.trait_.as_ref().map(|t| t.1.to_token_stream().to_string() + " for ").unwrap_or_default(),
            i.self_ty.to_token_stream()
        );
        self.fn_stack.push(label);
        syn::visit::visit_item_impl(self, i);
        self.fn_stack.pop();
        if t {
            self.test_depth -= 1;
        }
    }
    fn visit_impl_item_fn(&mut self, f: &'ast syn::ImplItemFn) {
        let t = is_cfg_test(&f.attrs);
        if t {
            self.test_depth += 1;
        }
        let parent = self.fn_stack.last().cloned().unwrap_or_default();
        self.fn_stack.push(format!("{}::{}", parent, f.sig.ident));
        syn::visit::visit_impl_item_fn(self, f);
        self.fn_stack.pop();
        if t {
            self.test_depth -= 1;
        }
    }
    fn visit_trait_item_fn(&mut self, f: &'ast syn::TraitItemFn) {
        let parent = self.fn_stack.last().cloned().unwrap_or_default();
        self.fn_stack.push(format!("{}::{}", parent, f.sig.ident));
        syn::visit::visit_trait_item_fn(self, f);
        self.fn_stack.pop();
    }
    fn visit_item_fn(&mut self, f: &'ast syn::ItemFn) {
        let t = is_cfg_test(&f.attrs);
        if t {
            self.test_depth += 1;
        }
        self.out.push(json!({"kind": "fn", "name": f.sig.ident.to_string(), "ctx": self.ctx(),
            "pos": pos(f.span()), "vis": f.vis.to_token_stream().to_string(),
            "attrs": attr_strs(&f.attrs), "unsafe": f.sig.unsafety.is_some()}));
        self.fn_stack.push(format!("fn {}", f.sig.ident));
        syn::visit::visit_item_fn(self, f);
        self.fn_stack.pop();
        if t {
            self.test_depth -= 1;
        }
    }
    fn visit_item_static(&mut self, i: &'ast syn::ItemStatic) {
        self.out.push(json!({"kind": "static", "name": i.ident.to_string(), "ctx": self.ctx(),
            "pos": pos(i.span()), "mutable": matches!(i.mutability, syn::StaticMutability::Mut(_)),
            "ty": i.ty.to_token_stream().to_string()}));
        syn::visit::visit_item_static(self, i);
    }
    fn visit_item_const(&mut self, i: &'ast syn::ItemConst) {
        self.out.push(json!({"kind": "const", "name": i.ident.to_string(), "ctx": self.ctx(),
            "pos": pos(i.span()), "ty": i.ty.to_token_stream().to_string(),
            "expr": i.expr.to_token_stream().to_string()}));
        syn::visit::visit_item_const(self, i);
    }
    fn visit_expr_unsafe(&mut self, i: &'ast syn::ExprUnsafe) {
        self.out.push(json!({"kind": "unsafe_block", "ctx": self.ctx(), "pos": pos(i.span())}));
        syn::visit::visit_expr_unsafe(self, i);
    }
    fn visit_macro(&mut self, m: &'ast syn::Macro) {
        let name = m.path.to_token_stream().to_string().replace(' ', "");
        let mut uns = vec![];
        unsafe_in_tokens(m.tokens.clone(), &mut uns);
        let toks = m.tokens.to_string();
        self.out.push(json!({"kind": "macro", "name": name, "ctx": self.ctx(), "pos": pos(m.span()),
            "tokens": if toks.len() > 4000 { toks[..4000].to_string() } else { toks },
            "unsafe_tokens": uns}));
        // try to look inside the macro arguments as expressions / items (best effort) for nested macros
        if let Ok(f) = syn::parse2::<syn::File>(m.tokens.clone()) {
            self.visit_file(&f);
        } else if let Ok(args) = m.parse_body_with(
            syn::punctuated::Punctuated::<syn::Expr, syn::Token![,]>::parse_terminated,
        ) {
            for e in args.iter() {
                self.visit_expr(e);
            }
        }
    }
}

fn walk(dir: &std::path::Path, root: &std::path::Path, out: &mut Vec<Value>) {
    let mut ents: Vec<_> = std::fs::read_dir(dir).unwrap().map(|e| e.unwrap().path()).collect();
    ents.sort();
    for p in ents {
        if p.is_dir() {
            if p.file_name().map(|n| n == "target").unwrap_or(false) {
                continue;
            }
            walk(&p, root, out);
        } else if p.extension().map(|x| x == "rs").unwrap_or(false) {
            let s = std::fs::read_to_string(&p).unwrap();
            let rel = p.strip_prefix(root).unwrap().to_string_lossy().to_string();
            // module path from the file path below src/
            let mut modpath: Vec<String> = vec![];
            if let Some(ix) = rel.find("src/") {
                let tail = &rel[ix + 4..];
                let tail = tail.trim_end_matches(".rs");
                for seg in tail.split('/') {
                    if seg != "mod" && seg != "lib" && seg != "main" {
                        modpath.push(seg.to_string());
                    }
                }
            }
            match syn::parse_file(&s) {
                Ok(f) => {
                    let mut v = V { file: rel.clone(), modpath, test_depth: 0, fn_stack: vec![], out: vec![] };
                    v.visit_file(&f);
                    out.push(json!({"kind": "file", "file": rel, "lines": s.lines().count()}));
                    out.extend(v.out);
                }
                Err(e) => {
                    out.push(json!({"kind": "parse_error", "file": rel, "error": e.to_string()}));
                }
            }
        }
    }
}

fn main() {
    let mut out = vec![];
    for a in std::env::args().skip(1) {
        let p = std::path::PathBuf::from(&a);
        // file names are reported relative to the parent of the given dir's crate root, i.e. like rustc spans
        let root = std::env::var("ASTFACTS_ROOT").map(std::path::PathBuf::from).unwrap_or_else(|_| p.clone());
        walk(&p, &root, &mut out);
    }
    println!("{}", serde_json::to_string(&out).unwrap());
}
