#!/bin/bash
# usage: tools/verify_seed.sh <worktree dir with _out/{patch.diff,demo.diff,meta.json}> 
# Confirms, on /repo's current HEAD, in that scratch worktree:
#  (a) demo.diff alone           -> demo test passes
#  (b) demo.diff + patch.diff    -> demo test fails
#  (c) patch.diff alone          -> the full existing suite passes (102)
# Writes _out/verify.json
set -u
wt="$1"; out="$wt/_out"
head="$(git -C /repo rev-parse HEAD)"
cd "$wt" || exit 2
git reset -q ; git checkout -q -- . ; git clean -fdq -e _out -e rust/target ; git checkout -q --detach "$head" || exit 2
demo_cmd="$(python3 -c "import json;print(json.load(open('$out/meta.json'))['demo_test'])")"
# normalise: run from rust/ dir
demo_cmd="${demo_cmd#cd rust && }"; demo_cmd="${demo_cmd#cd */rust && }"
run_demo() { ( cd "$wt/rust" && eval "$demo_cmd" ) > "$1" 2>&1; echo $?; }
res_a=NA; res_b=NA; res_c=NA; npass=NA
if git apply --check "$out/demo.diff" 2>/dev/null && git apply "$out/demo.diff"; then
  res_a=$(run_demo "$out/verify_a.log")
  if git apply --check "$out/patch.diff" 2>/dev/null && git apply "$out/patch.diff"; then
    res_b=$(run_demo "$out/verify_b.log")
  else res_b=patch-does-not-apply; fi
else res_a=demo-does-not-apply; fi
git checkout -q -- . ; git clean -fdq -e _out -e rust/target
if git apply "$out/patch.diff" 2>/dev/null; then
  ( cd "$wt/rust" && cargo nextest run --workspace --no-fail-fast --tool-config-file pb:/w/lib/nextest.toml --profile pb --test-threads 8 --offline ) > "$out/verify_c.log" 2>&1
  res_c=$?
  npass="$(grep -Eo '[0-9]+ passed' "$out/verify_c.log" | tail -1)"
fi
git checkout -q -- . ; git clean -fdq -e _out -e rust/target
python3 - <<PY
import json
json.dump({"repo_head":"$head","demo_alone_rc":"$res_a","demo_with_patch_rc":"$res_b","suite_with_patch_rc":"$res_c","suite_passed":"$npass",
           "confirmed": ("$res_a"=="0" and "$res_b" not in ("0","NA","patch-does-not-apply") and "$res_c"=="0")}, open("$out/verify.json","w"), indent=1)
print(open("$out/verify.json").read())
PY
