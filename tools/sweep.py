#!/usr/bin/env python3
"""usage: tools/sweep.py <outdir> [--per-file K] [--workers N] [--files regex] [--seed S]
Mutation sweep used while BUILDING the rule sets (not a registered check): small single-token edits inside function
bodies of the files the properties are anchored in; each variant is applied to a scratch copy outside /repo and /verif and
the checks of the properties anchored in that file are run against it.  Variants no check objects to are written to
<outdir>/survivors/ for triage (equivalent edit, caught by the existing suite, or a gap in the rules)."""
import json, os, re, random, subprocess, sys, tempfile, shutil, argparse, difflib, concurrent.futures, queue

VERIF = os.path.dirname(os.path.dirname(os.path.abspath(__file__)))
ap = argparse.ArgumentParser()
ap.add_argument('out')
ap.add_argument('--per-file', type=int, default=5)
ap.add_argument('--workers', type=int, default=4)
ap.add_argument('--files', default='.')
ap.add_argument('--seed', type=int, default=1)
ap.add_argument('--skip-props', default='C17,C18')
a = ap.parse_args()
os.makedirs(os.path.join(a.out, 'survivors'), exist_ok=True)
os.makedirs(os.path.join(a.out, 'killed'), exist_ok=True)
skip = set(a.skip_props.split(','))

fmap = {}
for l in open(os.path.join(VERIF, 'properties.jsonl')):
    p = json.loads(l)
    for f in p['anchors']['files']:
        fmap.setdefault(f, []).append(p['id'])

OPS = [
    (r' < ', ' <= '), (r' <= ', ' < '), (r' > ', ' >= '), (r' >= ', ' > '),
    (r' == ', ' != '), (r' != ', ' == '),
    (r' \+ ', ' - '), (r' - ', ' + '), (r' \+= ', ' -= '), (r' -= ', ' += '),
    (r'\.min\(', '.max('), (r'\.max\(', '.min('),
    (r' && ', ' || '), (r' \|\| ', ' && '),
    (r' \+ 1\b', ''), (r' - 1\b', ''),
    (r'\.abs\(\)', ''),
    (r'\bif !', 'if '),
    (r'idx_front', 'idx_back'), (r'idx_back', 'idx_front'),
    (r'\.first\(\)', '.last()'), (r'\.last\(\)', '.first()'),
    (r'offset_start', 'offset_end'), (r'offset_end', 'offset_start'),
    (r'clear_entry', 'clear_exit'), (r'clear_exit', 'clear_entry'),
    (r'idx_next\b', 'idx_next_alt'), (r'idx_prev\b', 'idx_prev_alt'),
]
BAD = re.compile(r'^\s*(//|#\[|debug_assert|assert|ensure!|bail!|format|println|log::|use |pub use |type |const )|format_dbg|with_context|anyhow!|"')


def fn_lines(src):
    """indices of lines inside fn bodies (outside #[cfg(test)] modules)"""
    lines = src.splitlines()
    inside = []
    depth = 0
    fn_depth = None
    test_depth = None
    pend_test = False
    pend_fn = False
    for i, l in enumerate(lines):
        s = l.strip()
        if s.startswith('#[cfg(test)]'):
            pend_test = True
        if re.match(r'\s*(pub(\([a-z]+\))? )?(unsafe )?fn \w+', l) and test_depth is None:
            pend_fn = True
        opens, closes = l.count('{'), l.count('}')
        if fn_depth is not None and test_depth is None and not pend_fn:
            inside.append(i)
        if opens:
            if pend_test and re.match(r'\s*(pub )?mod \w+', l):
                test_depth = depth
                pend_test = False
            if pend_fn and fn_depth is None:
                fn_depth = depth
                pend_fn = False
            elif pend_fn:
                pend_fn = False
        depth += opens - closes
        if fn_depth is not None and depth <= fn_depth:
            fn_depth = None
        if test_depth is not None and depth <= test_depth:
            test_depth = None
        if s.endswith(';') and pend_fn:
            pend_fn = False
    return lines, inside


rng = random.Random(a.seed)
muts = []
for f, props in sorted(fmap.items()):
    if not re.search(a.files, f):
        continue
    path = '/repo/' + f
    if not os.path.exists(path):
        continue
    src = open(path).read()
    lines, inside = fn_lines(src)
    cands = []
    for i in inside:
        l = lines[i]
        if BAD.search(l):
            continue
        for pat, rep in OPS:
            for m in re.finditer(pat, l):
                nl = l[:m.start()] + rep + l[m.end():]
                cands.append((i, l, nl))
    rng.shuffle(cands)
    ps = [p for p in props if p not in skip] or props
    for i, l, nl in cands[:a.per_file]:
        muts.append((f, i, l, nl, ps))
print('sweep: %d variants over %d files' % (len(muts), len({m[0] for m in muts})), flush=True)

base = os.path.join(os.path.expanduser('~'), '.cache', 'altrios-verif')
os.makedirs(base, exist_ok=True)
workers = queue.Queue()
for k in range(a.workers):
    workers.put(k)
main_tgt = os.path.join(VERIF, '.cache', 'target')


def one(idx_m):
    idx, (f, i, l, nl, ps) = idx_m
    src = open('/repo/' + f).read().splitlines(True)
    dst = list(src)
    dst[i] = nl + ('\n' if src[i].endswith('\n') else '')
    diff = ''.join(difflib.unified_diff(src, dst, 'a/' + f, 'b/' + f, n=3))
    name = 'm%03d_%s_%d' % (idx, os.path.basename(f).replace('.rs', ''), i + 1)
    wk = workers.get()
    scratch = tempfile.mkdtemp(prefix='sweep-', dir=base)
    try:
        tgt = os.path.join(VERIF, '.cache', 'target-s%d' % wk)
        if not os.path.isdir(tgt) and os.path.isdir(main_tgt):
            subprocess.run(['cp', '-a', main_tgt, tgt], check=False)
        env = dict(os.environ, VERIF_NO_SELFTEST='1', VERIF_WORKER='-s%d' % wk, VERIF_TARGET_DIR=tgt,
                   VERIF_SCRATCH=os.path.join(base, 's%d' % wk))
        os.makedirs(os.path.join(scratch, 'rust'))
        subprocess.run(['rsync', '-a', '--exclude', 'target', '--exclude', '.git', '/repo/rust/', os.path.join(scratch, 'rust') + '/'], check=True)
        pf = os.path.join(scratch, 'm.diff')
        open(pf, 'w').write(diff)
        if subprocess.run(['patch', '-p1', '--quiet', '-i', pf], cwd=scratch).returncode != 0:
            return name, 'nopatch', ''
        verdict, detail = 'survived', ''
        for p in ps:
            r = subprocess.run([sys.executable, os.path.join(VERIF, 'check'), p, '--repo', scratch, '--no-evidence'],
                               capture_output=True, text=True, env=env)
            if r.returncode == 2:
                verdict, detail = 'nocompile', ''
                break
            if r.returncode == 1:
                hits = [x.strip()[:200] for x in r.stdout.splitlines() if x.startswith('  DISPROVED') or x.startswith('  UNPROVED')]
                verdict, detail = 'killed', p + ': ' + (hits[0] if hits else '')
                break
        if verdict == 'survived':
            open(os.path.join(a.out, 'survivors', name + '.diff'), 'w').write(diff)
        elif verdict == 'killed':
            open(os.path.join(a.out, 'killed', name + '.txt'), 'w').write(detail + '\n' + diff)
        return name, verdict, '%s | %s -> %s | %s' % (','.join(ps), l.strip()[:90], nl.strip()[:90], detail[:160])
    finally:
        workers.put(wk)
        shutil.rmtree(scratch, ignore_errors=True)


with concurrent.futures.ThreadPoolExecutor(max_workers=a.workers) as ex, open(os.path.join(a.out, 'log.txt'), 'a') as log:
    for name, verdict, info in ex.map(one, enumerate(muts)):
        line = '%s %s %s' % (name, verdict.upper(), info)
        print(line, flush=True)
        log.write(line + '\n')
        log.flush()
