#!/opt/veriftools/pyvenv/bin/python3
"""usage: tools/show.py <regex on fid> [--all-paths] — prints the SVN exit store, guards, return value and calls of matching functions"""
import sys, threading, re, os
sys.path.insert(0, os.path.dirname(os.path.dirname(os.path.abspath(__file__))))
sys.setrecursionlimit(200000)
threading.stack_size(512 * 1024 * 1024)


def main():
    from sa import facts
    from sa.program import Program
    from sa.svn import Engine
    from sa.terms import show
    d, info = facts.ensure_facts('default', os.environ.get('VERIF_REPO', '/repo'))
    P = Program(d)
    E = Engine(P)
    pat = sys.argv[1]
    names = [f for f in P.by_id if re.search(pat, f) and not P.by_id[f].test]
    for f in names:
        b = P.by_id[f]
        if '--all-paths' in sys.argv:
            E.all_paths.add(f)
        print('=' * 100)
        print(f, b.params)
        a = E.analysis(b)
        if a.exit_state is None:
            print('  no Ok exit'); continue
        print('  ret:', show(a.ret(), a.names)[:1500])
        for k, v in sorted(a.exit_state.store.d.items(), key=lambda kv: str(kv[0])):
            if k and k[0][0] == 'obj':
                print('  store', k, '=', show(v, a.names)[:1500])
        for g in a.guards:
            print('  guard[%s] gate=%s :: %s' % (g.kind, [(show(x[0], a.names)[:200], x[1]) if isinstance(x, tuple) and len(x)==2 else str(x)[:200] for x in (g.gate or [])], show(g.holds_term(), a.names)[:800]))
        if '--calls' in sys.argv:
            for c in a.calls:
                print('  call', c.callee if hasattr(c, 'callee') else c)


th = threading.Thread(target=main)
th.start()
th.join()
