#!/bin/bash
# usage: tools/sweep_tests.sh <sweepdir> <nworkers>  — second stage of tools/sweep.py: run the pinned suite on each surviving variant in scratch
# worktrees (/tmp/wt/t<k>); writes <sweepdir>/tests.txt with "<name> TESTS-PASS|TESTS-FAIL|NOBUILD"
sw="$1"; nw="${2:-3}"
cd "$(dirname "$0")/.."
for k in $(seq 1 $nw); do [ -d /tmp/wt/t$k ] || tools/mkwt.sh t$k >/dev/null; done
touch "$sw/tests.txt"
worker() {
  k=$1
  while true; do
    for f in "$sw"/survivors/*.diff; do
      n=$(basename $f .diff)
      grep -q "^$n " "$sw/tests.txt" && continue
      mkdir "$sw/.lock-$n" 2>/dev/null || continue
      ( cd /tmp/wt/t$k && git checkout -q -- . && patch -p1 --quiet < $f ) || { echo "$n NOPATCH" >> "$sw/tests.txt"; continue; }
      ( cd /tmp/wt/t$k/rust && timeout 900 cargo nextest run --workspace --no-fail-fast --tool-config-file pb:/w/lib/nextest.toml --profile pb --test-threads 4 --offline ) > "$sw/.test-$n.log" 2>&1
      rc=$?
      if grep -q "error: could not compile\|error\[E" "$sw/.test-$n.log"; then v=NOBUILD; elif [ $rc -eq 0 ]; then v=TESTS-PASS; else v="TESTS-FAIL($(grep -Eo '[0-9]+ failed' "$sw/.test-$n.log" | tail -1))"; fi
      echo "$n $v" >> "$sw/tests.txt"
      ( cd /tmp/wt/t$k && git checkout -q -- . )
    done
    [ -f "$sw/.stop" ] && break
    sleep 30
  done
}
for k in $(seq 1 $nw); do worker $k & done
wait
