#!/bin/bash
# usage: tools/runall_thorough.sh [props...] — runs the thorough tier (both configurations + broken-variant self-test), 2 at a time
cd "$(dirname "$0")/.."
props="$*"
[ -z "$props" ] && props="$(ls rules | grep -E '^C[0-9]+\.py$' | sed 's/\.py//')"
mkdir -p .cache/runall
echo $props | tr ' ' '\n' | xargs -P 2 -I{} sh -c "./check {} --tier thorough > .cache/runall/{}.thorough.log 2>&1; echo \"{} rc=\$? \$(grep -E ' thorough: ' .cache/runall/{}.thorough.log | tail -1) :: \$(grep -E '^selftest:' .cache/runall/{}.thorough.log | sed 's/broken variants.*diff, seeded.\*)//')\""
