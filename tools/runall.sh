#!/bin/bash
# usage: tools/runall.sh [--no-evidence] [props...]   — runs the registered checks in parallel (4 at a time), prints one line each
cd "$(dirname "$0")/.."
extra=""
if [ "${1:-}" = "--no-evidence" ]; then extra="--no-evidence"; shift; fi
props="$*"
[ -z "$props" ] && props="$(ls rules | grep -E '^C[0-9]+\.py$' | sed 's/\.py//')"
./check --setup >/dev/null 2>&1
mkdir -p .cache/runall
echo $props | tr ' ' '\n' | xargs -P 5 -I{} sh -c "./check {} $extra > .cache/runall/{}.log 2>&1; echo \"{} rc=\$? \$(grep -E ' quick: | thorough: ' .cache/runall/{}.log | tail -1)\""
