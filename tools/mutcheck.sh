#!/bin/bash
# usage: tools/mutcheck.sh <patch.diff> <prop> [<prop> ...]
# Applies a patch (paths relative to the repository root, as `git diff` prints them) to a scratch copy of /repo's
# rust/ workspace (outside /repo and /verif), runs the given checks against that copy, prints their verdict lines,
# and removes the scratch copy.  Never touches /repo and never rewrites evidence/.
set -u
here="$(cd "$(dirname "$0")/.." && pwd)"
patch="$(realpath "$1")"; shift
scratch="$(mktemp -d "${TMPDIR:-/tmp}/altrios-mut.XXXXXX")"
trap 'rm -rf "$scratch"' EXIT
mkdir -p "$scratch/rust"
rsync -a --exclude target --exclude .git /repo/rust/ "$scratch/rust/"
if ! ( cd "$scratch" && patch -p1 --quiet < "$patch" ); then
  echo "MUTCHECK patch does not apply: $patch"; exit 3
fi
rc_all=0
for p in "$@"; do
  out="$("$here/check" "$p" --repo "$scratch" --no-evidence 2>&1)"; rc=$?
  echo "$out" | grep -E "^(VIOLATION|KNOWN-FINDING|EXTRACTION-FAILED|  (DISPROVED|UNPROVED))|obligations," | cut -c1-400
  echo "MUTCHECK prop=$p rc=$rc patch=$(basename "$patch")"
  [ $rc -eq 1 ] || rc_all=1
done
exit $rc_all
