#!/usr/bin/env python3
"""usage: mkmut.py <out.diff> <repo-relative file> <old text> <new text> [<file> <old> <new> ...]
Writes a unified diff (git style, -p1) replacing the single occurrence of <old> by <new> in /repo/<file>."""
import sys, difflib
out = sys.argv[1]
args = sys.argv[2:]
chunks = []
for i in range(0, len(args), 3):
    f, old, new = args[i:i + 3]
    src = open('/repo/' + f).read()
    if src.count(old) != 1:
        sys.exit('mkmut: %d occurrences of the old text in %s' % (src.count(old), f))
    dst = src.replace(old, new)
    d = difflib.unified_diff(src.splitlines(True), dst.splitlines(True), 'a/' + f, 'b/' + f, n=3)
    chunks.append(''.join(d))
open(out, 'w').write(''.join(chunks))
print('wrote', out)
