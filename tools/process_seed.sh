#!/bin/bash
# usage: tools/process_seed.sh <name> <prop> [<prop> ...] — confirm a sub-agent's seed in its scratch worktree, store it under seeded/, run the
# named checks against it on a scratch copy, and remove the worktree with its build output
n="$1"; shift
cd "$(dirname "$0")/.."
tools/verify_seed.sh /tmp/wt/$n > /tmp/wt/$n.verify.log 2>&1
python3 -c "import json;d=json.load(open('/tmp/wt/$n/_out/verify.json'));print('$n confirmed=%s demo_alone=%s demo_with_patch=%s suite=%s' % (d['confirmed'], d['demo_alone_rc'], d['demo_with_patch_rc'], d['suite_passed']))"
tools/save_seed.py $n
tools/mutcheck.sh seeded/$n/patch.diff "$@" 2>&1 | grep -vE "^KNOWN" | cut -c1-260
git -C /repo worktree remove --force /tmp/wt/$n; rm -rf /tmp/wt/$n
