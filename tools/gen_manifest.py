#!/usr/bin/env python3
"""Regenerates MANIFEST.json from rules/*.py metadata (MANIFEST_ENTRY dicts) and tools/not_applicable.json."""
import importlib, json, os, sys
V = os.path.dirname(os.path.dirname(os.path.abspath(__file__)))
sys.path.insert(0, V)
props = [json.loads(l)['id'] for l in open(os.path.join(V, 'properties.jsonl'))]
checks = []
na = json.load(open(os.path.join(V, 'tools', 'not_applicable.json')))
na_ids = {x['property_id'] for x in na}
for pid in props:
    path = os.path.join(V, 'rules', pid + '.py')
    if not os.path.exists(path) or pid in na_ids:
        continue
    src = open(path).read()
    # metadata is read textually (the rule modules import sympy lazily; avoid importing here)
    ns = {}
    start = src.find('MANIFEST = {')
    if start < 0:
        print('no MANIFEST block in', pid); continue
    depth = 0; i = start + len('MANIFEST = ')
    j = i
    while j < len(src):
        if src[j] == '{': depth += 1
        elif src[j] == '}':
            depth -= 1
            if depth == 0:
                break
        j += 1
    meta = eval(src[i:j + 1], {})
    # the clause list grows with every strengthening: append the registered rule names and point at the as-built table
    import re as _re
    mr = _re.search(r"^RULES = \[(.*?)\]", src, _re.M | _re.S)
    rules = _re.findall(r"'([^']+)'", mr.group(1)) if mr else []
    row = None
    dsrc = open(os.path.join(V, 'DESIGN.md')).read()
    k = dsrc.find('### 11.3')
    mrow = _re.compile(r'^\| %s \| ([^|]*) \| ([^|]*) \| (.*) \| ([^|]*) \|$' % pid, _re.M).search(dsrc, k) if k >= 0 else None
    if mrow:
        meta = dict(meta)
        meta['text'] = meta['text'].rstrip() + ' As built (DESIGN.md §11.3): ' + mrow.group(3).replace('**', '').strip() + '. Registered clauses: ' + ', '.join(rules) + '.'
        meta['note'] = meta['note'].rstrip() + ' Not decided (as built): ' + mrow.group(4).strip() + '.'
        meta['design_ref'] = 'DESIGN.md §5 %s, §11.3, §11.6' % pid
    checks.append({
        'property_id': pid,
        'quick_cmd': './check %s --tier quick' % pid,
        'thorough_cmd': './check %s --tier thorough' % pid,
        'evidence_file': 'evidence/%s.json' % pid,
        'replay_cmd_template': './check %s --replay {path}' % pid,
        'engine': meta.get('engine', 'svn+structure'),
        'level_claimed': {'category': meta['category'], 'text': meta['text'], 'design_ref': meta.get('design_ref', 'DESIGN.md §5 ' + pid)},
        'level_note': meta['note'],
        'technique': meta['technique'],
    })
missing = [p for p in props if p not in na_ids and p not in {c['property_id'] for c in checks}]
for p in missing:
    na.append({'property_id': p, 'reason': 'rule set not yet registered in this commit (see DESIGN.md §10 build order); no verdict is claimed'})
m = {
    'version': 1,
    'setup_cmd': './check --setup',
    'hooks': {'guard': 'altrios_verif', 'enable': 'none needed: static analysis reads the MIR/AST of the unmodified sources',
              'baseline_off_cmd': 'cd /repo/rust && cargo test --workspace --no-fail-fast --offline',
              'source_commits': [], 'add_only': True},
    'engines': [
        {'name': 'extract', 'path': 'extract/', 'serves_properties': props, 'kind_free_text': 'rustc -Zunpretty=mir dump of the type-checked crate through RUSTC_WORKSPACE_WRAPPER + syn-based syntax facts'},
        {'name': 'svn', 'path': 'sa/svn.py sa/prove.py', 'serves_properties': props, 'kind_free_text': 'symbolic value numbering (gated SSA terms, summaries, loop widening) and a polynomial-normal-form term prover'},
        {'name': 'structure', 'path': 'sa/cfg.py sa/discover.py', 'serves_properties': props, 'kind_free_text': 'CFG dominance / must-pass-through, writer and caller inventories, call-graph reachability'},
    ],
    'checks': checks,
    'not_applicable': na,
    'notes': 'Static analysis only: every verdict is computed from the MIR/AST of /repo\'s current working tree; nothing of ALTRIOS is executed. See DESIGN.md.',
}
json.dump(m, open(os.path.join(V, 'MANIFEST.json'), 'w'), indent=1, ensure_ascii=False)
print('MANIFEST.json: %d checks, %d not_applicable' % (len(checks), len(na)))
# validate against the given schema (fail loudly: an invalid manifest must never be committed)
try:
    import subprocess
    r = subprocess.run(['/opt/veriftools/pyvenv/bin/python3', '-c',
                        'import json,jsonschema,sys; jsonschema.validate(json.load(open(sys.argv[1])), json.load(open(sys.argv[2]))); print("MANIFEST.json validates against the schema")',
                        os.path.join(V, 'MANIFEST.json'), '/root/.vp/MANIFEST.schema.json'], capture_output=True, text=True)
    print((r.stdout + r.stderr).strip()[-600:])
    if r.returncode != 0:
        sys.exit(1)
except FileNotFoundError:
    pass
