#!/usr/bin/env python3
"""usage: tools/regress.py [--workers N] [filter-regex]
Regression run over every broken variant (selftest/mutants/<Cxx>_*.diff against <Cxx>; seeded/<n>/patch.diff against the checks named in
its meta.json): each patch is applied once to a scratch copy outside /repo and /verif and every named check must exit 1 on it.
Prints one line per (variant, check); exit 1 if a variant is no longer detected.  Build-time tooling (the thorough tier runs the same
variants per property)."""
import json, os, re, subprocess, sys, tempfile, shutil, glob, concurrent.futures, queue
VERIF = os.path.dirname(os.path.dirname(os.path.abspath(__file__)))
args = sys.argv[1:]
nw = 8
if args and args[0] == '--workers':
    nw = int(args[1]); args = args[2:]
flt = args[0] if args else '.'
jobs = []
for f in sorted(glob.glob(os.path.join(VERIF, 'selftest', 'mutants', '*.diff'))):
    p = os.path.basename(f).split('_')[0]
    if os.path.exists(os.path.join(VERIF, 'rules', p + '.py')):
        jobs.append((f, [p]))
for m in sorted(glob.glob(os.path.join(VERIF, 'seeded', '*', 'meta.json'))):
    d = json.load(open(m))
    ps = d.get('checks') or [d.get('property')]
    jobs.append((os.path.join(os.path.dirname(m), 'patch.diff'), [p for p in ps if p and os.path.exists(os.path.join(VERIF, 'rules', p + '.py'))]))
jobs = [j for j in jobs if re.search(flt, j[0] + ' ' + ' '.join(j[1]))]
print('regress: %d variants, %d (variant, check) pairs' % (len(jobs), sum(len(j[1]) for j in jobs)), flush=True)
base = os.path.join(os.path.expanduser('~'), '.cache', 'altrios-verif')
os.makedirs(base, exist_ok=True)
workers = queue.Queue()
for k in range(nw):
    workers.put(k)
main_tgt = os.path.join(VERIF, '.cache', 'target')


def one(job):
    patch, props = job
    name = os.path.relpath(patch, VERIF)
    wk = workers.get()
    scratch = tempfile.mkdtemp(prefix='regress-', dir=base)
    out = []
    try:
        tgt = os.path.join(VERIF, '.cache', 'target-r%d' % wk)
        if not os.path.isdir(tgt) and os.path.isdir(main_tgt):
            subprocess.run(['cp', '-a', main_tgt, tgt], check=False)
        env = dict(os.environ, VERIF_NO_SELFTEST='1', VERIF_WORKER='-r%d' % wk, VERIF_TARGET_DIR=tgt, VERIF_SCRATCH=os.path.join(base, 'r%d' % wk))
        os.makedirs(os.path.join(scratch, 'rust'))
        subprocess.run(['rsync', '-a', '--exclude', 'target', '--exclude', '.git', '/repo/rust/', os.path.join(scratch, 'rust') + '/'], check=True)
        if subprocess.run(['patch', '-p1', '--quiet', '-i', patch], cwd=scratch, capture_output=True).returncode != 0:
            return [(name, p, 'NOPATCH') for p in props]
        for p in props:
            r = subprocess.run([sys.executable, os.path.join(VERIF, 'check'), p, '--repo', scratch, '--no-evidence'], capture_output=True, text=True, env=env)
            out.append((name, p, {1: 'detected', 0: 'MISSED', 2: 'NOCOMPILE'}.get(r.returncode, 'rc=%d' % r.returncode)))
        return out
    finally:
        workers.put(wk)
        shutil.rmtree(scratch, ignore_errors=True)


bad = 0
with concurrent.futures.ThreadPoolExecutor(max_workers=nw) as ex:
    for res in ex.map(one, jobs):
        for name, p, v in res:
            print('%s %s %s' % (v, p, name), flush=True)
            if v != 'detected':
                bad += 1
print('regress: %d not detected' % bad)
sys.exit(1 if bad else 0)
