#!/usr/bin/env python3
"""usage: tools/gen_matrix.py — rewrites the seeded-change table of DESIGN.md §11.6 (between the two marker comments) from seeded/*/meta.json"""
import json, glob, os, re
V = os.path.dirname(os.path.dirname(os.path.abspath(__file__)))
rows = []
for m in sorted(glob.glob(os.path.join(V, 'seeded', '*', 'meta.json'))):
    n = os.path.basename(os.path.dirname(m))
    d = json.load(open(m))
    det = d.get('detected_by') or {}
    if isinstance(det, dict):
        txt = '; '.join('%s' % v if v.startswith(k) else '%s: %s' % (k, v) for k, v in det.items())
    else:
        txt = str(det)
    txt = txt.replace('|', '/').replace('\n', ' ')
    first = d.get('first_run') or ('missed' if re.search(r'missed|MISSED', txt) else ('rule set did not exist yet' if d.get('before_rules') else 'caught'))
    rows.append('| %s | %s | %s | %s |' % (n, d.get('property'), txt[:420], first))
table = '| seed | property | caught by | first run |\n|------|----------|-----------|-----------|\n' + '\n'.join(rows) + '\n'
p = os.path.join(V, 'DESIGN.md')
s = open(p).read()
a, b = '<!-- seeded-matrix:begin -->\n', '<!-- seeded-matrix:end -->\n'
if a in s:
    s = s[:s.index(a) + len(a)] + table + s[s.index(b):]
    open(p, 'w').write(s)
    print('DESIGN.md table rewritten: %d seeds' % len(rows))
else:
    print(table)
