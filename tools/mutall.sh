#!/bin/bash
# usage: tools/mutall.sh [filter-regex]
# Runs every selftest mutant (selftest/mutants/<Cxx>_*.diff against <Cxx>) and every seeded change (seeded/<n>/patch.diff against the
# properties named in seeded/<n>/meta.json "checks") on scratch copies, 5 at a time.  A line ending in rc=1 means detected.
cd "$(dirname "$0")/.."
filter="${1:-.}"
./check --setup >/dev/null 2>&1
jobs=()
for f in selftest/mutants/*.diff; do
  n="$(basename "$f" .diff)"; p="${n%%_*}"
  [ -f "rules/$p.py" ] && jobs+=("$f $p")
done
for d in seeded/*/; do
  n="$(basename "$d")"
  ps="$(python3 -c "import json;m=json.load(open('$d/meta.json'));print(' '.join(m.get('checks') or [m.get('property')]))")"
  for p in $ps; do [ -f "rules/$p.py" ] && jobs+=("$d/patch.diff $p"); done
done
printf '%s\n' "${jobs[@]}" | grep -E "$filter" | xargs -P 5 -L 1 sh -c 'r="$(tools/mutcheck.sh $0 $1 2>&1 | grep -E "^MUTCHECK|^  (DISPROVED|UNPROVED)" | head -3 | cut -c1-220 | tr "\n" " ")"; echo "$0 :: $r"'
