#!/usr/bin/env python3
"""usage: save_seed.py <name> [<detected-by summary>]   copies /tmp/wt/<name>/_out deliverables into seeded/<name>/ and
merges my own verification (verify.json from tools/verify_seed.sh) into meta.json"""
import json, os, shutil, sys
name = sys.argv[1]
src = '/tmp/wt/%s/_out' % name
dst = os.path.join(os.path.dirname(os.path.dirname(os.path.abspath(__file__))), 'seeded', name)
os.makedirs(dst, exist_ok=True)
for f in ('patch.diff', 'demo.diff', 'notes.md'):
    if os.path.exists(os.path.join(src, f)):
        shutil.copy(os.path.join(src, f), os.path.join(dst, f))
meta = json.load(open(os.path.join(src, 'meta.json')))
v = json.load(open(os.path.join(src, 'verify.json'))) if os.path.exists(os.path.join(src, 'verify.json')) else None
meta['breaks_property'] = meta.get('property', name[:3])
meta['origin'] = 'independent sub-agent given only the property text and a scratch worktree (no access to /verif)'
if v:
    meta['my_verification'] = {
        'what_i_ran': 'tools/verify_seed.sh in a scratch worktree at /repo HEAD %s: (a) demo.diff alone -> demo test; (b) demo.diff + patch.diff -> demo test; (c) patch.diff alone -> pinned suite (cargo nextest, 102 tests)' % v['repo_head'][:8],
        'demo_without_change': 'passed' if v['demo_alone_rc'] == '0' else 'rc=' + v['demo_alone_rc'],
        'demo_with_change': 'failed (rc=%s)' % v['demo_with_patch_rc'] if v['demo_with_patch_rc'] not in ('0',) else 'passed',
        'existing_suite_with_change': v['suite_passed'] + (' (rc=%s)' % v['suite_with_patch_rc']),
        'confirmed': v['confirmed'],
    }
if len(sys.argv) > 2:
    meta['detected_by'] = sys.argv[2]
json.dump(meta, open(os.path.join(dst, 'meta.json'), 'w'), indent=1)
print(name, 'saved; confirmed =', v and v['confirmed'])
