#!/bin/bash
# usage: tools/benign.sh [filter] — behaviour-preserving refactorings (selftest/benign/<Cxx>[_<Cyy>...]_name.diff) must leave the named checks silent
cd "$(dirname "$0")/.."
filter="${1:-.}"
for f in selftest/benign/*.diff; do
  echo "$f" | grep -qE "$filter" || continue
  n="$(basename "$f" .diff)"; props="$(echo "$n" | grep -oE '^(C[0-9]+_)+' | tr '_' ' ')"
  out="$(tools/mutcheck.sh "$f" $props 2>&1 | grep -E "^MUTCHECK|^  (DISPROVED|UNPROVED)" | cut -c1-200 | tr '\n' ' ')"
  echo "$n :: $out"
done
