#!/usr/bin/env python3
"""usage: tools/prof.py <regex on fid> [seconds]  — times the SVN analysis of matching functions; dumps a traceback on timeout"""
import sys, time, threading, faulthandler, re, os
sys.path.insert(0, os.path.dirname(os.path.dirname(os.path.abspath(__file__))))
sys.setrecursionlimit(200000)
threading.stack_size(512 * 1024 * 1024)
faulthandler.dump_traceback_later(int(sys.argv[2]) if len(sys.argv) > 2 else 60, exit=True)


def main():
    from sa import facts
    from sa.program import Program
    from sa.svn import Engine
    d, info = facts.ensure_facts('default')
    P = Program(d)
    E = Engine(P)
    names = [f for f in P.by_id if re.search(sys.argv[1], f) and not P.by_id[f].test]
    for f in names:
        t = time.time()
        print('..', f, flush=True)
        a = E.analysis(P.by_id[f])
        dt = time.time() - t
        if dt > 0.3:
            print('%.1fs' % dt, f, flush=True)
    print('done')


th = threading.Thread(target=main)
th.start()
th.join()
