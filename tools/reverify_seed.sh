#!/bin/bash
# usage: tools/reverify_seed.sh <name> — re-confirm a stored seed (seeded/<name>) in a fresh scratch worktree of /repo HEAD; updates its meta.json; removes the worktree
n="$1"
cd "$(dirname "$0")/.."
wt=/tmp/wt/rv_$n
git -C /repo worktree add --detach "$wt" HEAD >/dev/null 2>&1 || exit 2
cp -a /repo/rust/target "$wt/rust/target"
mkdir -p "$wt/_out"
cp seeded/$n/patch.diff seeded/$n/demo.diff seeded/$n/meta.json "$wt/_out/"
[ -f seeded/$n/notes.md ] && cp seeded/$n/notes.md "$wt/_out/"
tools/verify_seed.sh "$wt" > /tmp/wt/$n.reverify.log 2>&1
python3 - <<PY
import json
v=json.load(open('$wt/_out/verify.json'))
p='seeded/$n/meta.json'
m=json.load(open(p))
mv=m.setdefault('my_verification',{})
mv.update({'demo_without_change':'passed' if v['demo_alone_rc']=='0' else 'rc=%s'%v['demo_alone_rc'],
           'demo_with_change':'failed (rc=%s)'%v['demo_with_patch_rc'] if v['demo_with_patch_rc'] not in ('0','NA') else 'rc=%s'%v['demo_with_patch_rc'],
           'existing_suite_with_change':'%s (rc=%s)'%(v['suite_passed'],v['suite_with_patch_rc']),
           'confirmed':v['confirmed'],'reverified_in':'fresh worktree at %s'%v['repo_head'][:8]})
json.dump(m,open(p,'w'),indent=1)
print('$n reverified: confirmed=%s demo_alone=%s demo_with_patch=%s suite=%s'%(v['confirmed'],v['demo_alone_rc'],v['demo_with_patch_rc'],v['suite_passed']))
PY
git -C /repo worktree remove --force "$wt"; rm -rf "$wt"
