#!/bin/bash
# usage: tools/mkwt.sh <name>   -> creates /tmp/wt/<name> (git worktree of /repo HEAD) with a warm copy of the build cache
set -e
n="$1"
mkdir -p /tmp/wt
git -C /repo worktree add --detach "/tmp/wt/$n" HEAD >/dev/null 2>&1
cp -a /repo/rust/target/debug "/tmp/wt/$n/rust/target-tmp" 2>/dev/null || true
mkdir -p "/tmp/wt/$n/rust/target"; mv "/tmp/wt/$n/rust/target-tmp" "/tmp/wt/$n/rust/target/debug"
cp /repo/rust/target/CACHEDIR.TAG "/tmp/wt/$n/rust/target/" 2>/dev/null || true
mkdir -p "/tmp/wt/$n/_out"
echo "/tmp/wt/$n"
