"""C15 — estimated-time network is well-formed, route-faithful and time-consistent (DESIGN §5 C15, §6)."""
import re
from sa.terms import mk, ZERO, ONE, TRUE, FALSE, show, walk, map_term, num
from .common import engine, inventory, analysis_or_fail

LEVEL = 'other'
MANIFEST = {
    'category': 'other',
    'engine': 'svn',
    'technique': ('symbolic value numbering of the mutation sites of the estimated-time network: every store of a forward link '
                  'is matched with a store of the reciprocal backward link on the same index terms (and vice versa), the seeds of '
                  'the cumulative time, the cumulative-to-duration conversion, the schedule-propagation stores and the origin guards '
                  'are compared with their formulas'),
    'text': ('Decides necessary conditions at each mutation site, NOT well-formedness of the whole graph: (1) wherever '
             'insert_est_time, update_times_forward or update_times_backward store X.idx_next{,_alt} := Y they also store '
             'Y.idx_prev{,_alt} := X on the same index terms, and vice versa; (2) the second start node, the running alternate and '
             'both events of every origin are seeded with the departure time (the simulation\'s start time), the arrive event at the '
             'origin\'s offset and the clear event one train length further, on the origin\'s link; (3) inserting an event turns the '
             'predecessor\'s cumulative time / distance into the duration / distance to the inserted event and the running alternate '
             'follows the inserted event; (4) the forward pass gives the first two nodes the departure time, a successor its '
             'predecessor\'s time + duration and an alternate successor its predecessor\'s time; (5) origins must have offset 0, be '
             'tail-relative and on a real link. Reachability of the end node on every walk, join detection, the net effect of the '
             'backward pass, finiteness and non-negativity of all times are not decided.'),
    'note': 'EST_IDX_NA = 0 doubles as "no link" and as the index of the first fake node; aggregate pushes of the start nodes are therefore not paired.',
}
EXPLANATION = 'Reciprocal link-store pairing and seed / duration / propagation terms of the estimated-time network construction.'
RULES = ['C15-1.reciprocal', 'C15-2.seed', 'C15-3.duration', 'C15-4.propagation', 'C15-5.origins', 'C15-6.events', 'C15-7.options', 'C15-8.swap', 'C15-9.helpers', 'C15-10.join', 'C15-11.backward']
ASSUMPTIONS = []


def fn(ctx, name):
    for fid in sorted(ctx.prog.by_id):
        if (fid == name or fid.endswith('::' + name)) and not ctx.prog.by_id[fid].test:
            return ctx.prog.by_id[fid]
    return None


def strip(t):
    """index normalisation: range(unwrap(try_into(x))) -> x ; unwrap(try_into(len(v))) stays a length"""
    while True:
        if t[0] == 'uf' and t[1] in ('range', 'unwrap', '::try_into', '::from', 'try_into', 'from') and len(t) == 3:
            t = t[2]; continue
        return t


def vlen(v):
    if v[0] in ('push', 'vinsert'):
        return mk('add', vlen(v[1]), ONE)
    if v[0] == 'upd':
        return vlen(v[1])
    return ('len', v)


def norm_idx(t):
    t = strip(t)
    if t[0] == 'sub' and t[2] == ONE and t[1][0] == 'len':
        l = vlen(t[1][1])
        if l[0] == 'add' and l[2] == ONE:
            return strip(l[1]) if l[1][0] != 'len' else l[1]
    if t[0] == 'len':
        return vlen(t[1])
    return t


def link_events(an, root):
    """forward / backward link stores of a function on the vector rooted at `root`: [(dir, kind, I, J, block, span)]"""
    out = []
    for bb, path, val, span in an.stores_log:
        if path[0] != root or len(path) < 3 or path[-1][0] != 'f' or path[-2][0] != 'idx':
            continue
        f = path[-1][1]
        if f in ('idx_next', 'idx_next_alt', 'idx_prev', 'idx_prev_alt') and len(path) == 3:
            out.append(('fwd' if 'next' in f else 'bwd', f, norm_idx(path[1][1]), norm_idx(val), bb, span))
    for c in an.calls:
        if re.sub(r'::<.*?>', '', c.callee).endswith('::push') and c.argvals and c.argvals[0] == ('ref', (root,), 'mut'):
            v = c.argvals[1]
            cur = None
            for bb, path, val, span in an.stores_log:
                if bb == c.block and path == (root,) and val[0] == 'push':
                    cur = val[1]
            if cur is None:
                continue
            at = norm_idx(('len', cur))
            flds = {}
            if v[0] == 'agg':
                flds = dict(v[2])
            elif v[0] == 'upd' and len(v[2]) == 1 and v[2][0][0] == 'f':
                flds = {v[2][0][1]: v[3]}
            for f in ('idx_prev', 'idx_prev_alt', 'idx_next', 'idx_next_alt'):
                if f in flds and flds[f] != ZERO:
                    out.append(('fwd' if 'next' in f else 'bwd', f + ' (pushed)', at, norm_idx(flds[f]), c.block, c.span))
    return out


def run(ctx):
    reciprocal(ctx)
    events(ctx)
    options(ctx)
    swaps(ctx)
    backward(ctx)
    seeds(ctx)
    duration(ctx)
    propagation(ctx)
    helpers(ctx)
    speed_join(ctx)


def reciprocal(ctx):
    R = 'C15-1.reciprocal'
    n = 0
    for name in ('insert_est_time', 'update_times_forward', 'update_times_backward'):
        b = fn(ctx, name)
        if b is None:
            ctx.unproved(R, name, 'anchor not found'); continue
        eng = engine(ctx)
        eng.all_paths.add(b.fid)
        an = eng.analysis(b)
        if an.exit_state is None:
            ctx.unproved(R, name, 'not analysable', ctx.where(b)); continue
        ev = link_events(an, ('obj', 1))
        fwd = [e for e in ev if e[0] == 'fwd']
        bwd = [e for e in ev if e[0] == 'bwd']
        cfg = inventory(ctx).cfg(b)
        be = set(cfg.back_edges()) if callable(getattr(cfg, 'back_edges', None)) else set()

        def fwd_reach(x):
            seen = set(); work = [x]
            while work:
                y = work.pop()
                if y in seen:
                    continue
                seen.add(y)
                for z in cfg.succ[y]:
                    if (y, z) not in be:
                        work.append(z)
            return seen
        reach = {}

        def same_path(b1, b2):
            for x in (b1, b2):
                if x not in reach:
                    reach[x] = fwd_reach(x)
            return b2 in reach[b1] or b1 in reach[b2]
        for e in fwd:
            n += 1
            partner = [x for x in bwd if x[2] == e[3] and x[3] == e[2] and same_path(e[4], x[4])]
            key = '%s|%s[%s] := %s' % (name, e[1], _s(an, e[2]), _s(an, e[3]))
            ctx.check(bool(partner), R, key, 'the forward link X.%s := Y is matched by a backward link Y.idx_prev{,_alt} := X' % e[1].split(' ')[0],
                      'no store [%s].idx_prev{,_alt} := %s in the same function (backward stores: %s)' % (_s(an, e[3]), _s(an, e[2]), [(_s(an, x[2]), _s(an, x[3])) for x in bwd][:4]), ctx.where(b, e[5]))
        for e in bwd:
            n += 1
            partner = [x for x in fwd if x[2] == e[3] and x[3] == e[2] and same_path(e[4], x[4])]
            key = '%s|%s[%s] := %s' % (name, e[1], _s(an, e[2]), _s(an, e[3]))
            ctx.check(bool(partner), R, key, 'the backward link Y.%s := X is matched by a forward link X.idx_next{,_alt} := Y' % e[1].split(' ')[0],
                      'no store [%s].idx_next{,_alt} := %s in the same function (forward stores: %s)' % (_s(an, e[3]), _s(an, e[2]), [(_s(an, x[2]), _s(an, x[3])) for x in fwd][:4]), ctx.where(b, e[5]))
    ctx.floor('link stores paired', n, 12)


def _s(an, t):
    s = show(t, an.names)
    s = re.sub(r'L\[bb\d+:', 'L[', s)
    s = s.replace('unwrap(BinaryHeap::pop(L[_13])).est_idx', 'POPPED').replace('unwrap(BinaryHeap::pop(L[_17])).est_idx', 'POPPED')
    return s[:70]


def seeds(ctx):
    R = 'C15-2.seed'
    b = fn(ctx, 'make_est_times')
    if b is None:
        ctx.unproved(R, 'make_est_times', 'anchor not found'); return
    an = analysis_or_fail(ctx, R, b)
    if an is None:
        return
    w = ctx.where(b)
    sim = ('val', b.params[0][0])
    depart = ('pre', (sim, ('f', 'state'), ('f', 'time')))
    length = ('pre', (sim, ('f', 'state'), ('f', 'length')))
    pushes = [c for c in an.calls if re.sub(r'::<.*?>', '', c.callee).endswith('::push') and 'EstTime' in c.callee and not c.in_loop and not c.pc]
    ok = len(pushes) >= 2 and pushes[0].argvals[1][0] == 'agg' and pushes[1].argvals[1][0] == 'agg'
    if ok:
        f0, f1 = dict(pushes[0].argvals[1][2]), dict(pushes[1].argvals[1][2])
        ok = f0.get('idx_next') == ONE and f1.get('idx_prev') == ZERO and f1.get('time_to_next') == depart and f0.get('time_to_next') == ZERO
    ctx.check(ok, R, 'make_est_times|start nodes', 'the graph starts with two linked fake nodes, the second carrying the departure time as its cumulative time',
              'first pushes: %s' % [show(c.argvals[1], an.names)[:160] for c in pushes[:2]], w)
    ins = [c for c in an.calls if c.targets and any(t.endswith('insert_est_time') for t in c.targets)]
    orig_ins = [c for c in ins if c.in_loop and len(c.pc) == 1 and c.pointees[3] is not None and c.pointees[3][0] == 'agg' and dict(c.pointees[3][2]).get('speed') == ZERO]
    if len(orig_ins) != 2:
        ctx.unproved(R, 'make_est_times|origins', 'expected two insert_est_time calls per origin (arrive, clear), found %d' % len(orig_ins), w); return
    ev = {}
    for c in orig_ins:
        f = dict(c.pointees[3][2])
        le = dict(f['link_event'][2]) if f.get('link_event', ('unit',))[0] == 'agg' else {}
        et = show(le.get('est_type', ('unit',)))
        ev['Arrive' if 'Arrive' in et else ('Clear' if 'Clear' in et else et)] = (c, f, le)
    if set(ev) != {'Arrive', 'Clear'}:
        ctx.bad(R, 'make_est_times|origins', 'the two origin events are not one Arrive and one Clear: %s' % sorted(ev), w); return
    off = None
    for x in walk(ev['Arrive'][1]['dist_to_next']):
        if x[0] == 'proj' and x[2] == ('f', 'offset'):
            off = x
    for kind, (c, f, le) in ev.items():
        wc = ctx.where(b, c.span)
        ctx.check(f.get('time_to_next') == depart, R, 'make_est_times|origin %s|time' % kind, 'the origin %s event carries the departure time as its cumulative time' % kind,
                  'time_to_next = %s' % show(f.get('time_to_next', ('unit',)), an.names)[:100], wc)
        want_d = off if kind == 'Arrive' else (mk('add', off, length) if off is not None else None)
        ctx.check(off is not None and f.get('dist_to_next') == want_d, R, 'make_est_times|origin %s|distance' % kind,
                  'the origin %s event lies at the origin offset%s' % (kind, '' if kind == 'Arrive' else ' + one train length'),
                  'dist_to_next = %s' % show(f.get('dist_to_next', ('unit',)), an.names)[:120], wc)
        li = le.get('link_idx')
        ctx.check(li is not None and li[0] == 'proj' and li[2] == ('f', 'link_idx') and off is not None and li[1] == off[1], R, 'make_est_times|origin %s|link' % kind,
                  'the origin %s event is on the origin\'s link' % kind, 'link_idx = %s' % (show(li, an.names)[:100] if li else None), wc)
        alt = c.pointees[1]
        fa = dict(alt[2]) if alt is not None and alt[0] == 'agg' else {}
        ctx.check(fa.get('time_to_next') == depart, R, 'make_est_times|origin %s|alternate' % kind, 'the running alternate handed to the insertion carries the departure time',
                  'est_alt.time_to_next = %s' % show(fa.get('time_to_next', ('unit',)), an.names)[:100], wc)
        if kind == 'Arrive':
            ctx.check(fa.get('idx_prev') == ONE, R, 'make_est_times|origin Arrive|hangs off start', 'every origin starts a fresh alternate chain at start node 1 (origins are alternatives, not a sequence)',
                      'est_alt = %s' % (show(alt, an.names)[:160] if alt is not None else None), wc)
    # ---- origin guards
    R5 = 'C15-5.origins'
    want = {'offset': False, 'tail': False, 'real': False}
    for g in an.guards:
        h = g.holds_term()
        s = show(h, an.names)
        if off is not None and h == mk('eq', off, ZERO):
            want['offset'] = True
        if 'is_front_end' in s and (h[0] == 'not' or g.outcome == '0'):
            want['tail'] = True
        if 'is_fake' in s and 'link_idx' in s and off is not None and any(x == off[1] for x in walk(h)):
            want['real'] = True
    for k, txt in (('offset', 'an origin must have offset 0'), ('tail', 'an origin must be relative to the tail end'), ('real', 'an origin must be on a real link')):
        ctx.check(want[k], R5, 'make_est_times|' + k, txt + ' (otherwise Err)', 'guard not found on the accepted paths', w)


def duration(ctx):
    R = 'C15-3.duration'
    b = fn(ctx, 'insert_est_time')
    if b is None:
        return
    an = engine(ctx).analysis(b)
    if an.exit_state is None:
        return
    w = ctx.where(b)
    ins = lambda f: ('pre', (('obj', 4), ('f', f)))
    for fld in ('time_to_next', 'dist_to_next'):
        st = [(path, val, span) for bb, path, val, span in an.stores_log if path[0] == ('obj', 1) and len(path) == 3 and path[-1] == ('f', fld)]
        ok = len(st) == 1
        if ok:
            path, val, span = st[0]
            ok = val[0] == 'sub' and val[1] == ins(fld) and val[2][0] == 'proj' and val[2][2] == ('f', fld) and strip(val[2][1][2]) == strip(path[1][1])
        ctx.check(ok, R, 'insert_est_time|prev.' + fld, 'inserting an event turns its predecessor\'s cumulative %s into the difference to the inserted event\'s cumulative value' % fld.split('_')[0],
                  'stores: %s' % [show(v, an.names)[:120] for _, v, _ in st], w)
        st2 = [(val, span) for bb, path, val, span in an.stores_log if path == (('obj', 2), ('f', fld))]
        ctx.check(len(st2) == 1 and st2[0][0] == ins(fld), R, 'insert_est_time|alt.' + fld, 'afterwards the running alternate carries the inserted event\'s cumulative %s' % fld.split('_')[0],
                  'stores: %s' % [show(v, an.names)[:80] for v, _ in st2], w)


def propagation(ctx):
    R = 'C15-4.propagation'
    b = fn(ctx, 'update_times_forward')
    if b is None:
        return
    an = engine(ctx).analysis(b)
    if an.exit_state is None:
        return
    w = ctx.where(b)
    dep = ('pre', (('val', b.params[1][0]),))
    st = [(bb, path, val, span) for bb, path, val, span in an.stores_log if path[0] == ('obj', 1) and len(path) == 3 and path[-1] == ('f', 'time_sched')]
    first = [x for x in st if x[1][1] in (('idx', ZERO), ('idx', ONE)) and x[2] == dep]
    ctx.check(len(first) == 2, R, 'update_times_forward|start', 'the first two nodes are scheduled at the departure time', 'stores: %s' % [(show(('pre', p), an.names)[:40], show(v, an.names)[:40]) for _, p, v, _ in st][:4], w)
    tsn = fn(ctx, 'time_sched_next')
    if tsn is not None:
        ta = engine(ctx).analysis(tsn)
        s = lambda f: ('pre', (('obj', 1), ('f', f)))
        ctx.check(ta.exit_state is not None and ta.ret() == mk('add', s('time_sched'), s('time_to_next')), R, 'EstTime::time_sched_next', 'a node\'s successor time is its scheduled time + its duration',
                  'returns %s' % (show(ta.ret(), ta.names)[:120] if ta.exit_state is not None else None), ctx.where(tsn))
    # alternate successor gets the predecessor's time; primary successor gets time_sched + time_to_next of the predecessor
    alt = [x for x in st if any(y[0] == 'proj' and y[2] == ('f', 'idx_next_alt') for y in walk(x[1][1][1])) and x[2][0] == 'proj' and x[2][2] == ('f', 'time_sched')]
    ok_alt = False
    for bb, path, val, span in alt:
        src = strip(path[1][1])
        ok_alt = ok_alt or (src[0] == 'proj' and src[2] == ('f', 'idx_next_alt') and src[1] == val[1])
    ctx.check(ok_alt, R, 'update_times_forward|alternate', 'an alternate successor is scheduled at its predecessor\'s time', 'stores: %s' % [show(v, an.names)[:100] for _, _, v, _ in alt][:2], w)
    def reads(t, fld):
        """index term I if t is (a γ over) V[I].fld with V the node vector, possibly with other nodes' fields updated"""
        if t[0] == 'gamma':
            a_, b_ = reads(t[2], fld), reads(t[3], fld)
            return a_ if a_ is not None and a_ == b_ else None
        if t[0] == 'proj' and t[2] == ('f', fld) and t[1][0] == 'elem':
            return strip(t[1][2])
        return None
    prim = [x for x in st if x[2][0] == 'add']
    ok_p = False
    for bb, path, val, span in prim:
        ia, ib = reads(val[1], 'time_sched'), reads(val[2], 'time_to_next')
        ok_p = ok_p or (ia is not None and ia == ib and strip(path[1][1]) != ia)
    ctx.check(ok_p, R, 'update_times_forward|primary', 'a primary successor is scheduled at its predecessor\'s time + duration', 'stores: %s' % [show(v, an.names)[:160] for _, _, v, _ in prim][:2], w)


def events(ctx):
    """C15-6.events: the event a simulated movement contributes when the front (or the tail) crosses a link boundary between two
    recorded states: constant acceleration a = Δv/Δt over the step, speed² = v_i² − a·2Δx at the boundary, time = t_i − 2Δx /
    (v_i + speed), position = the boundary; a Clear event names the link the tail leaves, an Arrive event the link the front
    enters (the point just passed)"""
    from sa.dsl import T
    from .common import prove
    R = 'C15-6.events'
    b = fn(ctx, 'update_est_times_add')
    if b is None:
        ctx.unproved(R, 'update_est_times_add', 'anchor not found'); return
    eng = engine(ctx)
    eng.all_paths.add(b.fid)
    an = eng.analysis(b)
    if an.exit_state is None or len(b.params) != 4:
        ctx.unproved(R, 'update_est_times_add', 'not analysable', ctx.where(b)); return
    ps = [c for c in an.calls if re.sub(r'::<.*?>', '', c.callee).endswith('::push') and c.argvals and c.argvals[0] == ('ref', (('obj', b.params[0][0]),), 'mut')]
    if len(ps) != 1 or ps[0].argvals[1][0] != 'agg':
        ctx.unproved(R, 'update_est_times_add', 'expected exactly one event push, found %d' % len(ps), ctx.where(b)); return
    c = ps[0]
    w = ctx.where(b, c.span)
    f = dict(c.argvals[1][2])
    x = f.get('dist_to_next')
    mv = ('obj', b.params[1][0]); lp = ('obj', b.params[2][0])
    # one recorded step can pass several boundaries (a link as long as the train: front and tail cross together): ALL events whose
    # position the step has reached are emitted in that step — the push sits in an inner loop that repeats while the next event
    # position is not beyond the state reached, inside the loop over the recorded states
    cfg_ = inventory(ctx).cfg(b)
    depth = sum(1 for h, body in cfg_.loops.items() if c.block in body)
    conds = [cnd for cnd, o in c.pc if cnd[0] == 'le' and o != '0' and cnd[1][0] == 'loopvar' and cnd[2][0] == 'pre' and cnd[2][1][0] == mv and cnd[2][1][-1] == ('f', 'offset')]
    inner_ok = False
    for cnd in conds:
        H_ = cnd[1][1]
        inner_ok = inner_ok or (H_ in cfg_.loops and c.block in cfg_.loops[H_] and bool(an.loop_back.get(H_)))
    ctx.check(depth >= 2 and inner_ok, R, 'update_est_times_add|all events of a step', 'events are emitted in a loop that repeats while the next event position has been reached (nested in the loop over the states)',
              'the event push is nested in %d loop(s); repeat conditions on a loop-carried next position: %d' % (depth, len(conds)), w)
    # the two movement states: i and i − 1
    cur = None
    for y in walk(f.get('speed', ('unit',))):
        if y[0] == 'pre' and y[1][0] == mv and y[1][-1] == ('f', 'speed') and y[1][1][0] == 'idx' and y[1][1][1][0] == 'iterpos':
            cur = y[1][1][1]
    if cur is None or x is None:
        ctx.unproved(R, 'update_est_times_add', 'event speed does not read movement[i]', w); return
    m = lambda i, fld: T(('pre', (mv, ('idx', i), ('f', fld))))
    prv = mk('sub', cur, ONE)
    dx2 = (m(cur, 'offset') - T(x)) * 2
    acc = (m(cur, 'speed') - m(prv, 'speed')) / (m(cur, 'time') - m(prv, 'time'))
    sp = T(f['speed'])
    prove(ctx, R, 'event speed', an, 'eq', sp * sp, m(cur, 'speed') * m(cur, 'speed') - acc * dx2, assume=[], where=w,
          note='speed² at the boundary = v_i² − (Δv/Δt)·2Δx (constant acceleration over the recorded step)')
    prove(ctx, R, 'event time', an, 'eq', T(f['time_to_next']), m(cur, 'time') - dx2 / (m(cur, 'speed') + sp), assume=[], where=w,
          note='time at the boundary = t_i − 2Δx/(v_i + speed)')
    ok = x[0] == 'loopvar' and x[2][0][0] == 'local'
    ctx.check(ok, R, 'event position', 'the event lies at the next boundary offset (the running minimum of front boundary and tail boundary + length)', 'dist_to_next = %s' % show(x, an.names)[:100], w)
    le = f.get('link_event')
    ok = le is not None and le[0] == 'gamma' and le[2][0] == 'agg' and le[3][0] == 'agg'
    if ok:
        length = ('pre', (('val', b.params[3][0]),))
        cnd = le[1]
        clear, arrive = dict(le[2][2]), dict(le[3][2])
        ok = 'Clear' in show(clear['est_type']) and 'Arrive' in show(arrive['est_type']) and cnd[0] == 'lt' and any(y == length for y in walk(cnd[1]))

        def pt_idx(t):
            return t[1][1][1] if t[0] == 'pre' and t[1][0] == lp and t[1][1][0] == 'idx' and t[1][-1] == ('f', 'link_idx') else None
        ib, if_ = pt_idx(clear['link_idx']), pt_idx(arrive['link_idx'])
        # the tail boundary index appears on the left of the test (offset + length), the front boundary on the right
        lb = [y[1][1][1] for y in walk(cnd[1]) if y[0] == 'pre' and y[1][0] == lp and y[1][-1] == ('f', 'offset')]
        lf = [y[1][1][1] for y in walk(cnd[2]) if y[0] == 'pre' and y[1][0] == lp and y[1][-1] == ('f', 'offset')]
        from .speedprofile import simp_idx
        ok = ok and ib is not None and if_ is not None and len(lb) == 1 and len(lf) == 1 and simp_idx(ib) == lb[0] and simp_idx(if_) == lf[0]
    ctx.check(ok, R, 'event link', 'tail boundary first -> Clear event of the link the tail leaves; otherwise Arrive event of the link whose start the front passes',
              'link_event = %s' % (show(le, an.names)[:300] if le is not None else None), w)


def options(ctx):
    """C15-7.options: the set of links a route may use is collected backwards from the destinations: every link taken off the
    work list is recorded once, and — unless it is an origin — BOTH of its predecessor references (primary and alternate) are
    put on the work list when real; a fake link in the set and "no origin reached" are error values"""
    R = 'C15-7.options'
    b = fn(ctx, 'get_link_idx_options')
    if b is None:
        ctx.unproved(R, 'get_link_idx_options', 'anchor not found'); return
    an = analysis_or_fail(ctx, R, b)
    if an is None:
        return
    w = ctx.where(b)
    links = ('obj', b.params[2][0])
    pushes = [c for c in an.calls if re.sub(r'::<.*?>', '', c.callee).endswith('Vec::push') or re.sub(r'::<.*?>', '', c.callee).endswith('::push')]
    pops = [c for c in an.calls if re.sub(r'::<.*?>', '', c.callee).endswith('::pop')]
    if len(pops) != 1 or pops[0].result is None:
        ctx.unproved(R, 'get_link_idx_options', 'expected one pop() of the work list, found %d' % len(pops), w); return
    popped = None
    seen = {}
    for c in pushes:
        v = c.argvals[1] if len(c.argvals) > 1 else None
        if v is None:
            continue
        for fld in ('idx_prev', 'idx_prev_alt'):
            refs = [x for x in walk(v) if x[0] == 'pre' and x[1][0] == links and x[1][-1] == ('f', fld)]
            if refs and fld not in seen:
                seen[fld] = (c, refs[0])
    for fld, txt in (('idx_prev', 'primary'), ('idx_prev_alt', 'alternate')):
        if fld not in seen:
            ctx.bad(R, 'get_link_idx_options|' + fld, 'the %s predecessor of a processed link is never put on the work list: routes through it are not considered' % txt, w); continue
        c, ref = seen[fld]
        # of the link just popped
        of_popped = any(y[0] == 'uf' and y[1].endswith('::pop') for y in walk(ref[1][1][1])) if ref[1][1][0] == 'idx' else False
        # only real references; only when the popped link was not an origin; not otherwise conditioned
        conds = [show(cnd, an.names) for cnd, o in c.pc]
        extra = [x for x in conds if not ('is_fake' in x or 'contains' in x or 'maybe(pos(' in x or re.search(r'L\[bb\d+:_\d+\] == L\[bb\d+:_\d+\]', x) or 'pop(' in x[:30])]
        ctx.check(of_popped and not extra, R, 'get_link_idx_options|' + fld, 'the %s predecessor of the link just taken off the work list is added whenever it is real and the link is not an origin' % txt,
                  'pushed %s under %s' % (show(c.argvals[1], an.names)[:120], extra[:3]), ctx.where(b, c.span))
    ins = [c for c in an.calls if re.sub(r'::<.*?>', '', c.callee).endswith('::insert') and 'HashSet' in c.callee]
    ok = len(ins) == 1 and any(y[0] == 'uf' and y[1].endswith('::pop') for y in walk(ins[0].argvals[1])) and any('contains' in show(cnd, an.names) and o == '0' for cnd, o in ins[0].pc)
    ctx.check(ok, R, 'get_link_idx_options|recorded', 'every link taken off the work list is recorded in the option set (once)', '%d insert calls' % len(ins), w)
    gs = [show(g.holds_term(), an.names) for g in an.guards]
    ctx.check(any('contains' in g_ and 'LinkIdx{idx: 0}' in g_ and g_.startswith('!') for g_ in gs), R, 'get_link_idx_options|fake', 'a fake link in the option set is an error value', 'guards: %s' % gs[:4], w)
    ctx.check(any(re.fullmatch(r'\(L\[bb\d+:_\d+\] != 0\)', g_) for g_ in gs), R, 'get_link_idx_options|no origin', 'reaching no origin is an error value', 'guards: %s' % gs[:4], w)
    r = an.ret()
    ok = r[0] == 'ok' and r[1][0] == 'tuple' and r[1][1][0] == 'loopvar'
    ctx.check(ok, R, 'get_link_idx_options|result', 'the returned set is the set built by the search', 'returns %s' % show(r, an.names)[:120], w)


def backward(ctx):
    """C15-11.backward: the chain walk of the backward pass.  A chain popped from the queue carries its backward shift (time_sub):
    every node of the chain is moved by that shift, the walk follows the PRIMARY predecessor, an alternate predecessor met on the
    way is queued with its own slack (its scheduled time minus the time of the node it joins), and a chain that stops at a split
    is queued again with the SAME shift it was popped with."""
    R = 'C15-11.backward'
    b = fn(ctx, 'update_times_backward')
    if b is None:
        ctx.unproved(R, 'update_times_backward', 'anchor not found'); return
    eng = engine(ctx)
    eng.all_paths.add(b.fid)
    an = eng.analysis(b)
    if an.exit_state is None:
        ctx.unproved(R, 'update_times_backward', 'not analysable', ctx.where(b)); return
    w = ctx.where(b)
    news = [c for c in an.calls if c.targets and any(t.endswith('EstTimePrev::new') for t in c.targets) and c.in_loop and c.argvals and len(c.argvals) == 3]
    if len(news) != 2:
        ctx.unproved(R, 'update_times_backward|queue entries', 'expected two in-loop EstTimePrev::new sites (alternate predecessor, re-queued chain), found %d' % len(news), w); return
    popped = lambda t: t[0] == 'proj' and t[2] == ('f', 'time_sub') and 'BinaryHeap::pop' in repr(t[1])
    alt = [c for c in news if c.argvals[2][0] in ('proj', 'pre') and repr(c.argvals[2]).rstrip(')').endswith("'idx_prev_alt'")]
    req = [c for c in news if c not in alt]
    if len(alt) != 1 or len(req) != 1:
        ctx.unproved(R, 'update_times_backward|queue entries', 'could not tell the alternate-predecessor entry from the re-queued chain', w); return
    a, r = alt[0], req[0]
    t0, t1, t2 = a.argvals
    oka = t1[0] == 'sub' and t1[2] == t0 and any(x == t2 for x in walk(t1[1])) and repr(t1[1]).rstrip(')').endswith("'time_sched'") and repr(t0).rstrip(')').endswith("'time_sched'")
    ctx.check(oka, R, 'update_times_backward|alternate slack', 'an alternate predecessor is queued at the time of the node it joins, with its own slack (its time − that time)',
              'queued with (%s, %s)' % (show(t0, an.names)[:100], show(t1, an.names)[:140]), ctx.where(b, a.span))
    ctx.check(popped(r.argvals[1]), R, 'update_times_backward|re-queued shift', 'a chain that stops at a split is queued again with the shift it was popped with',
              're-queued with shift %s' % show(r.argvals[1], an.names)[:140], ctx.where(b, r.span))
    cur = r.argvals[2]
    if cur[0] != 'loopvar':
        ctx.unproved(R, 'update_times_backward|walk', 'the re-queued node is not the walk cursor: %s' % show(cur, an.names)[:100], w); return
    H = cur[1]
    backs = an.loop_back.get(H, [])
    okp = bool(backs)
    seen = ''
    for st in backs:
        nv = an.load(cur[2], st)
        seen = show(nv, an.names)[:140]
        lv = []
        def _leaves(t):
            if t[0] == 'gamma':
                _leaves(t[2]); _leaves(t[3])
            else:
                lv.append(t)
        _leaves(nv)
        okp = okp and bool(lv) and all(x[0] == 'proj' and x[2] == ('f', 'idx_prev') and any(y == cur for y in walk(x[1])) for x in lv)
    ctx.check(okp, R, 'update_times_backward|walk', 'the walk moves to idx_prev (the PRIMARY predecessor) of the node just shifted', 'the cursor becomes %s' % seen, w)
    # every node of the chain is moved by the popped shift
    st_ = [(bb, v, span) for bb, path, v, span in an.stores_log if path and path[-1] == ('f', 'time_sched') and v[0] == 'sub' and popped(v[2])]
    ctx.check(bool(st_), R, 'update_times_backward|shift', 'each node of the chain is moved back by the shift the chain was popped with',
              'no store time_sched := time_sched − popped time_sub', w)


def swaps(ctx):
    """C15-8.swap: when the backward pass re-links a split (the base node's primary and alternate successor change roles), the
    duration and the distance to the successor are exchanged together with the links: each of the two nodes receives the value
    the OTHER node had before the exchange (a true swap, not a copy)"""
    from .speedprofile import vec_norm
    R = 'C15-8.swap'
    b = fn(ctx, 'update_times_backward')
    if b is None:
        ctx.unproved(R, 'update_times_backward', 'anchor not found'); return
    eng = engine(ctx)
    eng.all_paths.add(b.fid)
    an = eng.analysis(b)
    if an.exit_state is None:
        ctx.unproved(R, 'update_times_backward', 'not analysable', ctx.where(b)); return
    w = ctx.where(b)
    for fld in ('time_to_next', 'dist_to_next'):
        st = [(bb, path, val, span) for bb, path, val, span in an.stores_log if path[0] == ('obj', 1) and len(path) == 3 and path[-1] == ('f', fld)]
        if len(st) != 2:
            ctx.bad(R, 'update_times_backward|' + fld, 'expected the two stores of an exchange of %s, found %d' % (fld, len(st)), w); continue
        (b1, p1, v1, s1), (b2, p2, v2, s2) = st
        A, B = p1[1][1], p2[1][1]
        same = mk('eq', strip(A), strip(B))

        def distinct(t):
            # the two nodes of the exchange are different nodes
            def f(x):
                if x[0] == 'eq' and {strip(x[1]), strip(x[2])} == {strip(A), strip(B)}:
                    return FALSE
                return x
            for _ in range(3):
                t2 = map_term(t, f)
                if t2 == t:
                    break
                t = t2
            return t
        n1, n2 = distinct(vec_norm(an, v1)), distinct(vec_norm(an, v2))

        def reads(t):
            # (index, field) of a plain element read V[i].fld of the (loop-carried) node vector
            if t[0] == 'proj' and t[2] == ('f', fld) and t[1][0] == 'elem':
                return strip(t[1][2])
            if t[0] == 'pre' and t[1][-1] == ('f', fld) and t[1][-2][0] == 'idx':
                return strip(t[1][-2][1])
            return None
        r1, r2 = reads(n1), reads(n2)
        ok = r1 is not None and r2 is not None and r1 == strip(B) and r2 == strip(A)
        ctx.check(ok, R, 'update_times_backward|' + fld, 'the two re-linked nodes exchange their %s (each gets the other\'s previous value)' % fld,
                  'node %s receives the previous value of node %s, node %s that of node %s' % (_s(an, strip(A)), _s(an, r1) if r1 is not None else show(n1, an.names)[:80],
                                                                                              _s(an, strip(B)), _s(an, r2) if r2 is not None else show(n2, an.names)[:80]), ctx.where(b, s1))


def helpers(ctx):
    """C15-9.helpers: small routines the construction and the two time passes rely on.
    * the forward pass is a shortest-path search: its heap entry orders by time REVERSED (earliest first), ties by node index;
      the backward pass pops the latest first: natural order on (time_prev, time_sub, node);
    * the movement record of one free run starts with the state before the first step and gets exactly one entry per step, each a
      field-by-field copy (time, offset, speed) of the train state;
    * a route is closed (`finish`) exactly when its last link is one of the destinations (plain loop over all of them)."""
    R = 'C15-9.helpers'
    prog = ctx.prog
    eng = engine(ctx)
    from .common import plain_iteration
    nrm = lambda c: re.sub(r'::<.*?>', '', c.callee)
    # --- heap orders
    b = prog.by_id.get('<EstTimeNext as Ord>::cmp')
    if b is None:
        ctx.unproved(R, 'EstTimeNext::cmp', 'anchor not found')
    else:
        an = analysis_or_fail(ctx, R, b)
        if an is not None:
            pcs = [c for c in an.calls if nrm(c).endswith('partial_cmp')]
            A1, A2 = (('obj', 1),), (('obj', 2),)
            ok = len(pcs) == 1 and not pcs[0].pc and pcs[0].argvals[0] == ('ref', A2 + (('f', 'time_next'),), 'shr') and pcs[0].argvals[1] == ('ref', A1 + (('f', 'time_next'),), 'shr')
            r = an.ret()
            ok = ok and r[0] == 'uf' and r[1].endswith('then_with') and r[2][0] == 'uf' and r[2][1] == 'unwrap'
            ctx.check(ok, R, 'EstTimeNext::cmp|time reversed', 'entries order by time_next reversed (other vs self): the heap yields the earliest time first',
                      'cmp returns %s' % show(r, an.names)[:200], ctx.where(b))
            cl = prog.closures_of(b.fid)
            okc = False
            txt = None
            if len(cl) == 1:
                ca = eng.analysis(cl[0])
                if ca.exit_state is not None:
                    rr = ca.ret(); txt = show(rr, ca.names)
                    okc = rr[0] == 'uf' and rr[1].endswith('cmp') and len(rr) == 4 and 'est_idx' in repr(rr[2]) and 'est_idx' in repr(rr[3]) \
                        and "('f', '#0')" in repr(rr[2]) and "('f', '#1')" in repr(rr[3])
                    # capture #0 must be `other`, #1 `self`: read the closure construction in cmp
            ctx.check(okc, R, 'EstTimeNext::cmp|tie', 'ties are broken by node index, with the same orientation', 'tie-break is %s' % txt, ctx.where(b))
    b = prog.by_id.get('<EstTimePrev as Ord>::cmp')
    if b is None:
        ctx.unproved(R, 'EstTimePrev::cmp', 'anchor not found')
    else:
        an = analysis_or_fail(ctx, R, b)
        if an is not None:
            r = an.ret()
            s_ = show(r, an.names)
            first = re.match(r'Γ\(discr\(::partial_cmp\(self\.time_prev, other\.time_prev\)\)\)', s_)
            order = [m.start() for m in (re.search(r'partial_cmp\(self\.time_prev, other\.time_prev\)', s_), re.search(r'partial_cmp\(self\.time_sub, other\.time_sub\)', s_),
                                         re.search(r'partial_cmp\(self\.est_idx, other\.est_idx\)', s_)) if m]
            ok = bool(first) and len(order) == 3 and order == sorted(order) and 'partial_cmp(other.' not in s_
            ctx.check(ok, R, 'EstTimePrev::cmp|natural order', 'entries order by (time_prev, time_sub, node), self vs other: the heap yields the latest time first',
                      'cmp returns %s' % s_[:300], ctx.where(b))
    # --- movement record
    b = prog.by_id.get('SimpleState::from_train_state')
    if b is None:
        ctx.unproved(R, 'SimpleState::from_train_state', 'anchor not found')
    else:
        an = analysis_or_fail(ctx, R, b)
        if an is not None:
            r = an.ret()
            f = dict(r[2]) if r[0] == 'agg' else {}
            ok = bool(f) and all(f.get(k) == ('pre', (('obj', 1), ('f', k))) for k in ('time', 'offset', 'speed')) and set(f) == {'time', 'offset', 'speed'}
            ctx.check(ok, R, 'SimpleState::from_train_state', 'time, offset and speed are copied from the same-named fields of the train state',
                      'returns %s' % show(r, an.names)[:200], ctx.where(b))
    b = prog.by_id.get('SavedSim::update_movement')
    if b is None:
        ctx.unproved(R, 'SavedSim::update_movement', 'anchor not found')
    else:
        an = analysis_or_fail(ctx, R, b)
        if an is not None:
            MV = ('ref', (('obj', 2),), 'mut')
            clears = [c for c in an.calls if nrm(c).endswith('::clear') and c.argvals and c.argvals[0] == MV]
            pushes = [c for c in an.calls if nrm(c).endswith('::push') and c.argvals and c.argvals[0] == MV]
            steps = [c for c in an.calls if nrm(c).endswith('SpeedLimitTrainSim::step')]
            cfg = inventory(ctx).cfg(b)
            p0 = [c for c in pushes if not c.in_loop]
            p1 = [c for c in pushes if c.in_loop]
            def is_state_copy(v):
                f = dict(v[2]) if v[0] == 'agg' else {}
                return bool(f) and all(k in f for k in ('time', 'offset', 'speed')) and all('train_sim' in repr(f[k]) and "('f', 'state')" in repr(f[k]) and "('f', '%s')" % k in repr(f[k]) for k in ('time', 'offset', 'speed'))
            ok1 = len(clears) == 1 and not clears[0].pc and len(p0) == 1 and not p0[0].pc and cfg.dominates(clears[0].block, p0[0].block) and is_state_copy(p0[0].argvals[1])
            ctx.check(ok1, R, 'SavedSim::update_movement|initial entry', 'the record is cleared and starts with the state before the first step',
                      'clears: %d, pushes before the loop: %s' % (len(clears), [show(c.argvals[1], an.names)[:100] for c in p0]), ctx.where(b))
            ok2 = len(steps) == 1 and steps[0].in_loop and len(p1) == 1 and p1[0].pc == steps[0].pc and cfg.dominates(steps[0].block, p1[0].block) and is_state_copy(p1[0].argvals[1])
            ctx.check(ok2, R, 'SavedSim::update_movement|one entry per step', 'inside the loop each step is followed by exactly one entry: the state after that step',
                      'steps in loop: %d, pushes in loop: %d' % (len(steps), len(p1)), ctx.where(b))
    # --- destinations
    b = prog.by_id.get('SavedSim::check_dests')
    if b is None:
        ctx.unproved(R, 'SavedSim::check_dests', 'anchor not found')
    else:
        eng.all_paths.add(b.fid)
        an = analysis_or_fail(ctx, R, b)
        if an is not None:
            fin = [c for c in an.calls if nrm(c).endswith('SpeedLimitTrainSim::finish')]
            ok = len(fin) == 1 and len(fin[0].pc) == 2 and plain_iteration(fin[0].pc[0][0]) and fin[0].pc[0][1] == '1' and fin[0].pc[1][1] != '0'
            cond = fin[0].pc[1][0] if ok else None
            s_ = show(cond, an.names) if cond is not None else ''
            def is_dest_link(t):
                return t[0] == 'pre' and t[1][0] == ('obj', 2) and t[1][-1] == ('f', 'link_idx') and any(c[0] == 'idx' for c in t[1])
            ok = ok and cond[0] == 'eq' and ((is_dest_link(cond[1]) and 'link_points' in repr(cond[2]) and 'link_idx' in repr(cond[2]))
                                             or (is_dest_link(cond[2]) and 'link_points' in repr(cond[1]) and 'link_idx' in repr(cond[1])))
            ctx.check(ok, R, 'SavedSim::check_dests', 'the route is closed exactly when its last link equals the link of one of the destinations (all are tried)',
                      'finish is called under %s' % ([(show(c, an.names)[:120], o) for c, o in fin[0].pc] if fin else 'no call'), ctx.where(b))


def speed_join(ctx):
    """C15-10.join: joining a new route into the network at a node reached with (nearly) the same speed.
    * the node joined is the space-matched candidate with the smallest speed difference below the threshold (running minimum
      over ALL join paths, candidate index updated together with it);
    * a node with a free primary predecessor takes the route's last node as that predecessor, and that node points forward to it
      (reciprocal pair, and the link duration / distance become the remainder of the added step);
    * a node with a free alternate predecessor gets a new fake node there, pointing forward to it (reciprocal pair; the new node's
      index is the length of the list before the push), and the join continues at that fake node;
    * otherwise the join continues along the ALTERNATE predecessor (the primary one belongs to another route)."""
    R = 'C15-10.join'
    b = fn(ctx, 'perform_speed_join')
    if b is None:
        ctx.unproved(R, 'perform_speed_join', 'anchor not found'); return
    eng = engine(ctx)
    eng.all_paths.add(b.fid)
    an = analysis_or_fail(ctx, R, b)
    if an is None:
        return
    w = ctx.where(b)
    from .common import plain_iteration
    ET = (('obj', 2),)
    # --- the two loops: selection (iterates the join paths), joining (carries est_times)
    Hs = list(an.loop_entry)
    Hj = [h for h in Hs if ET in (an.havoc.get(h) or ())]
    Hsel = [h for h in Hs if h not in Hj]
    if len(Hj) != 1 or len(Hsel) != 1:
        ctx.unproved(R, 'perform_speed_join', 'expected a selection loop and a joining loop, found %d loops (%d carrying est_times)' % (len(Hs), len(Hj)), w); return
    Hj, Hsel = Hj[0], Hsel[0]
    # carried locals of the selection loop with a defined entry value
    carried = []
    for k in (an.havoc.get(Hsel) or ()):
        e = an.load(k, an.loop_entry[Hsel])
        if e[0] != 'undef' and k[0][0] == 'local' and len(k) == 1:
            carried.append((k, e, [an.load(k, s_) for s_ in an.loop_back.get(Hsel, [])]))
    best = [x for x in carried if x[1][0] == 'num' and x[1] != ZERO]
    cand = [x for x in carried if x[1] == ZERO]
    oks = len(best) == 1 and len(cand) == 1 and len(best[0][2]) == 1 and len(cand[0][2]) == 1
    txt = ''
    if oks:
        Lb = ('loopvar', Hsel, best[0][0]); Lc = ('loopvar', Hsel, cand[0][0])
        vb, vc = best[0][2][0], cand[0][2][0]
        # γ(space match ? γ(diff < best ? diff : best) : best)   and the same decisions for the candidate
        oks = vb[0] == 'gamma' and vc[0] == 'gamma' and vb[1] == vc[1] and vb[3] == Lb and vc[3] == Lc and vb[2][0] == 'gamma' and vc[2][0] == 'gamma' \
            and vb[2][1] == vc[2][1] and vb[2][1][0] == 'lt' and vb[2][1][2] == Lb and vb[2][2] == vb[2][1][1] and vb[2][3] == Lb and vc[2][3] == Lc \
            and 'speed' in repr(vb[2][2]) and vb[2][2][0] == 'abs' and "('f', 'link_idx_match')" in repr(vb[1])
        txt = 'best: %s ; candidate: %s' % (show(vb, an.names)[:200], show(vc, an.names)[:200])
        # candidate value = the est index of the same join path whose speed was compared
        if oks:
            okc = vc[2][2][0] == 'pre' and vc[2][2][1][0] == ('obj', 1) and any(c_[0] == 'idx' for c_ in vc[2][2][1]) and repr(vc[2][2]) in repr(vb[2][2])
            oks = oks and okc
    ctx.check(oks, R, 'perform_speed_join|selection', 'the candidate is the space-matched join path with the smallest speed difference so far, updated together with that minimum',
              'selection loop carries %s' % (txt or [(show(e, an.names)[:30], [show(v, an.names)[:80] for v in bs]) for k, e, bs in carried]), w)
    thr = best[0][1] if best else None
    # --- joining loop
    Lj = None
    for k in (an.havoc.get(Hj) or ()):
        e = an.load(k, an.loop_entry[Hj])
        if cand and e == ('loopvar', Hsel, cand[0][0]):
            Lj = ('loopvar', Hj, k); bj = [an.load(k, s_) for s_ in an.loop_back.get(Hj, [])]
    if Lj is None:
        ctx.unproved(R, 'perform_speed_join|joining loop', 'the joining loop does not start from the selected candidate', w); return
    V = ('loopvar', Hj, ET)
    def node(f_):
        return ('proj', ('elem', V, ('uf', 'range', ('uf', 'unwrap', ('uf', '::try_into', Lj)))), ('f', f_))
    newidx = ('uf', 'unwrap', ('uf', '::try_into', ('len', V)))
    want_back = mk('gamma', mk('eq', node('idx_prev_alt'), ZERO), newidx, node('idx_prev_alt'))
    ctx.check(len(bj) == 1 and bj[0] == want_back, R, 'perform_speed_join|continue',
              'when both predecessors are taken the join moves on to the ALTERNATE predecessor; when the alternate is free, to the fake node attached there',
              'the join node becomes %s' % [show(v, an.names)[:260] for v in bj], w)
    # stores
    st = {}
    for bb, path, val, span in an.stores_log:
        if path and path[0] == ('obj', 2) and len(path) == 3 and path[1][0] == 'idx' and path[2][0] == 'f':
            st.setdefault(path[2][1], []).append((path[1][1], val, span))
    jidx = ('uf', 'range', ('uf', 'unwrap', ('uf', '::try_into', Lj)))
    last = ('uf', 'unwrap', ('uf', '::try_into', mk('sub', ('len', ('pre', ET)), ONE)))
    lastidx = ('uf', 'range', ('uf', 'unwrap', ('uf', '::try_into', last)))
    p1 = st.get('idx_prev', []); n1 = st.get('idx_next', [])
    ok1 = len(p1) == 1 and p1[0][0] == jidx and p1[0][1] == last and len(n1) == 1 and n1[0][0] == lastidx and n1[0][1] == Lj
    ctx.check(ok1, R, 'perform_speed_join|primary pair', 'join.idx_prev = last node of the route and last.idx_next = join (reciprocal)',
              'idx_prev stores %s ; idx_next stores %s' % ([(show(a, an.names)[-50:], show(v, an.names)[:60]) for a, v, _ in p1], [(show(a, an.names)[-60:], show(v, an.names)[:40]) for a, v, _ in n1]), w)
    pa = st.get('idx_prev_alt', [])
    ps = [c for c in an.calls if '::push' in c.callee and c.argvals and c.argvals[0] == ('ref', ET, 'mut')]
    ok2 = len(pa) == 1 and pa[0][0] == jidx and pa[0][1] == newidx and len(ps) == 1 and ps[0].argvals[1][0] == 'agg' and dict(ps[0].argvals[1][2]).get('idx_next') == Lj
    if ok2:
        f_ = dict(ps[0].argvals[1][2])
        ok2 = all(f_.get(k) == ZERO for k in ('idx_prev', 'idx_prev_alt', 'idx_next_alt'))
    ctx.check(ok2, R, 'perform_speed_join|alternate pair', 'join.idx_prev_alt = index of the new fake node (the list length before the push) and that node points forward to join only',
              'idx_prev_alt stores %s ; pushes %s' % ([(show(a, an.names)[-50:], show(v, an.names)[:60]) for a, v, _ in pa], [show(c.argvals[1], an.names)[:160] for c in ps]), w)
    # the join is attempted exactly when a candidate below the threshold was found
    okx = False
    for pc, rv in an.exit_paths:
        if rv[0] == 'gamma' and thr is not None and best and rv[1] == mk('lt', ('loopvar', Hsel, best[0][0]), thr):
            okx = True
    ctx.check(okx, R, 'perform_speed_join|threshold', 'a join happens (and true is returned) exactly when the best difference is below the threshold it started from',
              'exits: %s' % [show(rv, an.names)[:80] for pc, rv in an.exit_paths], w)
