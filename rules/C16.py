"""C16 — network validation accepts exactly the consistent networks and never aborts (DESIGN §5 C16)."""
import re, collections
from sa.dsl import T, _t
from sa.terms import show, walk, mk, ZERO
from sa.cfg import CFG
from sa.prove import Prover
from .common import engine, inventory, analysis_or_fail, prove

LEVEL = 'other'
MANIFEST = {
    'category': 'other',
    'engine': 'svn+structure',
    'technique': 'guard inventory of the validators (path conditions of every error push as SVN terms) vs the documented rule table; abstract evaluation of ordering predicates; taint of untrusted indices vs bounds checks; must-pass-through validate on load; field-set agreement of the legacy conversion',
    'text': ('The validator is a predicate, so the property is decided as: (1) every load path of Network passes through the slice '
             'validator; (2) for each documented rule there is an error push whose path condition is that rule\'s violation condition '
             '(deleted, inverted or retargeted checks are reported); (3) each windows(2) ordering predicate is evaluated abstractly '
             'under "sections ascending and disjoint" and must not raise an error there; (4) no slice access in the validation call '
             'tree is indexed by a reference read from the file unless a length comparison precedes it (so out-of-range references '
             'are error values, not aborts); (5) the legacy link layout is converted field by field.'),
    'note': ('Not decided: equivalence of YAML text in the two layouts (serde behaviour), NaN handling inside uom comparisons beyond '
             'the explicit partial_cmp checks, and that unwrap() on first()/last() in Link::validate is unreachable for empty vectors '
             '(it is guarded by the early return after the non-empty validation; that typestate argument is not mechanised).'),
}
EXPLANATION = 'Path conditions of all error pushes in the validators compared with the documented rules; ordering predicates evaluated abstractly; untrusted index taint.'
RULES = ['C16-1.onload', 'C16-2.rules', 'C16-3.ascending', 'C16-4.noabort', 'C16-5.legacy', 'C16-6.siblings']
ASSUMPTIONS = ['serde reads the two file layouts as documented']

SLICE_LINK = '<[Link] as ObjState>::validate'
LINK = '<link_impl::Link as ObjState>::validate'


def norm(s):
    s = re.sub(r'pos\(it:[^)]*\)', 'k', s)
    s = re.sub(r'@[\w:<>\[\] ]+?:bb\d+', '', s)
    s = re.sub(r'L\[bb\d+:[^\]]*\]', 'L', s)
    s = re.sub(r'\?join:bb\d+:_\d+', '?join', s)
    s = s.replace('arg1', 'self')
    return s


def gates(an):
    """[(kind, what, [(normalised condition, polarity)])] for every error push / helper call of a validator"""
    out = []
    for c in an.calls:
        pc = [(norm(show(x, an.names)), o != '0') for x, o in c.pc if not (x[0] == 'discr' and x[1][0] == 'maybe' and 'tuple(k' in norm(show(x)))]
        if c.callee.startswith('ComboErrors') and strip_g(c.callee).endswith('::push'):
            out.append(('push', '', pc, c))
        elif c.targets:
            for t in c.targets:
                m = re.search(r'(si_chk_\w+|validate_field_\w+|validate_slice_\w+)$', t)
                if m:
                    arg = norm(show(c.argvals[1], an.names)) if len(c.argvals) > 1 else ''
                    out.append(('call', '%s(%s)' % (m.group(1), arg), pc, c))
    return out


def strip_g(c):
    from sa.program import strip_generics
    return strip_generics(c)


# documented rules: (function, name, kind, regex on the helper call or on the LAST condition, polarity of that condition,
#                    regexes that must appear among the enclosing conditions)
REAL = (r'\(self\.idx_curr\.idx == 0\)', False)
FAKE = (r'\(self\.idx_curr\.idx == 0\)', True)
DOC = [
    # ---- slice of links
    (SLICE_LINK, 'fewer than two links', 'push', r'\(len\(self\) < 2\)', True, []),
    (SLICE_LINK, 'first entry must be the dummy', 'call', r'validate_slice_fake\(&self\[range\(RangeTo\{end: 1\}\)\]\)', None, []),
    (SLICE_LINK, 'all other entries real', 'call', r'validate_slice_real_shift\(&self\[range\(RangeFrom\{start: 1\}\)\]\)', None, []),
    (SLICE_LINK, 'index equals position', 'push', r'self\[k\]\.idx_curr\.idx\)+ != k\)', True, []),
    (SLICE_LINK, 'flip differs from current', 'push', r'\(self\[k\]\.idx_flip == self\[k\]\.idx_curr\)', True, []),
    (SLICE_LINK, 'flip points back', 'push', r'idx_flip\.idx\)+\]?\)*.*\.idx_flip != self\[k\]\.idx_curr\)', True, [r'!::is_fake\(self\[k\]\.idx_flip\)']),
    (SLICE_LINK, 'reference inside the network', 'push', r'is_some\(maybe\(&self\[.*\.idx', True, []),
    (SLICE_LINK, 'next links point back', 'push', r'\.idx_curr\.idx == 0\) \? true : .*\.idx_prev == self\[k\]\.idx_curr\) \? true : .*\.idx_prev_alt == self\[k\]\.idx_curr\)', False, [r'!::is_fake\(self\[k\]\.idx_next\)']),
    (SLICE_LINK, 'no coincident switch points (next)', 'push', r'!::is_fake\(.*idx_prev_alt\)', True, [r'!::is_fake\(self\[k\]\.idx_next\)', r'!::is_fake\(self\[k\]\.idx_next_alt\)']),
    (SLICE_LINK, 'next alt only with next', 'push', r'!::is_fake\(self\[k\]\.idx_next_alt\)', True, [r'^!::is_fake\(self\[k\]\.idx_next\)=False']),
    (SLICE_LINK, 'prev links point back', 'push', r'\.idx_curr\.idx == 0\) \? true : .*\.idx_next == self\[k\]\.idx_curr\) \? true : .*\.idx_next_alt == self\[k\]\.idx_curr\)', False, [r'!::is_fake\(self\[k\]\.idx_prev\)']),
    (SLICE_LINK, 'no coincident switch points (prev)', 'push', r'!::is_fake\(.*idx_next_alt\)', True, [r'!::is_fake\(self\[k\]\.idx_prev\)', r'!::is_fake\(self\[k\]\.idx_prev_alt\)']),
    (SLICE_LINK, 'prev alt only with prev', 'push', r'!::is_fake\(self\[k\]\.idx_prev_alt\)', True, [r'^!::is_fake\(self\[k\]\.idx_prev\)=False']),
    # ---- one link (real)
    (LINK, 'length > 0 and not NaN', 'call', r'si_chk_num_gtz\(&self\.length\)', None, [r'idx_curr\.idx == 0\)=False']),
    (LINK, 'elevations valid and present', 'call', r'validate_field_real\(&self\.elevs\)', None, [r'idx_curr\.idx == 0\)=False']),
    (LINK, 'headings valid when present', 'call', r'validate_field_real\(&self\.headings\)', None, [r'idx_curr\.idx == 0\)=False']),
    (LINK, 'catenary sections valid', 'call', r'validate_field_real\(&self\.cat_power_limits\)', None, [r'idx_curr\.idx == 0\)=False']),
    (LINK, 'speed_set / speed_sets exclusive', 'push', r'is_some\(self\.speed_set\)', True, [r'is_empty\(self\.speed_sets\)=False']),
    (LINK, 'one of speed_set / speed_sets given', 'push', r'discr\(self\.speed_set\)', None, [r'is_empty\(self\.speed_sets\)=True']),
    (LINK, 'flip differs from every other reference', 'push', r'== self\.idx_flip|self\.idx_flip ==|elem\(array\(tuple\(self\.idx_curr', True, [r'!::is_fake\(self\.idx_flip\)']),
    (LINK, 'next alt only with next (link)', 'push', r'\(self\.idx_next\.idx == 0\)', True, [r'!::is_fake\(self\.idx_next_alt\)']),
    (LINK, 'prev alt only with prev (link)', 'push', r'\(self\.idx_prev\.idx == 0\)', True, [r'!::is_fake\(self\.idx_prev_alt\)']),
    (LINK, 'first elevation offset is zero', 'push', r'\(self\.elevs\[0\]\.offset != 0\)', True, []),
    (LINK, 'last elevation offset is the length', 'push', r'\(self\.elevs\[\(len\(self\.elevs\) - 1\)\]\.offset != self\.length\)', True, []),
    (LINK, 'first heading offset is zero', 'push', r'\(self\.headings\[0\]\.offset != 0\)', True, [r'len\(self\.headings\) == 0\)=False']),
    (LINK, 'last heading offset is the length', 'push', r'\(self\.headings\[\(len\(self\.headings\) - 1\)\]\.offset != self\.length\)', True, [r'len\(self\.headings\) == 0\)=False']),
    (LINK, 'catenary starts at or after zero', 'push', r'\(self\.cat_power_limits\[0\]\.offset_start < 0\)', True, []),
    (LINK, 'catenary ends at or before the length', 'push', r'\(self\.cat_power_limits\[\(len\(self\.cat_power_limits\) - 1\)\]\.offset_end > self\.length\)', True, []),
    # ---- one link (dummy)
    (LINK, 'dummy: references fake', 'call', r'validate_field_fake\(&self\.idx_next\)', None, [r'idx_curr\.idx == 0\)=True']),
    (LINK, 'dummy: zero length', 'call', r'si_chk_num_eqz\(&self\.length\)', None, [r'idx_curr\.idx == 0\)=True']),
    (LINK, 'dummy: no catenary', 'push', r'\(len\(self\.cat_power_limits\) == 0\)', False, [r'idx_curr\.idx == 0\)=True']),
    # ---- elements and slices
    ('<[Elev] as ObjState>::validate', 'at least two elevations', 'push', r'\(len\(self\) < 2\)', True, []),
    ('<[Elev] as ObjState>::validate', 'elevation offsets strictly increasing', 'push', r'iter\.all\(seq\[windows\(self\)', False, []),
    ('<Elev as ObjState>::validate', 'elevation offset >= 0', 'call', r'si_chk_num_gez\(&self\.offset\)', None, []),
    ('<Elev as ObjState>::validate', 'elevation finite', 'call', r'si_chk_num_fin\(&self\.elev\)', None, []),
    ('<[Heading] as ObjState>::validate', 'at least two headings', 'push', r'\(len\(self\) < 2\)', True, []),
    ('<[Heading] as ObjState>::validate', 'heading offsets strictly increasing', 'push', r'iter\.all\(seq\[windows\(self\)', False, []),
    ('<Heading as ObjState>::validate', 'heading below one revolution', 'push', r'\(self\.heading >= 6\.28318', True, []),
    ('<[SpeedLimit] as ObjState>::validate', 'speed limit pairs unique', 'push', r'iter\.any\(seq\[windows\(self\)', True, []),
    ('<[SpeedLimit] as ObjState>::validate', 'speed limits sorted', 'push', r'iter\.all\(seq\[windows\(self\)', False, []),
    ('<SpeedLimit as ObjState>::validate', 'speed limit start <= end', 'push', r'\(self\.offset_start > self\.offset_end\)', True, []),
    ('<SpeedLimit as ObjState>::validate', 'speed is a number', 'call', r'si_chk_num\(&self\.speed\)', None, []),
    ('<[CatPowerLimit] as ObjState>::validate', 'catenary sections non-overlapping', 'push', r'iter\.(any|all)\(seq\[windows\(self\)', None, []),
    ('<CatPowerLimit as ObjState>::validate', 'catenary start <= end', 'push', r'\(self\.offset_start > self\.offset_end\)', True, []),
    ('<CatPowerLimit as ObjState>::validate', 'catenary power >= 0', 'call', r'si_chk_num_gez\(&self\.power_limit\)', None, []),
]


def siblings_shared(ctx):
    """entry point for other rule sets (C17): validators analysed over all paths, then the sibling comparison"""
    prog = ctx.prog
    eng = engine(ctx)
    for f in prog.by_id:
        if f.endswith('ObjState>::validate') and f not in eng.all_paths:
            eng.all_paths.add(f)
            eng.ana.pop(f, None); eng.summ.pop(f, None)
    siblings(ctx)


def siblings(ctx):
    """C16-6.siblings: validators of the same data in its three guises — T, &T and the legacy twin OldT — must agree on every
    error they raise and on the condition under which they raise it (the owned, the borrowed and the legacy form of one
    file section are validated by whichever impl the load path happens to reach)"""
    prog = ctx.prog
    fams = {}
    for fid in sorted(prog.by_id):
        m = re.match(r'^<(&?)(?:[\w]+::)*(\w+) as ObjState>::validate$', fid)
        if not m or prog.by_id[fid].test:
            continue
        base = m.group(2)
        fam = base[3:] if base.startswith('Old') and len(base) > 3 else base
        fams.setdefault(fam, []).append(fid)
    n = 0
    for fam, fids in sorted(fams.items()):
        if len(fids) < 2:
            continue
        sigs = {}
        for fid in fids:
            an = engine(ctx).analysis(prog.by_id[fid])
            if an.exit_state is None:
                continue
            sig = []
            for k, what, pc, c in gates(an):
                msg = ''
                if k == 'push':
                    for a_ in c.argvals[1:]:
                        for x in walk(a_):
                            if x[0] == 'str':
                                msg = x[1]
                nz = lambda t_: re.sub(r'\bOld', '', t_.replace('*(self)', 'self').replace('(*self)', 'self'))
                sig.append((k, nz(what), msg, tuple((nz(cnd), pol) for cnd, pol in pc)))
            sigs[fid] = sorted(sig)
        ref = None
        for fid in sorted(sigs):
            if ref is None:
                ref = fid; continue
            n += 1
            same = sigs[fid] == sigs[ref]
            diff = [x for x in sigs[fid] if x not in sigs[ref]] + [x for x in sigs[ref] if x not in sigs[fid]]
            ctx.check(same, 'C16-6.siblings', '%s|%s' % (ref, fid), 'the two validators of %s raise the same errors under the same conditions' % fam,
                      'they differ in: %s' % [(d[0], d[1] or d[2], [c_[0][:60] + ('' if c_[1] else ' (negated)') for c_ in d[3]]) for d in diff][:3], ctx.where(prog.by_id[fid]))
    ctx.floor('sibling validator pairs compared', n, 2)


def run(ctx):
    prog = ctx.prog
    eng = engine(ctx)
    # validators are analysed over all paths: an error push followed by `return Err(errors)` is still a rule
    for f in prog.by_id:
        if f.endswith('ObjState>::validate'):
            eng.all_paths.add(f)
            eng.ana.pop(f, None); eng.summ.pop(f, None)
    onload(ctx)
    siblings(ctx)
    # ------------------------------------------------------------ C16-2 rule inventory
    cache = {}
    n = 0
    for fid, name, kind, rx, pol, ctxrx in DOC:
        if fid not in cache:
            b = prog.by_id.get(fid)
            if b is None:
                cache[fid] = None
                ctx.unproved('C16-2.rules', fid, 'validator not found (anchor)')
            else:
                an = analysis_or_fail(ctx, 'C16-2.rules', b)
                cache[fid] = (an, gates(an)) if an is not None else None
        if cache[fid] is None:
            continue
        an, gs = cache[fid]
        n += 1
        found = None
        for k, what, pc, c in gs:
            if k != kind:
                continue
            allc = ['%s=%s' % (cnd, p) for cnd, p in pc]
            if kind == 'call':
                if not re.search(rx, what):
                    continue
            else:
                if not pc:
                    continue
                else:
                    hit = [i for i, (cnd, p) in enumerate(pc) if re.search(rx, cnd) and (pol is None or p == pol)]
                    if not hit:
                        continue
            if all(any(re.search(r_, x) for x in allc) for r_ in ctxrx):
                found = (what, pc, c)
                break
        ctx.check(found is not None, 'C16-2.rules', '%s|%s' % (fid, name),
                  'rule present: error raised under %s' % ([('%s%s' % ('' if p else '!', cnd))[:90] for cnd, p in found[1]][-3:] if found else ''),
                  'no error is raised for this rule any more (check deleted, inverted or retargeted); expected a %s matching /%s/' % (kind, rx),
                  ctx.where(an.body, found[2].span) if found else ctx.where(an.body))
    ctx.floor('documented rules checked', n, 40)
    ascending(ctx)
    noabort(ctx)
    legacy(ctx)


def onload(ctx):
    prog = ctx.prog
    inv = inventory(ctx)
    target = SLICE_LINK
    reach_t = inv.reachable_to([target])
    b = ctx.anchor('C16-1.onload', '<Network as SerdeAPI>::init')
    if b is not None:
        cfg = CFG(b)
        marked = [bn for bn, t in cfg.call_sites() if any(x.fid in reach_t for x in prog.resolve(t.callee))]
        ctx.check(bool(marked) and cfg.every_ok_path_passes(marked), 'C16-1.onload', '<Network as SerdeAPI>::init',
                  'init() validates the whole network on every Ok path', 'an Ok path of init() does not reach the link-slice validator', ctx.where(b))
    fb = ctx.anchor('C16-1.onload', '<Network as SerdeAPI>::from_file')
    if fb is not None:
        cfg = CFG(fb)
        marked = [bn for bn, t in cfg.call_sites() if any(x.fid == '<Network as SerdeAPI>::init' for x in prog.resolve(t.callee))]
        ctx.check(bool(marked) and cfg.every_ok_path_passes(marked), 'C16-1.onload', '<Network as SerdeAPI>::from_file',
                  'both the current-layout and the legacy-layout branch end in init()', 'an Ok path of from_file skips init()', ctx.where(fb))
        legacy_calls = [t.callee for _, t in cfg.call_sites() if 'NetworkOld' in t.callee]
        ctx.check(bool(legacy_calls), 'C16-1.onload', '<Network as SerdeAPI>::from_file|legacy fallback', 'legacy layout fallback present', 'no NetworkOld fallback', ctx.where(fb))


def ascending(ctx):
    """every windows(2) predicate that leads to an error must be false on ascending, disjoint data"""
    prog = ctx.prog
    eng = engine(ctx)
    n = 0
    for fid in ('<[CatPowerLimit] as ObjState>::validate', '<[SpeedLimit] as ObjState>::validate', '<[Elev] as ObjState>::validate',
                '<[Heading] as ObjState>::validate'):
        b = prog.by_id.get(fid)
        if b is None:
            ctx.unproved('C16-3.ascending', fid, 'validator not found'); continue
        an = analysis_or_fail(ctx, 'C16-3.ascending', b)
        if an is None:
            continue
        for c in an.calls:
            if not (c.callee.startswith('ComboErrors') and strip_g(c.callee).endswith('::push')):
                continue
            for cond, o in c.pc:
                if cond[0] != 'uf' or cond[1] not in ('iter.any', 'iter.all'):
                    continue
                clos = [x for x in cond[2:] if isinstance(x, tuple) and x and x[0] == 'closure']
                if not clos:
                    continue
                cb = eng.closure_body(clos[0][1])
                if cb is None:
                    continue
                ca = eng.analysis(cb)
                if ca.exit_state is None:
                    continue
                pred = ca.ret()
                n += 1
                # error when: any(pred) true  |  all(pred) false
                err_when_pred = (o != '0')
                key = '%s|%s' % (fid, cb.fid.split('::')[-1])
                flds = sorted({x[1][-1][1] for x in walk(pred) if x[0] == 'pre' and x[1] and x[1][-1][0] == 'f'})
                if not flds:
                    ctx.info('C16-3.ascending', key, 'predicate %s compares whole elements (derived ordering), not fields: listed, not judged' % show(pred)[:100])
                    continue
                W = lambda i, f: T(('pre', (('obj', 2), ('idx', ('uf', 'window', ('sym', 'w'))) if False else ('idx', ('num', __import__('fractions').Fraction(i))), ('f', f))))
                # rebuild the predicate over symbols a0,b0,a1,b1 by substituting the window element fields
                sub = {}
                for x in walk(pred):
                    if x[0] == 'pre' and x[1] and x[1][-1][0] == 'f':
                        idxs = [c_[1] for c_ in x[1] if c_[0] == 'idx']
                        i = 0 if (idxs and show(idxs[-1]).endswith('0') or idxs and idxs[-1] == ZERO) else 1
                        sub[x] = ('sym', 'w%d.%s' % (i, x[1][-1][1]))
                from sa.terms import map_term
                p2 = map_term(pred, lambda x: sub.get(x, x))
                S = lambda i, f: T(('sym', 'w%d.%s' % (i, f)))
                if 'offset_start' in flds or 'offset_end' in flds:
                    facts = [S(0, 'offset_start').lt(S(0, 'offset_end')), S(0, 'offset_end').le(S(1, 'offset_start')), S(1, 'offset_start').lt(S(1, 'offset_end'))]
                    desc = 'w0.start < w0.end <= w1.start < w1.end'
                else:
                    facts = [S(0, 'offset').lt(S(1, 'offset'))]
                    desc = 'w0.offset < w1.offset'
                verdict = decide_bool(p2, [f.t for f in facts])
                if verdict is None:
                    ctx.unproved('C16-3.ascending', key, 'predicate %s not decided under %s' % (show(p2)[:200], desc), ctx.where(cb)); continue
                raises = (verdict is True) == err_when_pred
                ctx.check(not raises, 'C16-3.ascending', key, 'on ascending, disjoint data (%s) the predicate %s is %s: no error' % (desc, show(p2)[:120], verdict),
                          'on ascending, disjoint data (%s) the predicate %s is %s, which raises the error: valid data is rejected '
                          '(and the complementary, overlapping data accepted)' % (desc, show(p2)[:160], verdict), ctx.where(cb))
    ctx.floor('ordering predicates evaluated', n, 4)


def decide_bool(p, facts):
    """True / False / None for a boolean term built from comparisons, and/or/not, under facts"""
    op = p[0]
    if op == 'bool':
        return p[1]
    if op == 'not':
        r = decide_bool(p[1], facts)
        return None if r is None else (not r)
    if op in ('and', 'or'):
        a, b = decide_bool(p[1], facts), decide_bool(p[2], facts)
        if op == 'and':
            if a is False or b is False: return False
            if a is True and b is True: return True
            return None
        if a is True or b is True: return True
        if a is False and b is False: return False
        return None
    if op == 'gamma':          # a && b lowered as γ(a, b, false) ; a || b as γ(a, true, b)
        c = decide_bool(p[1], facts)
        if c is True: return decide_bool(p[2], facts)
        if c is False: return decide_bool(p[3], facts)
        a, b = decide_bool(p[2], facts), decide_bool(p[3], facts)
        if a is not None and a == b: return a
        return None
    if op in ('lt', 'le', 'gt', 'ge', 'eq', 'ne'):
        pv = Prover()
        v, _ = pv.holds(p, facts) if op != 'ne' else ('UNPROVED', '')
        if v == 'PROVED':
            return True
        neg = {'lt': 'ge', 'le': 'gt', 'gt': 'le', 'ge': 'lt', 'eq': 'ne', 'ne': 'eq'}[op]
        if neg == 'ne':
            # a == b is false when a < b or a > b is provable
            for o2 in ('lt', 'gt'):
                v2, _ = pv.holds((o2, p[1], p[2]), facts)
                if v2 == 'PROVED':
                    return False
            return None
        if neg == 'eq':
            v2, _ = pv.holds(('eq', p[1], p[2]), facts)
            return False if v2 == 'PROVED' else (True if any(pv.holds((o2, p[1], p[2]), facts)[0] == 'PROVED' for o2 in ('lt', 'gt')) else None)
        v2, _ = pv.holds((neg, p[1], p[2]), facts)
        if v2 == 'PROVED':
            return False
    return None


def noabort(ctx):
    """bounds-check aborts on indices derived from LinkIdx references read from the file"""
    prog = ctx.prog
    eng = engine(ctx)
    inv = inventory(ctx)
    tree = sorted(f for f in inv.reachable(['<Network as ObjState>::validate', SLICE_LINK]) if 'validate' in f or 'is_linked' in f)
    ctx.analysed['validation_call_tree'] = len(tree)
    n_assert = 0
    for fid in tree:
        b = prog.by_id.get(fid)
        if b is None or b.test:
            continue
        try:
            an = eng.analysis(b)
        except Exception:
            continue
        for g in an.guards:
            if g.kind != 'assert' or g.origin is not None:
                continue
            c = g.cond
            if not (c[0] == 'lt' and c[2][0] == 'len'):
                continue
            n_assert += 1
            I = c[1]
            tainted = [x for x in walk(I) if x[0] == 'pre' and x[1] and x[1][-1] == ('f', 'idx')]
            if not tainted:
                continue
            ref = show(tainted[0], an.names)
            m = re.search(r'\.(idx_\w+)\.idx', ref)
            key = '%s|%s' % (fid, m.group(1) if m else norm(ref)[:60])
            # is the same comparison decided before (on the path to the access)?
            implied = False
            for cond, o in g.gate:
                if cond == c and o != '0':
                    implied = True
                if cond[0] in ('ge',) and cond[1] == I and cond[2] == c[2] and o == '0':
                    implied = True
            ctx.check(implied, 'C16-4.noabort', key, 'index read from the file is compared with the slice length before the access',
                      'self[...] is indexed by the reference %s read from the file without a preceding length test: an out-of-range reference '
                      'aborts (index out of bounds) instead of producing a validation error' % norm(ref)[:120], ctx.where(b, g.span))
    ctx.counts['bounds asserts in the validation call tree'] = n_assert
    ok_none = not any(r.rule == 'C16-4.noabort' for r in ctx.results)
    if ok_none:
        ctx.ok('C16-4.noabort', 'inventory', 'no slice access in the validation call tree (%d functions, %d bounds checks) is indexed by a LinkIdx read from the file'
               % (len(tree), n_assert))
    ctx.floor('functions in the validation call tree', len(tree), 15)


def legacy(ctx):
    prog = ctx.prog
    eng = engine(ctx)
    fid = next((f for f in prog.by_id if re.match(r'<link_impl::Link as From<(link_old::)?Link(Old)?>>::from$', f)), None)
    if fid is None:
        fid = next((f for f in prog.by_id if f.startswith('<link_impl::Link as From<') and f.endswith('>::from') and 'Old' in f or
                    (f.startswith('<link_impl::Link as From<link_old')) ), None)
    if fid is None:
        ctx.unproved('C16-5.legacy', 'From<LinkOld> for Link', 'conversion not found (anchor)'); return
    b = prog.by_id[fid]
    an = analysis_or_fail(ctx, 'C16-5.legacy', b)
    if an is None:
        return
    r = an.ret()
    new, old = prog.typedef('link_impl::Link'), prog.typedef('link_old::Link')
    if r[0] != 'agg' or new is None or old is None:
        ctx.unproved('C16-5.legacy', fid, 'return value is not a struct aggregate: %s' % show(r)[:200], ctx.where(b)); return
    got = dict(r[2])
    shared = [f['name'] for f in new.fields if old.field(f['name']) is not None and f['name'] not in ('speed_sets',)]
    bad = []
    for f in shared:
        v = got.get(f)
        want_leaf = ('pre', (('val', 1), ('f', f)))
        ok = v is not None and (v == want_leaf or any(x == want_leaf or (x[0] == 'pre' and x[1][:2] == (('val', 1), ('f', f))) for x in walk(v)))
        if not ok:
            bad.append('%s := %s' % (f, show(v, an.names)[:80] if v is not None else None))
    ctx.check(not bad and len(shared) >= 12, 'C16-5.legacy', fid + '|shared fields', 'each of the %d shared fields is taken from the same-named legacy field' % len(shared),
              'fields not copied from their legacy namesake: %s' % bad, ctx.where(b))
    ss = got.get('speed_set')
    ctx.check(ss == ('none',), 'C16-5.legacy', fid + '|speed_set', 'the new single speed_set starts as None', 'speed_set is %s' % (show(ss)[:80] if ss else None), ctx.where(b))
    sv = got.get('speed_sets')
    from_old = any('speed_sets' in show(a, an.names) for c in an.calls for a in c.argvals)
    ctx.check(sv is not None and ('speed_sets' in show(sv, an.names) or from_old), 'C16-5.legacy', fid + '|speed_sets', 'speed_sets is built from the legacy vector',
              'speed_sets is %s' % (show(sv, an.names)[:120] if sv else None), ctx.where(b))
