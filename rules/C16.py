"""C16 — network validation accepts exactly the consistent networks and never aborts (DESIGN §5 C16)."""
import re, collections
from sa.dsl import T, _t
from sa.terms import show, walk, mk, ZERO
from sa.cfg import CFG
from sa.prove import Prover
from .common import engine, inventory, analysis_or_fail, prove, plain_iteration

LEVEL = 'other'
MANIFEST = {
    'category': 'other',
    'engine': 'svn+structure',
    'technique': 'guard inventory of the validators (path conditions of every error push as SVN terms) vs the documented rule table; abstract evaluation of ordering predicates; taint of untrusted indices vs bounds checks; must-pass-through validate on load; field-set agreement of the legacy conversion',
    'text': ('The validator is a predicate, so the property is decided as: (1) every load path of Network passes through the slice '
             'validator; (2) for each documented rule there is an error push whose path condition is that rule\'s violation condition '
             '(deleted, inverted or retargeted checks are reported); (3) each windows(2) ordering predicate is evaluated abstractly '
             'under "sections ascending and disjoint" and must not raise an error there; (4) no slice access in the validation call '
             'tree is indexed by a reference read from the file unless a length comparison precedes it (so out-of-range references '
             'are error values, not aborts); (5) the legacy link layout is converted field by field.'),
    'note': ('Not decided: equivalence of YAML text in the two layouts (serde behaviour), NaN handling inside uom comparisons beyond '
             'the explicit partial_cmp checks, and that unwrap() on first()/last() in Link::validate is unreachable for empty vectors '
             '(it is guarded by the early return after the non-empty validation; that typestate argument is not mechanised).'),
}
EXPLANATION = 'Path conditions of all error pushes in the validators compared with the documented rules; ordering predicates evaluated abstractly; untrusted index taint.'
RULES = ['C16-1.onload', 'C16-2.rules', 'C16-3.ascending', 'C16-4.noabort', 'C16-5.legacy', 'C16-6.siblings', 'C16-7.helpers']
ASSUMPTIONS = ['serde reads the two file layouts as documented']

SLICE_LINK = '<[Link] as ObjState>::validate'
LINK = '<link_impl::Link as ObjState>::validate'


def norm(s):
    s = re.sub(r'pos\(it:[^)]*\)', 'k', s)
    s = re.sub(r'@[\w:<>\[\] ]+?:bb\d+', '', s)
    s = re.sub(r'L\[bb\d+:[^\]]*\]', 'L', s)
    s = re.sub(r'\?join:bb\d+:_\d+', '?join', s)
    s = s.replace('arg1', 'self')
    return s


def gates(an):
    """[(kind, what, [(normalised condition, polarity)])] for every error push / helper call of a validator"""
    out = []
    for c in an.calls:
        pc = [(norm(show(x, an.names)), o != '0') for x, o in c.pc if not (x[0] == 'discr' and x[1][0] == 'maybe' and 'tuple(k' in norm(show(x)))]
        if c.callee.startswith('ComboErrors') and strip_g(c.callee).endswith('::push'):
            out.append(('push', '', pc, c))
        elif c.targets:
            for t in c.targets:
                m = re.search(r'(si_chk_\w+|validate_field_\w+|validate_slice_\w+)$', t)
                if m:
                    arg = norm(show(c.argvals[1], an.names)) if len(c.argvals) > 1 else ''
                    out.append(('call', '%s(%s)' % (m.group(1), arg), pc, c))
    return out


def strip_g(c):
    from sa.program import strip_generics
    return strip_generics(c)


# documented rules: (function, name, kind, regex on the helper call or on the LAST condition, polarity of that condition,
#                    regexes that must appear among the enclosing conditions)
REAL = (r'\(self\.idx_curr\.idx == 0\)', False)
FAKE = (r'\(self\.idx_curr\.idx == 0\)', True)
DOC = [
    # ---- slice of links
    (SLICE_LINK, 'fewer than two links', 'push', r'\(len\(self\) < 2\)', True, []),
    (SLICE_LINK, 'first entry must be the dummy', 'call', r'validate_slice_fake\(&self\[range\(RangeTo\{end: 1\}\)\]\)', None, []),
    (SLICE_LINK, 'all other entries real', 'call', r'validate_slice_real_shift\(&self\[range\(RangeFrom\{start: 1\}\)\]\)', None, []),
    (SLICE_LINK, 'index equals position', 'push', r'self\[k\]\.idx_curr\.idx\)+ != k\)', True, []),
    (SLICE_LINK, 'flip differs from current', 'push', r'\(self\[k\]\.idx_flip == self\[k\]\.idx_curr\)', True, []),
    (SLICE_LINK, 'flip points back', 'push', r'idx_flip\.idx\)+\]?\)*.*\.idx_flip != self\[k\]\.idx_curr\)', True, [r'!::is_fake\(self\[k\]\.idx_flip\)']),
    (SLICE_LINK, 'reference inside the network', 'push', r'is_some\(maybe\(&self\[.*\.idx', True, []),
    (SLICE_LINK, 'next links point back', 'push', r'\.idx_curr\.idx == 0\) \? true : .*\.idx_prev == self\[k\]\.idx_curr\) \? true : .*\.idx_prev_alt == self\[k\]\.idx_curr\)', False, [r'!::is_fake\(self\[k\]\.idx_next\)']),
    (SLICE_LINK, 'no coincident switch points (next)', 'push', r'!::is_fake\(.*idx_prev_alt\)', True, [r'!::is_fake\(self\[k\]\.idx_next\)', r'!::is_fake\(self\[k\]\.idx_next_alt\)']),
    (SLICE_LINK, 'next alt only with next', 'push', r'!::is_fake\(self\[k\]\.idx_next_alt\)', True, [r'^!::is_fake\(self\[k\]\.idx_next\)=False']),
    (SLICE_LINK, 'prev links point back', 'push', r'\.idx_curr\.idx == 0\) \? true : .*\.idx_next == self\[k\]\.idx_curr\) \? true : .*\.idx_next_alt == self\[k\]\.idx_curr\)', False, [r'!::is_fake\(self\[k\]\.idx_prev\)']),
    (SLICE_LINK, 'no coincident switch points (prev)', 'push', r'!::is_fake\(.*idx_next_alt\)', True, [r'!::is_fake\(self\[k\]\.idx_prev\)', r'!::is_fake\(self\[k\]\.idx_prev_alt\)']),
    (SLICE_LINK, 'prev alt only with prev', 'push', r'!::is_fake\(self\[k\]\.idx_prev_alt\)', True, [r'^!::is_fake\(self\[k\]\.idx_prev\)=False']),
    # ---- one link (real)
    (LINK, 'length > 0 and not NaN', 'call', r'si_chk_num_gtz\(&self\.length\)', None, [r'idx_curr\.idx == 0\)=False']),
    (LINK, 'elevations valid and present', 'call', r'validate_field_real\(&self\.elevs\)', None, [r'idx_curr\.idx == 0\)=False']),
    (LINK, 'headings valid when present', 'call', r'validate_field_real\(&self\.headings\)', None, [r'idx_curr\.idx == 0\)=False']),
    (LINK, 'catenary sections valid', 'call', r'validate_field_real\(&self\.cat_power_limits\)', None, [r'idx_curr\.idx == 0\)=False']),
    (LINK, 'speed_set / speed_sets exclusive', 'push', r'is_some\(self\.speed_set\)', True, [r'is_empty\(self\.speed_sets\)=False']),
    (LINK, 'one of speed_set / speed_sets given', 'push', r'discr\(self\.speed_set\)', None, [r'is_empty\(self\.speed_sets\)=True']),
    (LINK, 'flip differs from every other reference', 'push', r'== self\.idx_flip|self\.idx_flip ==|elem\(array\(tuple\(self\.idx_curr', True, [r'!::is_fake\(self\.idx_flip\)']),
    (LINK, 'next alt only with next (link)', 'push', r'\(self\.idx_next\.idx == 0\)', True, [r'!::is_fake\(self\.idx_next_alt\)']),
    (LINK, 'prev alt only with prev (link)', 'push', r'\(self\.idx_prev\.idx == 0\)', True, [r'!::is_fake\(self\.idx_prev_alt\)']),
    (LINK, 'first elevation offset is zero', 'push', r'\(self\.elevs\[0\]\.offset != 0\)', True, []),
    (LINK, 'last elevation offset is the length', 'push', r'\(self\.elevs\[\(len\(self\.elevs\) - 1\)\]\.offset != self\.length\)', True, []),
    (LINK, 'first heading offset is zero', 'push', r'\(self\.headings\[0\]\.offset != 0\)', True, [r'len\(self\.headings\) == 0\)=False']),
    (LINK, 'last heading offset is the length', 'push', r'\(self\.headings\[\(len\(self\.headings\) - 1\)\]\.offset != self\.length\)', True, [r'len\(self\.headings\) == 0\)=False']),
    (LINK, 'catenary starts at or after zero', 'push', r'\(self\.cat_power_limits\[0\]\.offset_start < 0\)', True, []),
    (LINK, 'catenary ends at or before the length', 'push', r'\(self\.cat_power_limits\[\(len\(self\.cat_power_limits\) - 1\)\]\.offset_end > self\.length\)', True, []),
    # ---- one link (dummy)
    (LINK, 'dummy: references fake', 'call', r'validate_field_fake\(&self\.idx_next\)', None, [r'idx_curr\.idx == 0\)=True']),
    (LINK, 'dummy: zero length', 'call', r'si_chk_num_eqz\(&self\.length\)', None, [r'idx_curr\.idx == 0\)=True']),
    (LINK, 'dummy: no catenary', 'push', r'\(len\(self\.cat_power_limits\) == 0\)', False, [r'idx_curr\.idx == 0\)=True']),
    # ---- elements and slices
    ('<[Elev] as ObjState>::validate', 'at least two elevations', 'push', r'\(len\(self\) < 2\)', True, []),
    ('<[Elev] as ObjState>::validate', 'elevation offsets strictly increasing', 'push', r'iter\.all\(seq\[windows\(self\)', False, []),
    ('<Elev as ObjState>::validate', 'elevation offset >= 0', 'call', r'si_chk_num_gez\(&self\.offset\)', None, []),
    ('<Elev as ObjState>::validate', 'elevation finite', 'call', r'si_chk_num_fin\(&self\.elev\)', None, []),
    ('<[Heading] as ObjState>::validate', 'at least two headings', 'push', r'\(len\(self\) < 2\)', True, []),
    ('<[Heading] as ObjState>::validate', 'heading offsets strictly increasing', 'push', r'iter\.all\(seq\[windows\(self\)', False, []),
    ('<Heading as ObjState>::validate', 'heading below one revolution', 'push', r'\(self\.heading >= 6\.28318', True, []),
    ('<[SpeedLimit] as ObjState>::validate', 'speed limit pairs unique', 'push', r'iter\.any\(seq\[windows\(self\)', True, []),
    ('<[SpeedLimit] as ObjState>::validate', 'speed limits sorted', 'push', r'iter\.all\(seq\[windows\(self\)', False, []),
    ('<SpeedLimit as ObjState>::validate', 'speed limit start <= end', 'push', r'\(self\.offset_start > self\.offset_end\)', True, []),
    ('<SpeedLimit as ObjState>::validate', 'speed is a number', 'call', r'si_chk_num\(&self\.speed\)', None, []),
    ('<SpeedParam as ObjState>::validate', 'speed-set parameter limit is a non-negative number', 'push',
     r'!discr\(::partial_cmp\(self\.limit_val, 0\)\) \| .*partial_cmp\(self\.limit_val, 0\)@Some\.#0\)=255', None, []),
    ('<SpeedParam as ObjState>::validate', 'axle-count limit is an integer', 'push', r'\(f64::trunc\(self\.limit_val\) != self\.limit_val\)', True,
     [r'\(self\.limit_type == LimitType::AxleCount\(\)\)=True']),
    ('<[CatPowerLimit] as ObjState>::validate', 'catenary sections non-overlapping', 'push', r'iter\.(any|all)\(seq\[windows\(self\)', None, []),
    ('<CatPowerLimit as ObjState>::validate', 'catenary start <= end', 'push', r'\(self\.offset_start > self\.offset_end\)', True, []),
    ('<CatPowerLimit as ObjState>::validate', 'catenary power >= 0', 'call', r'si_chk_num_gez\(&self\.power_limit\)', None, []),
    # ---- delegation: every level of the network reaches the validators of the level below
    (LINK, 'per-train-type speed sets validated', 'call', r'validate_field_real\(&self\.speed_sets\)', None, [r'idx_curr\.idx == 0\)=False', r'is_empty\(self\.speed_sets\)=False']),
    (LINK, 'train-type-neutral speed set validated', 'call', r'validate_field_real\(&self\.speed_set@Some', None, [r'is_empty\(self\.speed_sets\)=True']),
    ('<HashMap<TrainType,SpeedSet> as ObjState>::validate', 'every speed set of the map validated', 'call', r'validate_slice_real\(', None, []),
    ('<Vec<SpeedSet> as ObjState>::validate', 'every speed set validated', 'call', r'validate_slice_real\(&self\)', None, []),
    ('<SpeedSet as ObjState>::validate', 'speed sections of a set validated', 'call', r'validate_field_real\(&\*?\(?self\)?\.speed_limits\)', None, []),
    ('<SpeedSet as ObjState>::validate', 'speed params of a set validated', 'call', r'validate_field_real\(&\*?\(?self\)?\.speed_params\)', None, []),
    ('<&SpeedSet as ObjState>::validate', 'speed sections of a set validated (by reference)', 'call', r'validate_field_real\(&\*?\(?self\)?\.speed_limits\)', None, []),
    ('<OldSpeedSet as ObjState>::validate', 'speed sections of a legacy set validated', 'call', r'validate_field_real\(&\*?\(?self\)?\.speed_limits\)', None, []),
    ('<[SpeedLimit] as ObjState>::validate', 'every speed section validated', 'call', r'validate_slice_real\(&self\)', None, []),
    ('<[SpeedParam] as ObjState>::validate', 'every speed param validated', 'call', r'validate_slice_real\(&self\)', None, []),
    ('<[Elev] as ObjState>::validate', 'every elevation validated', 'call', r'validate_slice_real\(&self\)', None, []),
    ('<[Heading] as ObjState>::validate', 'every heading validated', 'call', r'validate_slice_real\(&self\)', None, []),
    ('<[CatPowerLimit] as ObjState>::validate', 'every catenary section validated', 'call', r'validate_slice_real\(&self\)', None, []),
]


def siblings_shared(ctx):
    """entry point for other rule sets (C17): validators analysed over all paths, then the sibling comparison"""
    prog = ctx.prog
    eng = engine(ctx)
    for f in prog.by_id:
        if f.endswith('ObjState>::validate') and f not in eng.all_paths:
            eng.all_paths.add(f)
            eng.ana.pop(f, None); eng.summ.pop(f, None)
    siblings(ctx)


def siblings(ctx):
    """C16-6.siblings: validators of the same data in its three guises — T, &T and the legacy twin OldT — must agree on every
    error they raise and on the condition under which they raise it (the owned, the borrowed and the legacy form of one
    file section are validated by whichever impl the load path happens to reach)"""
    prog = ctx.prog
    fams = {}
    for fid in sorted(prog.by_id):
        m = re.match(r'^<(&?)(?:[\w]+::)*(\w+) as ObjState>::validate$', fid)
        if not m or prog.by_id[fid].test:
            continue
        base = m.group(2)
        fam = base[3:] if base.startswith('Old') and len(base) > 3 else base
        fams.setdefault(fam, []).append(fid)
    n = 0
    for fam, fids in sorted(fams.items()):
        if len(fids) < 2:
            continue
        sigs = {}
        for fid in fids:
            an = engine(ctx).analysis(prog.by_id[fid])
            if an.exit_state is None:
                continue
            sig = []
            for k, what, pc, c in gates(an):
                msg = ''
                if k == 'push':
                    for a_ in c.argvals[1:]:
                        for x in walk(a_):
                            if x[0] == 'str':
                                msg = x[1]
                nz = lambda t_: re.sub(r'\bOld', '', t_.replace('*(self)', 'self').replace('(*self)', 'self'))
                sig.append((k, nz(what), msg, tuple((nz(cnd), pol) for cnd, pol in pc)))
            sigs[fid] = sorted(sig)
        ref = None
        for fid in sorted(sigs):
            if ref is None:
                ref = fid; continue
            n += 1
            same = sigs[fid] == sigs[ref]
            diff = [x for x in sigs[fid] if x not in sigs[ref]] + [x for x in sigs[ref] if x not in sigs[fid]]
            ctx.check(same, 'C16-6.siblings', '%s|%s' % (ref, fid), 'the two validators of %s raise the same errors under the same conditions' % fam,
                      'they differ in: %s' % [(d[0], d[1] or d[2], [c_[0][:60] + ('' if c_[1] else ' (negated)') for c_ in d[3]]) for d in diff][:3], ctx.where(prog.by_id[fid]))
    ctx.floor('sibling validator pairs compared', n, 2)


def run(ctx):
    prog = ctx.prog
    eng = engine(ctx)
    # validators are analysed over all paths: an error push followed by `return Err(errors)` is still a rule
    for f in prog.by_id:
        if f.endswith('ObjState>::validate'):
            eng.all_paths.add(f)
            eng.ana.pop(f, None); eng.summ.pop(f, None)
    onload(ctx)
    siblings(ctx)
    # ------------------------------------------------------------ C16-2 rule inventory
    cache = {}
    n = 0
    for fid, name, kind, rx, pol, ctxrx in DOC:
        if fid not in cache:
            b = prog.by_id.get(fid)
            if b is None:
                cache[fid] = None
                ctx.unproved('C16-2.rules', fid, 'validator not found (anchor)')
            else:
                an = analysis_or_fail(ctx, 'C16-2.rules', b)
                cache[fid] = (an, gates(an)) if an is not None else None
        if cache[fid] is None:
            continue
        an, gs = cache[fid]
        n += 1
        found = None
        for k, what, pc, c in gs:
            if k != kind:
                continue
            allc = ['%s=%s' % (cnd, p) for cnd, p in pc]
            if kind == 'call':
                if not re.search(rx, what):
                    continue
            else:
                if not pc:
                    continue
                else:
                    hit = [i for i, (cnd, p) in enumerate(pc) if re.search(rx, cnd) and (pol is None or p == pol)]
                    if not hit:
                        continue
            if all(any(re.search(r_, x) for x in allc) for r_ in ctxrx):
                found = (what, pc, c)
                break
        ctx.check(found is not None, 'C16-2.rules', '%s|%s' % (fid, name),
                  'rule present: error raised under %s' % ([('%s%s' % ('' if p else '!', cnd))[:90] for cnd, p in found[1]][-3:] if found else ''),
                  'no error is raised for this rule any more (check deleted, inverted or retargeted); expected a %s matching /%s/' % (kind, rx),
                  ctx.where(an.body, found[2].span) if found else ctx.where(an.body))
    ctx.floor('documented rules checked', n, 55)
    ascending(ctx)
    noabort(ctx)
    legacy(ctx)
    helpers(ctx)


def onload(ctx):
    prog = ctx.prog
    inv = inventory(ctx)
    target = SLICE_LINK
    reach_t = inv.reachable_to([target])
    b = ctx.anchor('C16-1.onload', '<Network as SerdeAPI>::init')
    if b is not None:
        cfg = CFG(b)
        marked = [bn for bn, t in cfg.call_sites() if any(x.fid in reach_t for x in prog.resolve(t.callee))]
        ctx.check(bool(marked) and cfg.every_ok_path_passes(marked), 'C16-1.onload', '<Network as SerdeAPI>::init',
                  'init() validates the whole network on every Ok path', 'an Ok path of init() does not reach the link-slice validator', ctx.where(b))
    fb = ctx.anchor('C16-1.onload', '<Network as SerdeAPI>::from_file')
    if fb is not None:
        cfg = CFG(fb)
        marked = [bn for bn, t in cfg.call_sites() if any(x.fid == '<Network as SerdeAPI>::init' for x in prog.resolve(t.callee))]
        ctx.check(bool(marked) and cfg.every_ok_path_passes(marked), 'C16-1.onload', '<Network as SerdeAPI>::from_file',
                  'both the current-layout and the legacy-layout branch end in init()', 'an Ok path of from_file skips init()', ctx.where(fb))
        legacy_calls = [t.callee for _, t in cfg.call_sites() if 'NetworkOld' in t.callee]
        ctx.check(bool(legacy_calls), 'C16-1.onload', '<Network as SerdeAPI>::from_file|legacy fallback', 'legacy layout fallback present', 'no NetworkOld fallback', ctx.where(fb))


def ascending(ctx):
    """every windows(2) predicate that leads to an error must be false on ascending, disjoint data"""
    prog = ctx.prog
    eng = engine(ctx)
    n = 0
    for fid in ('<[CatPowerLimit] as ObjState>::validate', '<[SpeedLimit] as ObjState>::validate', '<[Elev] as ObjState>::validate',
                '<[Heading] as ObjState>::validate'):
        b = prog.by_id.get(fid)
        if b is None:
            ctx.unproved('C16-3.ascending', fid, 'validator not found'); continue
        an = analysis_or_fail(ctx, 'C16-3.ascending', b)
        if an is None:
            continue
        for c in an.calls:
            if not (c.callee.startswith('ComboErrors') and strip_g(c.callee).endswith('::push')):
                continue
            for cond, o in c.pc:
                if cond[0] != 'uf' or cond[1] not in ('iter.any', 'iter.all'):
                    continue
                clos = [x for x in cond[2:] if isinstance(x, tuple) and x and x[0] == 'closure']
                if not clos:
                    continue
                cb = eng.closure_body(clos[0][1])
                if cb is None:
                    continue
                ca = eng.analysis(cb)
                if ca.exit_state is None:
                    continue
                pred = ca.ret()
                n += 1
                # error when: any(pred) true  |  all(pred) false
                err_when_pred = (o != '0')
                key = '%s|%s' % (fid, cb.fid.split('::')[-1])
                flds = sorted({x[1][-1][1] for x in walk(pred) if x[0] == 'pre' and x[1] and x[1][-1][0] == 'f'})
                uniq = 'SpeedLimit' in fid and cond[1] == 'iter.any'
                if not flds and uniq:
                    ctx.unproved('C16-3.ascending', key + '|identical offset pair', 'the uniqueness predicate %s compares whole elements, not the two offsets: two sections over '
                                 'identical offsets that differ in another field are not reported' % show(pred)[:100], ctx.where(cb))
                    continue
                if not flds:
                    ctx.info('C16-3.ascending', key, 'predicate %s compares whole elements (derived ordering), not fields: listed, not judged' % show(pred)[:100])
                    continue
                W = lambda i, f: T(('pre', (('obj', 2), ('idx', ('uf', 'window', ('sym', 'w'))) if False else ('idx', ('num', __import__('fractions').Fraction(i))), ('f', f))))
                # rebuild the predicate over symbols a0,b0,a1,b1 by substituting the window element fields
                sub = {}
                for x in walk(pred):
                    if x[0] == 'pre' and x[1] and x[1][-1][0] == 'f':
                        idxs = [c_[1] for c_ in x[1] if c_[0] == 'idx']
                        i = 0 if (idxs and show(idxs[-1]).endswith('0') or idxs and idxs[-1] == ZERO) else 1
                        sub[x] = ('sym', 'w%d.%s' % (i, x[1][-1][1]))
                from sa.terms import map_term
                p2 = map_term(pred, lambda x: sub.get(x, x))
                S = lambda i, f: T(('sym', 'w%d.%s' % (i, f)))
                if 'offset_start' in flds or 'offset_end' in flds:
                    facts = [S(0, 'offset_start').lt(S(0, 'offset_end')), S(0, 'offset_end').le(S(1, 'offset_start')), S(1, 'offset_start').lt(S(1, 'offset_end'))]
                    desc = 'w0.start < w0.end <= w1.start < w1.end'
                else:
                    facts = [S(0, 'offset').lt(S(1, 'offset'))]
                    desc = 'w0.offset < w1.offset'
                verdict = decide_bool(p2, [f.t for f in facts])
                if verdict is None:
                    ctx.unproved('C16-3.ascending', key, 'predicate %s not decided under %s' % (show(p2)[:200], desc), ctx.where(cb)); continue
                raises = (verdict is True) == err_when_pred
                ctx.check(not raises, 'C16-3.ascending', key, 'on ascending, disjoint data (%s) the predicate %s is %s: no error' % (desc, show(p2)[:120], verdict),
                          'on ascending, disjoint data (%s) the predicate %s is %s, which raises the error: valid data is rejected '
                          '(and the complementary, overlapping data accepted)' % (desc, show(p2)[:160], verdict), ctx.where(cb))
                # and the other way round: data that is NOT in order must raise the error
                if 'offset_start' in flds or 'offset_end' in flds:
                    # only catenary sections must not overlap; speed restrictions may nest and overlap (their rules are order and uniqueness)
                    bad_worlds = [('overlapping (w0.end > w1.start)', [S(0, 'offset_start').lt(S(0, 'offset_end')), S(1, 'offset_start').lt(S(1, 'offset_end')),
                                                                           S(1, 'offset_start').lt(S(0, 'offset_end'))])] if 'CatPowerLimit' in fid else []
                    if uniq:
                        # offset pairs must be unique whatever the other fields hold
                        bad_worlds = [('identical offset pair', [S(0, 'offset_start').eq(S(1, 'offset_start')), S(0, 'offset_end').eq(S(1, 'offset_end'))])]
                else:
                    bad_worlds = [('equal offsets', [S(0, 'offset').eq(S(1, 'offset'))]), ('descending offsets', [S(1, 'offset').lt(S(0, 'offset'))])]
                for wname, wf in bad_worlds:
                    v2 = decide_bool(p2, [f.t for f in wf])
                    k2 = key + '|' + wname.split(' (')[0]
                    if v2 is None:
                        ctx.unproved('C16-3.ascending', k2, 'predicate %s not decided for %s' % (show(p2)[:160], wname), ctx.where(cb)); continue
                    raises2 = (v2 is True) == err_when_pred
                    ctx.check(raises2, 'C16-3.ascending', k2, 'for %s the predicate is %s: the error is raised' % (wname, v2),
                              'for %s the predicate %s is %s: no error — out-of-order data is accepted' % (wname, show(p2)[:160], v2), ctx.where(cb))
    ctx.floor('ordering predicates evaluated', n, 4)


def decide_bool(p, facts):
    """True / False / None for a boolean term built from comparisons, and/or/not, under facts"""
    op = p[0]
    if op == 'bool':
        return p[1]
    if op == 'not':
        r = decide_bool(p[1], facts)
        return None if r is None else (not r)
    if op in ('and', 'or'):
        a, b = decide_bool(p[1], facts), decide_bool(p[2], facts)
        if op == 'and':
            if a is False or b is False: return False
            if a is True and b is True: return True
            return None
        if a is True or b is True: return True
        if a is False and b is False: return False
        return None
    if op == 'gamma':          # a && b lowered as γ(a, b, false) ; a || b as γ(a, true, b)
        c = decide_bool(p[1], facts)
        if c is True: return decide_bool(p[2], facts)
        if c is False: return decide_bool(p[3], facts)
        a, b = decide_bool(p[2], facts), decide_bool(p[3], facts)
        if a is not None and a == b: return a
        return None
    if op in ('lt', 'le', 'gt', 'ge', 'eq', 'ne'):
        pv = Prover()
        v, _ = pv.holds(p, facts) if op != 'ne' else ('UNPROVED', '')
        if v == 'PROVED':
            return True
        neg = {'lt': 'ge', 'le': 'gt', 'gt': 'le', 'ge': 'lt', 'eq': 'ne', 'ne': 'eq'}[op]
        if neg == 'ne':
            # a == b is false when a < b or a > b is provable
            for o2 in ('lt', 'gt'):
                v2, _ = pv.holds((o2, p[1], p[2]), facts)
                if v2 == 'PROVED':
                    return False
            return None
        if neg == 'eq':
            v2, _ = pv.holds(('eq', p[1], p[2]), facts)
            return False if v2 == 'PROVED' else (True if any(pv.holds((o2, p[1], p[2]), facts)[0] == 'PROVED' for o2 in ('lt', 'gt')) else None)
        v2, _ = pv.holds((neg, p[1], p[2]), facts)
        if v2 == 'PROVED':
            return False
        # order closure over the facts as opaque atoms (a < b stated the other way round, chains)
        from .speedprofile import _order_lt
        a_, b_ = p[1], p[2]
        if op == 'lt':
            if _order_lt(a_, b_, facts): return True
        if op == 'gt':
            if _order_lt(b_, a_, facts): return True
        if op == 'le':
            if _order_lt(a_, b_, facts): return True
            if _order_lt(b_, a_, facts): return False
        if op == 'ge':
            if _order_lt(b_, a_, facts): return True
            if _order_lt(a_, b_, facts): return False
    return None


def noabort(ctx):
    """bounds-check aborts on indices derived from LinkIdx references read from the file"""
    prog = ctx.prog
    eng = engine(ctx)
    inv = inventory(ctx)
    tree = sorted(f for f in inv.reachable(['<Network as ObjState>::validate', SLICE_LINK]) if 'validate' in f or 'is_linked' in f)
    ctx.analysed['validation_call_tree'] = len(tree)
    n_assert = 0
    for fid in tree:
        b = prog.by_id.get(fid)
        if b is None or b.test:
            continue
        try:
            an = eng.analysis(b)
        except Exception:
            continue
        for g in an.guards:
            if g.kind != 'assert' or g.origin is not None:
                continue
            c = g.cond
            if not (c[0] == 'lt' and c[2][0] == 'len'):
                continue
            n_assert += 1
            I = c[1]
            tainted = [x for x in walk(I) if x[0] == 'pre' and x[1] and x[1][-1] == ('f', 'idx')]
            if not tainted:
                continue
            ref = show(tainted[0], an.names)
            m = re.search(r'\.(idx_\w+)\.idx', ref)
            key = '%s|%s' % (fid, m.group(1) if m else norm(ref)[:60])
            # is the same comparison decided before (on the path to the access)?
            implied = False
            for cond, o in g.gate:
                if cond == c and o != '0':
                    implied = True
                if cond[0] in ('ge',) and cond[1] == I and cond[2] == c[2] and o == '0':
                    implied = True
            ctx.check(implied, 'C16-4.noabort', key, 'index read from the file is compared with the slice length before the access',
                      'self[...] is indexed by the reference %s read from the file without a preceding length test: an out-of-range reference '
                      'aborts (index out of bounds) instead of producing a validation error' % norm(ref)[:120], ctx.where(b, g.span))
    ctx.counts['bounds asserts in the validation call tree'] = n_assert
    ok_none = not any(r.rule == 'C16-4.noabort' for r in ctx.results)
    if ok_none:
        ctx.ok('C16-4.noabort', 'inventory', 'no slice access in the validation call tree (%d functions, %d bounds checks) is indexed by a LinkIdx read from the file'
               % (len(tree), n_assert))
    ctx.floor('functions in the validation call tree', len(tree), 15)


def legacy(ctx):
    prog = ctx.prog
    eng = engine(ctx)
    fid = next((f for f in prog.by_id if re.match(r'<link_impl::Link as From<(link_old::)?Link(Old)?>>::from$', f)), None)
    if fid is None:
        fid = next((f for f in prog.by_id if f.startswith('<link_impl::Link as From<') and f.endswith('>::from') and 'Old' in f or
                    (f.startswith('<link_impl::Link as From<link_old')) ), None)
    if fid is None:
        ctx.unproved('C16-5.legacy', 'From<LinkOld> for Link', 'conversion not found (anchor)'); return
    b = prog.by_id[fid]
    an = analysis_or_fail(ctx, 'C16-5.legacy', b)
    if an is None:
        return
    r = an.ret()
    new, old = prog.typedef('link_impl::Link'), prog.typedef('link_old::Link')
    if r[0] != 'agg' or new is None or old is None:
        ctx.unproved('C16-5.legacy', fid, 'return value is not a struct aggregate: %s' % show(r)[:200], ctx.where(b)); return
    got = dict(r[2])
    shared = [f['name'] for f in new.fields if old.field(f['name']) is not None and f['name'] not in ('speed_sets',)]
    bad = []
    for f in shared:
        v = got.get(f)
        want_leaf = ('pre', (('val', 1), ('f', f)))
        ok = v is not None and (v == want_leaf or any(x == want_leaf or (x[0] == 'pre' and x[1][:2] == (('val', 1), ('f', f))) for x in walk(v)))
        if not ok:
            bad.append('%s := %s' % (f, show(v, an.names)[:80] if v is not None else None))
    ctx.check(not bad and len(shared) >= 12, 'C16-5.legacy', fid + '|shared fields', 'each of the %d shared fields is taken from the same-named legacy field' % len(shared),
              'fields not copied from their legacy namesake: %s' % bad, ctx.where(b))
    ss = got.get('speed_set')
    ctx.check(ss == ('none',), 'C16-5.legacy', fid + '|speed_set', 'the new single speed_set starts as None', 'speed_set is %s' % (show(ss)[:80] if ss else None), ctx.where(b))
    sv = got.get('speed_sets')
    from_old = any('speed_sets' in show(a, an.names) for c in an.calls for a in c.argvals)
    ctx.check(sv is not None and ('speed_sets' in show(sv, an.names) or from_old), 'C16-5.legacy', fid + '|speed_sets', 'speed_sets is built from the legacy vector',
              'speed_sets is %s' % (show(sv, an.names)[:120] if sv else None), ctx.where(b))


# ------------------------------------------------------------------ C16-7: the checking helpers every rule above goes through
ARG = ('pre', (('obj', 2),))


def _atom(c):
    """name of the elementary test a decision of a numeric helper makes about its argument, or None"""
    if c[0] == 'uf' and len(c) == 3 and c[2] == ARG:
        nm = c[1].split('::')[-1]
        if nm in ('is_nan', 'is_infinite', 'is_finite', 'is_fake'):
            return nm
    if c[0] in ('ge', 'gt', 'ne', 'eq', 'le', 'lt') and c[1] == ARG and c[2] == ZERO:
        return c[0] + '0'
    if c[0] == 'discr':
        x = c[1]
        if x[0] == 'uf' and x[1].endswith('partial_cmp') and x[2] == ARG and x[3] == ZERO:
            return 'cmp_some'
        if x[0] == 'proj' and x[1][0] == 'proj' and x[1][1][0] == 'uf' and x[1][1][1].endswith('partial_cmp') and x[1][1][2] == ARG and x[1][1][3] == ZERO:
            return 'cmp_ord'
    return None


# worlds: the value class of the argument.  Each world fixes every atom.
WORLDS = {
    'NaN':  dict(is_nan=True,  is_infinite=False, is_finite=False, ge0=False, gt0=False, le0=False, lt0=False, ne0=True,  eq0=False, cmp_some=False, cmp_ord=None),
    '-inf': dict(is_nan=False, is_infinite=True,  is_finite=False, ge0=False, gt0=False, le0=True,  lt0=True,  ne0=True,  eq0=False, cmp_some=True,  cmp_ord=255),
    '<0':   dict(is_nan=False, is_infinite=False, is_finite=True,  ge0=False, gt0=False, le0=True,  lt0=True,  ne0=True,  eq0=False, cmp_some=True,  cmp_ord=255),
    '0':    dict(is_nan=False, is_infinite=False, is_finite=True,  ge0=True,  gt0=False, le0=True,  lt0=False, ne0=False, eq0=True,  cmp_some=True,  cmp_ord=0),
    '>0':   dict(is_nan=False, is_infinite=False, is_finite=True,  ge0=True,  gt0=True,  le0=False, lt0=False, ne0=True,  eq0=False, cmp_some=True,  cmp_ord=1),
    '+inf': dict(is_nan=False, is_infinite=True,  is_finite=False, ge0=True,  gt0=True,  le0=False, lt0=False, ne0=True,  eq0=False, cmp_some=True,  cmp_ord=1),
}
# helper -> the worlds in which it must raise an error
NUMERIC = {
    'si_chk_num':         {'NaN'},
    'si_chk_num_fin':     {'NaN', '-inf', '+inf'},
    'si_chk_num_gez':     {'NaN', '-inf', '<0'},
    'si_chk_num_gtz':     {'NaN', '-inf', '<0', '0'},
    'si_chk_num_gez_fin': {'NaN', '-inf', '<0', '+inf'},
    'si_chk_num_gtz_fin': {'NaN', '-inf', '<0', '0', '+inf'},
    'si_chk_num_eqz':     {'NaN', '-inf', '<0', '>0', '+inf'},
}


def _holds(c, o, world):
    """truth of decision (c, o) in a world; None when the decision is not one of the recognised tests"""
    pos = True
    while c[0] == 'not':
        c = c[1]; pos = not pos
    a = _atom(c)
    if a is None:
        return None
    v = world[a]
    if a == 'cmp_ord':
        if v is None or o == 'otherwise':
            return None
        r = str(v) in o.split('|')
    elif a == 'cmp_some':
        r = (o != '0') == v
    else:
        r = (o != '0') == v
    return r if pos else (not r)


def _push_worlds(ctx, an, site_pc):
    """the set of worlds in which a site with this path condition is reached, or None (unrecognised decision)"""
    from .speedprofile import _alternatives
    alts = _alternatives(site_pc)
    if alts is None:
        return None
    out = set()
    for wn, w in WORLDS.items():
        for conj in alts:
            vals = []
            for c, o in conj:
                if _atom(c) == 'cmp_ord' and w['cmp_some'] is False:
                    vals.append(False); continue          # the ordering is only inspected under Some(..)
                vals.append(_holds(c, o, w))
            if any(v is None for v in vals):
                return None
            if all(vals):
                out.add(wn); break
    return out


def _fn(ctx, name):
    c = [b for f, b in ctx.prog.by_id.items() if (f == name or f.endswith('::' + name)) and not b.test and b.kind == 'fn']
    return c[0] if len(c) == 1 else None


def helpers(ctx):
    """C16-7.helpers: every documented rule is raised through one of the small checking helpers of validate.rs, and every
    level of the network (links -> elevation / heading / speed / catenary sections -> their elements) is reached through the
    delegating helpers.  Decided here: each numeric helper raises its error in exactly the value classes its name promises
    (NaN, -inf, negative, zero, positive, +inf; by evaluating the path condition of its error push in each class); the
    field helpers raise on the wrong real/fake state and ALWAYS validate the field, handing every nested error on; the
    slice helpers do the same for EVERY element of the slice (plain loop); the Vec / HashMap adaptors forward to them."""
    R = 'C16-7.helpers'
    eng = engine(ctx)
    n = 0
    for name, want in NUMERIC.items():
        b = _fn(ctx, name)
        if b is None:
            ctx.unproved(R, name, 'helper not found (anchor)'); continue
        eng.all_paths.add(b.fid)
        an = analysis_or_fail(ctx, R, b)
        if an is None:
            continue
        pushes = [c for c in an.calls if re.sub(r'::<.*?>', '', c.callee).endswith('ComboErrors::push')]
        if len(pushes) != 1:
            ctx.unproved(R, name, 'expected one error push, found %d' % len(pushes), ctx.where(b)); continue
        got = _push_worlds(ctx, an, pushes[0].pc)
        n += 1
        if got is None:
            ctx.unproved(R, name, 'the error push is decided by a test that is not one of the recognised elementary tests on the argument: %s'
                         % [(show(c, an.names)[:80], o) for c, o in pushes[0].pc], ctx.where(b, pushes[0].span)); continue
        ctx.check(got == want, R, name, 'raises an error exactly for %s' % sorted(want),
                  'raises an error for %s, expected %s (differs on %s)' % (sorted(got), sorted(want), sorted(got ^ want)), ctx.where(b, pushes[0].span))
    ctx.floor('numeric helpers', n, 7)

    # field helpers
    m = 0
    for name, fake_expected in (('validate_field_real', False), ('validate_field_fake', True)):
        b = _fn(ctx, name)
        if b is None:
            ctx.unproved(R, name, 'helper not found (anchor)'); continue
        eng.all_paths.add(b.fid)
        an = analysis_or_fail(ctx, R, b)
        if an is None:
            continue
        m += 1
        _delegating(ctx, R, name, b, an, fake_expected, elementwise=False)
    for name, fake_expected in (('validate_slice_real_shift', False), ('validate_slice_fake_shift', True)):
        b = _fn(ctx, name)
        if b is None:
            ctx.unproved(R, name, 'helper not found (anchor)'); continue
        eng.all_paths.add(b.fid)
        an = analysis_or_fail(ctx, R, b)
        if an is None:
            continue
        m += 1
        _delegating(ctx, R, name, b, an, fake_expected, elementwise=True)
    # thin forwarders
    for name, target in (('validate_slice_real', 'validate_slice_real_shift'), ('validate_slice_fake', 'validate_slice_fake_shift')):
        b = _fn(ctx, name)
        if b is None:
            ctx.unproved(R, name, 'helper not found (anchor)'); continue
        eng.all_paths.add(b.fid)
        an = analysis_or_fail(ctx, R, b)
        if an is None:
            continue
        m += 1
        cs = [c for c in an.calls if re.sub(r'::<.*?>', '', c.callee).endswith(target)]
        ok = len(cs) == 1 and not cs[0].pc and len(cs[0].argvals) >= 2 and cs[0].argvals[1] in (('pre', (('val', 2),)), ('ref', (('obj', 2),), 'shr'), ('pre', (('obj', 2),))) \
            or (len(cs) == 1 and not cs[0].pc and 'arg2' in show(cs[0].argvals[1], an.names))
        ctx.check(ok, R, name, 'forwards the whole slice, unconditionally, to %s' % target,
                  'does not forward its slice unconditionally to %s: %s' % (target, [(show(a, an.names)[:60]) for c in cs for a in c.argvals]), ctx.where(b))
    ctx.floor('delegating helpers', m, 6)
    # the map adaptor hands ALL its values on
    fid = '<HashMap<TrainType,SpeedSet> as ObjState>::validate'
    b = ctx.prog.by_id.get(fid)
    if b is None:
        ctx.unproved(R, fid, 'validator not found (anchor)')
    else:
        eng.all_paths.add(fid)
        an = analysis_or_fail(ctx, R, b)
        if an is not None:
            cs = [c for c in an.calls if re.sub(r'::<.*?>', '', c.callee).endswith('validate_slice_real')]
            pt = cs[0].pointees[1] if len(cs) == 1 and cs[0].pointees and len(cs[0].pointees) > 1 else None
            txt = show(pt, an.names) if pt is not None else None
            ctx.check(len(cs) == 1 and not cs[0].pc and txt == 'iter.collect(HashMap::values(self))', R, fid + '|all values',
                      'every value of the map is handed to validate_slice_real', 'the slice handed on is %s' % txt, ctx.where(b))


def _delegating(ctx, R, name, b, an, fake_expected, elementwise):
    norm_c = lambda c: re.sub(r'::<.*?>', '', c.callee)
    pushes = [c for c in an.calls if norm_c(c).endswith('ComboErrors::push')]
    vals = [c for c in an.calls if norm_c(c).endswith('ObjState>::validate')]
    apps = [c for c in an.calls if norm_c(c).endswith('::append')]
    w = ctx.where(b)
    if len(pushes) != 1 or len(vals) != 1 or len(apps) != 1:
        ctx.unproved(R, name, 'expected one error push, one validate() call and one append of nested errors; found %d / %d / %d' % (len(pushes), len(vals), len(apps)), w)
        return

    def strip_iter(pc):
        out, it = [], 0
        for c, o in pc or ():
            if plain_iteration(c) and o == '1':
                it += 1
            else:
                out.append((c, o))
        return out, it

    def subject(t):
        """the thing is_fake / validate is asked about: the field (arg 2) or, elementwise, an element of the slice (arg 2)"""
        s_ = show(t, an.names)
        return s_

    # (1) the real / fake test
    ppc, it = strip_iter(pushes[0].pc)
    from .speedprofile import _alternatives
    alts = _alternatives(ppc)
    ok = alts is not None and bool(alts)
    seen_subject = None
    if ok:
        for truth in (True, False):          # is_fake(x) = truth: pushed?
            pushed = False
            for conj in alts:
                vs = []
                for c, o in conj:
                    pos = True
                    while c[0] == 'not':
                        c = c[1]; pos = not pos
                    if c[0] == 'uf' and c[1].endswith('is_fake') and len(c) == 3:
                        seen_subject = c[2]
                        v = (o != '0') == truth
                        vs.append(v if pos else not v)
                    else:
                        vs.append(None)
                if any(v is None for v in vs):
                    ok = False; break
                if all(vs):
                    pushed = True
            if not ok:
                break
            if pushed != (truth != fake_expected):
                ok = False; break
    want_txt = 'fake' if not fake_expected else 'real'
    ctx.check(ok and (it == 1) == elementwise, R, name + '|state',
              'an error is raised exactly when the %s is %s' % ('element' if elementwise else 'field', want_txt),
              'the error push is decided by %s' % [(show(c, an.names)[:80], o) for c, o in pushes[0].pc], ctx.where(b, pushes[0].span))
    # (2) validate() is always called (for every element), on the same subject
    vpc, vit = strip_iter(vals[0].pc)
    subj = vals[0].argvals[0] if vals[0].argvals else None
    subj_s = show(subj, an.names) if subj is not None else ''
    def path_of(t):
        while t is not None and t[0] in ('deref',):
            t = t[1]
        if t is not None and t[0] in ('pre', 'ref'):
            return t[1]
        return None
    same = seen_subject is not None and path_of(seen_subject) is not None and path_of(seen_subject) == path_of(subj)
    ctx.check(not vpc and (vit == 1) == elementwise and same, R, name + '|validate',
              'validate() is called on %s, unconditionally' % ('every element of the slice' if elementwise else 'the field'),
              'validate() is called under %s on %s (the real/fake test is about %s)' % ([(show(c, an.names)[:80], o) for c, o in vals[0].pc], subj_s[:80],
                                                                                     show(seen_subject, an.names)[:80] if seen_subject else None), ctx.where(b, vals[0].span))
    # (3) nested errors are handed on whenever validate() returned Err, into the caller's error list
    apc, ait = strip_iter(apps[0].pc)
    okc = len(apc) == 1 and apc[0][0][0] == 'discr' and apc[0][0][1] == vals[0].result and apc[0][1] == '1' and (ait == 1) == elementwise
    dst = show(apps[0].argvals[0], an.names) if apps[0].argvals else ''
    ctx.check(okc and ('arg1' in dst or 'errors' in dst), R, name + '|nested',
              'the nested errors are appended to the caller\'s error list exactly when validate() returned Err',
              'append of nested errors is decided by %s, destination %s' % ([(show(c, an.names)[:80], o) for c, o in apps[0].pc], dst[:80]), ctx.where(b, apps[0].span))
