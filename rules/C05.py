"""C05 — dispatch returns a complete, memory-safe plan or an explicit error (DESIGN §5 C05): necessary conditions."""
import re, collections
from sa.program import strip_generics
from sa.terms import show, walk, ZERO, ONE, FALSE
from sa.cfg import CFG
from .common import engine, inventory, analysis_or_fail, plain_iteration

LEVEL = 'other'
MANIFEST = {
    'category': 'other',
    'engine': 'structure+svn',
    'technique': 'unsafe-operation inventory (AST + MIR) + dominance of the sentinel-scan premises + must-pass-through guards and return-term check of run_dispatch',
    'text': ('Necessary conditions only. Memory safety: the crate\'s unsafe operations are exactly the reviewed unchecked slice '
             'accesses of the three sentinel searches (anything else anywhere fails the check); for each unchecked scan the premises of '
             'its in-bounds argument are present and dominate it (sentinel index < length asserted, sentinel value stored or asserted '
             'before the scan, scan starts at or before the sentinel, the scan loop stores nothing but its own index, an overwritten '
             'element is restored afterwards). Completeness: the Ok value of run_dispatch is one timed path per dispatched train '
             '(map over train_disps[1..] of calc_timed_path), every Ok exit is dominated by the "no train stuck" test whose other '
             'branch is the error naming the stuck trains, the input lengths are compared, one TrainDisp is pushed per input train; '
             'calc_timed_path emits (link, time_pass) of every Arrive node and requires the path to be fully fixed.'),
    'note': ('Not decided: termination of the search, route contiguity and time monotonicity of the result, the correctness of the '
             'sentinel index handed in by update_free_path, and absence of the dispatch code\'s assert!-panics on accepted inputs '
             '(each is an invariant of the search history). The claim is "these parts are as the property needs them".'),
}
EXPLANATION = 'Unsafe inventory + premise dominance for the sentinel scans + structural completeness facts of run_dispatch.'
RULES = ['C05-1.unsafe', 'C05-1.premises', 'C05-2.complete', 'C05-3.timedpath', 'C05-4.times', 'C05-5.index', 'C05-6.cursor', 'C05-7.blocking', 'C05-8.queue', 'C05-9.divnodes', 'C05-10.esttimes', 'C05-11.blocked', 'C05-12.protocol', 'C05-13.initpath']
ASSUMPTIONS = ['the sentinel index passed by callers is the one the scan was designed for (not decided)']

# reviewed unsafe sites: function -> number of unchecked accesses (DESIGN A.3; 14 in total)
REVIEWED_UNSAFE = {'calc_idx_sentinels': 2, 'find_train_intersect': 10, 'add_blocking_trains': 2}
UNSAFE_CALLEE = re.compile(r'(get_unchecked(_mut)?|from_raw_parts(_mut)?|transmute(_copy)?|\w+_unchecked(_mut)?|set_len|assume_init(_\w+)?|zeroed|'
                           r'ptr::(read|write|copy|copy_nonoverlapping|swap|replace)(_\w+)?)$')

def run(ctx):
    unsafe_inventory(ctx)
    premises(ctx)
    caller_premises(ctx)
    complete(ctx)
    timedpath(ctx)
    cursor(ctx)
    blocking(ctx)
    queue(ctx)
    divnodes(ctx)
    protocol(ctx)
    initpath(ctx)
    # clauses shared with C04, decided by the same rules: the time an advance starts from and the stamps it writes (arrival times
    # non-decreasing and never faster than the free-running estimates), and the addressing of authorities (a wrong entry index
    # reads another train's authority or aborts past the end of the list)
    from .common import RuleProxy
    from . import C04
    # the routes the dispatcher returns are walks through each train's estimated-time network: that the network is well-formed and
    # route-faithful (every clause of C15) is necessary for 'contiguous' and 'never faster than the free-running times'
    from . import C15
    C15.run(RuleProxy(ctx, {k: 'C05-10.esttimes' for k in C15.RULES}))
    C04.run(RuleProxy(ctx, {'C04-0.start': 'C05-4.times', 'C04-4.entry': 'C05-4.times', 'C04-6.clear': 'C05-4.times', 'C04-7.occupancy': 'C05-4.times', 'C04-8.index': 'C05-5.index', 'C04-9.blocked': 'C05-11.blocked'}))


def protocol(ctx):
    """C05-12.protocol: the main loop of run_dispatch fixes an advance only in a configuration the deadlock check found free, and
    rewinds on a positive verdict: the decision directly guarding the loop-end fix_advance is on the deadlock verdict (the first
    component of check_deadlock's result, or the flag carried over from the previous round) with outcome false; the rewind is
    guarded by the verdict with outcome true.  (An inverted test fixes deadlocked configurations and keeps advancing free ones.)"""
    R = 'C05-12.protocol'
    b = ctx.anchor(R, 'run_dispatch')
    if b is None:
        return
    an = analysis_or_fail(ctx, R, b)
    if an is None:
        return
    cds = [c for c in an.calls if c.targets and any(t.endswith('check_deadlock') for t in c.targets)]
    verdicts = []
    for c in cds:
        r = c.result
        if r and r[0] == 'ok' and r[1][0] == 'tuple' and len(r[1]) >= 2:
            verdicts.append(r[1][1])
    if len(verdicts) < 2:
        ctx.unproved(R, 'run_dispatch|verdicts', 'expected the results of two check_deadlock calls (after advancing, after rewinding), found %d' % len(verdicts), ctx.where(b))
        return

    def leaves(t, out):
        if t[0] == 'gamma':
            leaves(t[2], out); leaves(t[3], out)
        else:
            out.append(t)

    def is_verdict(t):
        ls = []
        leaves(t, ls)
        return bool(ls) and any(x in verdicts for x in ls) and all(x in verdicts or (x[0] == 'loopvar' and x[2][0][0] == 'local') for x in ls)
    fx = [c for c in an.calls if c.targets and any(t.endswith('TrainDisp::fix_advance') for t in c.targets)]
    rw = [c for c in an.calls if c.targets and any(t.endswith('TrainDisp::rewind') for t in c.targets)]
    # the fix at the end of the loop body is the one not under the "train has finished" branch: the last of the calls in block order
    ctx.check(len(fx) == 2 and len(rw) == 1, R, 'run_dispatch|sites', 'two fix_advance sites (finished train, deadlock-free advance) and one rewind site',
              'found %d fix_advance and %d rewind call sites' % (len(fx), len(rw)), ctx.where(b))
    if len(fx) == 2 and len(rw) == 1:
        end = fx[1]
        dec = [(cnd, o) for cnd, o in end.pc if cnd[0] != 'pathset']
        cnd, o = dec[-1] if dec else (None, None)
        ctx.check(cnd is not None and is_verdict(cnd) and o == '0', R, 'run_dispatch|fix only when free',
                  'the advance is fixed (and the round ends) on the FALSE outcome of the deadlock verdict',
                  'fix_advance is guarded by outcome %s of %s' % (o, show(cnd, an.names)[:160] if cnd else None), ctx.where(b, end.span))
        hit = [(cnd, o) for cnd, o in rw[0].pc if cnd in verdicts or is_verdict(cnd)]
        ctx.check(bool(hit) and all(o not in ('0',) for cnd, o in hit), R, 'run_dispatch|rewind on deadlock',
                  'the rewind is taken on the TRUE outcome of the deadlock verdict', 'rewind is guarded by %s' % [(o, show(cnd, an.names)[:80]) for cnd, o in hit], ctx.where(b, rw[0].span))
        # the finished train: fixed under the abort-unless-free assertion (a diverging edge on the verdict precedes the call)
        inv = inventory(ctx)
        cfg = inv.cfg(b)
        ctx.check(fx[0].block in cfg.reach and fx[0].block != end.block, R, 'run_dispatch|finished', 'a finished train is fixed in its own branch', 'sites coincide', ctx.where(b, fx[0].span))


def initpath(ctx):
    """C05-13.initpath: the dispatch path a train starts with is the walk along the primary successors of its estimated-time
    network, from node 0 to the end: one DispNode per visited node (its own event, its own index, the distance accumulated so far),
    the cursor moves to idx_next of the node just visited, and the walk ends exactly when that successor is the NA sentinel."""
    from sa.terms import mk
    R = 'C05-13.initpath'
    b = ctx.anchor(R, 'TrainDisp::new')
    if b is None:
        return
    an = analysis_or_fail(ctx, R, b)
    if an is None:
        return
    w = ctx.where(b)
    ps = [c for c in an.calls if c.in_loop and re.search(r'::push$', strip_generics(c.callee)) and c.argvals and len(c.argvals) > 1
          and c.argvals[1][0] == 'agg' and c.argvals[1][1] == 'DispNode']
    if len(ps) != 1:
        ctx.unproved(R, 'TrainDisp::new|nodes', 'expected one DispNode push inside the path-construction loop, found %d' % len(ps), w); return
    f = dict(ps[0].argvals[1][2])
    cur, off, ev = f.get('est_idx'), f.get('offset'), f.get('link_event')
    if not (cur and cur[0] == 'loopvar' and off and off[0] == 'loopvar' and cur[1] == off[1]):
        ctx.unproved(R, 'TrainDisp::new|nodes', 'node index / offset are not values carried by one loop: %s' % show(ps[0].argvals[1], an.names)[:200], w); return
    H = cur[1]
    own = ev is not None and ev[0] == 'pre' and ev[1][-1] == ('f', 'link_event') and any(x == cur for x in walk(ev)) and ev[1][0] == ('val', b.params[7][0])
    ctx.check(own, R, 'TrainDisp::new|nodes', 'each node carries the event of the estimated-time node at the cursor, the cursor itself and the accumulated distance',
              'node pushed is %s' % show(ps[0].argvals[1], an.names)[:240], ctx.where(b, ps[0].span))
    ent = an.loop_entry.get(H)
    e_cur = an.load(cur[2], ent) if ent is not None else None
    e_off = an.load(off[2], ent) if ent is not None else None
    ctx.check(e_cur == ZERO and e_off == ZERO, R, 'TrainDisp::new|start', 'the walk starts at node 0 with distance 0',
              'on loop entry cursor = %s, distance = %s' % (show(e_cur, an.names)[:60] if e_cur else None, show(e_off, an.names)[:60] if e_off else None), w)
    backs = an.loop_back.get(H, [])
    okn = oko = okx = bool(backs)
    seen = ''
    for st in backs:
        n_cur, n_off = an.load(cur[2], st), an.load(off[2], st)
        nxt_ok = n_cur[0] == 'pre' and n_cur[1][-1] == ('f', 'idx_next') and any(x == cur for x in walk(n_cur)) and n_cur[1][0] == ('val', b.params[7][0])
        okn = okn and nxt_ok
        dist_ok = n_off[0] == 'add' and off in n_off[1:] and any(x[0] == 'pre' and x[1][-1] == ('f', 'dist_to_next') and any(y == cur for y in walk(x)) for x in n_off[1:])
        oko = oko and dist_ok
        dec = [(c_, o) for c_, o in st.pc if c_[0] != 'pathset']
        last = dec[-1] if dec else None
        ex_ok = bool(last) and last[0][0] == 'eq' and last[1] == '0' and ZERO in last[0][1:] and n_cur in last[0][1:]
        okx = okx and ex_ok
        seen = 'cursor := %s; distance := %s; continue on %s' % (show(n_cur, an.names)[:80], show(n_off, an.names)[:80], (show(last[0], an.names)[:80], last[1]) if last else None)
    ctx.check(okn, R, 'TrainDisp::new|successor', 'the cursor moves to idx_next (the primary successor) of the node just visited', seen, w)
    ctx.check(oko, R, 'TrainDisp::new|distance', 'the distance grows by dist_to_next of the node just visited', seen, w)
    ctx.check(okx, R, 'TrainDisp::new|end', 'the walk continues exactly while the successor is not the NA sentinel (0)', seen, w)


def unsafe_inventory(ctx):
    prog = ctx.prog
    # --- syntax: unsafe blocks / fns / impls / tokens inside macro arguments, non-test
    blocks = [r for r in prog.unsafe_blocks if not r['ctx']['test']]
    per_fn = collections.Counter((r['ctx']['in_fn'] or '').replace('fn ', '') for r in blocks)
    ctx.analysed['unsafe_blocks'] = dict(per_fn)
    for fn, n in sorted(per_fn.items()):
        base = fn.split('::')[-1]
        ctx.check(base in REVIEWED_UNSAFE, 'C05-1.unsafe', 'unsafe block in %s' % fn, 'reviewed sentinel search (%d block(s))' % n,
                  'unsafe block in a function that is not one of the reviewed sentinel searches')
    ufn = [(r['name'], r['ctx']['file']) for r in prog.ast if r['kind'] == 'fn' and r.get('unsafe') and not r['ctx']['test']]
    uimpl = [(r['self_ty'], r['ctx']['file']) for r in prog.impls if r.get('unsafe') and not r['ctx']['test']]
    umeth = [(f['name'], r['ctx']['file']) for r in prog.impls for f in r['fns'] if f.get('unsafe') and not r['ctx']['test']]
    utok = [(m['name'], m['ctx']['file'], m['pos'][0]) for m in prog.macros if m['unsafe_tokens'] and not m['ctx']['test']]
    ctx.check(not (ufn or uimpl or umeth or utok), 'C05-1.unsafe', 'unsafe fn / impl / macro tokens', 'no unsafe fn, unsafe impl or unsafe token inside macro arguments',
              'unreviewed unsafe items: %s' % ((ufn + uimpl + umeth + utok)[:6],))
    # --- MIR: calls of unsafe operations per function (covers macro-generated code as well)
    per = collections.Counter()
    for b in prog.bodies:
        if b.kind != 'fn' or b.test:
            continue
        if re.search(r'derive\((Clone|Debug|PartialEq|Serialize|Deserialize|Default)\)', b.fid or ''):
            continue
        for bn in b.order:
            t = b.blocks[bn].term
            if t.kind == 'call':
                name = strip_generics(t.callee)
                # only operations written in the crate's own sources: std macro expansions (vec!, format!) carry std spans
                if UNSAFE_CALLEE.search(name) and (t.span or '').startswith('altrios-core/src'):
                    per[b.fid] += 1
    ctx.analysed['unchecked_calls'] = dict(per)
    total = 0
    for fid, n in sorted(per.items()):
        base = fid.split('::')[-1]
        if base in REVIEWED_UNSAFE:
            total += n
            ctx.check(n == REVIEWED_UNSAFE[base], 'C05-1.unsafe', 'unchecked accesses in %s' % fid, '%d unchecked slice accesses, as reviewed' % n,
                      '%d unchecked accesses, %d were reviewed' % (n, REVIEWED_UNSAFE[base]))
        else:
            ctx.bad('C05-1.unsafe', 'unchecked operation in %s' % fid, '%d unsafe operation call(s) outside the reviewed sentinel searches' % n,
                    ctx.where(prog.by_id[fid]) if fid in prog.by_id else None)
    ctx.floor('reviewed unchecked accesses found', total, 14)


def _calls(cfg, pat):
    return [(bn, t) for bn, t in cfg.call_sites() if re.search(pat, strip_generics(t.callee))]


def premises(ctx):
    """for every unchecked scan loop: the premises of the in-bounds argument dominate it"""
    prog = ctx.prog
    eng = engine(ctx)
    n_loops = 0
    for base in REVIEWED_UNSAFE:
        b = prog.find_fn(base)
        if b is None:
            ctx.unproved('C05-1.premises', base, 'function not found (anchor)'); continue
        eng.all_paths.add(b.fid)
        eng.ana.pop(b.fid, None); eng.summ.pop(b.fid, None)
        an = analysis_or_fail(ctx, 'C05-1.premises', b)
        if an is None:
            continue
        cfg = an.cfg
        loops = cfg.loops
        # unchecked reads inside loops = scans
        scans = [c for c in an.calls if re.search(r'get_unchecked$', strip_generics(c.callee)) and c.in_loop]
        stores = [c for c in an.calls if re.search(r'get_unchecked_mut$', strip_generics(c.callee))]
        # abort-guards of this function (assert! lowers to a branch whose other side panics)
        aborts = abort_guards(an)
        for sc in scans:
            hdrs = [h for h, body in loops.items() if sc.block in body]
            inner = min(hdrs, key=lambda h: len(loops[h]))
            outer = max(hdrs, key=lambda h: len(loops[h]))
            n_loops += 1
            key = '%s|scan@%s' % (b.fid, _span_line(sc.span))
            S = sc.argvals[0]
            # P4: the innermost scan loop stores nothing through pointers and calls no mutating function
            bad_w = []
            for bn in loops[inner]:
                for s in b.blocks[bn].stmts:
                    if s.kind == 'assign' and s.lhs.proj:
                        bad_w.append((bn, s.raw[:60]))
                t = b.blocks[bn].term
                if t.kind == 'call' and re.search(r'get_unchecked_mut|::push|::insert|::swap|IndexMut', strip_generics(t.callee)):
                    bad_w.append((bn, strip_generics(t.callee)[-40:]))
            ctx.check(not bad_w, 'C05-1.premises', key + '|scan writes only its index', 'the scan loop writes no memory besides its own index variable',
                      'the scan loop writes memory: %s' % bad_w[:3], ctx.where(b, sc.span))
            # P6: the scan moves TOWARDS the sentinel, one element at a time: every index variable of the innermost loop that the unchecked
            #     read uses is, on every back edge, either unchanged or itself + 1 (a scan that steps the other way leaves the buffer)
            ivs = list(dict.fromkeys(x for x in walk(sc.argvals[1]) if x[0] == 'loopvar' and x[2] and x[2][0][0] in ('local', 'val') and len(x[2]) == 1))
            step_ok = bool(ivs)
            seen_step = ''
            for v in ivs:
                plus = False
                for st_ in an.loop_back.get(v[1], []):
                    nv = an.load(v[2], st_)
                    lv = []
                    def _lv(t):
                        if t[0] == 'gamma':
                            _lv(t[2]); _lv(t[3])
                        else:
                            lv.append(t)
                    _lv(nv)
                    for x in lv:
                        if x == v:
                            continue
                        if x[0] == 'add' and len(x) == 3 and v in x[1:] and ONE in x[1:]:
                            plus = True
                        else:
                            step_ok = False
                            seen_step = show(x, an.names)[:100]
                step_ok = step_ok and plus
            ctx.check(step_ok, 'C05-1.premises', key + '|unit step towards the sentinel', 'the scan index advances by exactly one element per iteration',
                      'scan index update: %s' % (seen_step or 'no index variable of the scan loop found in %s' % show(sc.argvals[1], an.names)[:80]), ctx.where(b, sc.span))
            # P1/P2: sentinel in place before the scan: either an unchecked store at index s that dominates the loop, with an abort-guard
            #        s < len(slice) (or len == s followed by a push), or an abort-guard that the last element equals the sentinel
            same = lambda a_, b_: a_ == b_ or (a_[0] == 'ref' and b_[0] == 'ref' and a_[1] == b_[1])
            dom_stores = [st for st in stores if same(st.argvals[0], S) and cfg.dominates(st.block, inner) and st.block not in loops[inner]]
            last_guard = [g for g in aborts if 'last' in g[1] or re.search(r'\(len\([^)]*\) - 1\)\]', g[1])]
            if dom_stores:
                s_idx = dom_stores[0].argvals[1]
                sidx_txt = show(s_idx, an.names)
                bound = [g for g in aborts if (g[0][0] == 'lt' and g[0][1] == s_idx and g[0][2][0] == 'len') or
                         (g[0][0] == 'eq' and g[0][1][0] == 'len' and sidx_txt in g[1])]
                ctx.check(bool(bound), 'C05-1.premises', key + '|sentinel index in bounds',
                          'an abort-guard bounds the sentinel index %s by the slice length before it is written unchecked' % sidx_txt[:60],
                          'no assert bounds the sentinel index %s by the slice length (guards: %s)' % (sidx_txt[:60], [g[1][:60] for g in aborts][:5]),
                          ctx.where(b, dom_stores[0].span))
                ctx.ok('C05-1.premises', key + '|sentinel stored before the scan', 'the sentinel value is stored at index %s in a block that dominates the scan loop' % sidx_txt[:60],
                       ctx.where(b, dom_stores[0].span))
                # P5: restored afterwards when the slice is the caller's data (&mut [T] parameter, not a scratch vector being built)
                after = [st for st in stores if same(st.argvals[0], S) and st.argvals[1] == s_idx and st.block not in loops[outer] and
                         st is not dom_stores[0] and cfg.dominates(outer, st.block)]
                saved = [c for c in an.calls if re.search(r'get_unchecked$', strip_generics(c.callee)) and same(c.argvals[0], S) and c.argvals[1] == s_idx
                         and cfg.dominates(c.block, dom_stores[0].block)]
                if saved:
                    ctx.check(bool(after), 'C05-1.premises', key + '|overwritten element restored',
                              'the element overwritten by the sentinel is saved before and written back after the scan',
                              'the saved element is not written back after the scan', ctx.where(b, sc.span))
                # P3: the scan starts at or before the sentinel: an early return / abort-guard relates start and sentinel
                core = re.findall(r'[A-Za-z_][\w.]*', sidx_txt)
                core = [c_ for c_ in core if c_ not in ('unwrap', 'try_into')]
                core = core[-1] if core else sidx_txt
                start_ok = [g for g in early_returns(an) + aborts if core in g[1] and 'len(' not in g[1] and g[0][0] in ('lt', 'le', 'gt', 'ge', 'not')]
                ctx.check(bool(start_ok), 'C05-1.premises', key + '|start at or before the sentinel',
                          'a guard relates the start index to the sentinel index before the scan (%s)' % (start_ok[0][1][:80] if start_ok else ''),
                          'no guard relates the start index to the sentinel index %s' % sidx_txt[:60], ctx.where(b, sc.span))
            elif last_guard:
                ctx.ok('C05-1.premises', key + '|sentinel asserted', 'an abort-guard asserts that the last element is the sentinel: %s' % last_guard[0][1][:100],
                       ctx.where(b, sc.span))
                start = [g for g in aborts if g[0][0] == 'lt' and g[0][2][0] == 'len']
                ctx.check(bool(start), 'C05-1.premises', key + '|start in bounds', 'an abort-guard bounds the start index by the slice length: %s' % (start[0][1][:80] if start else ''),
                          'no assert bounds the start index', ctx.where(b, sc.span))
            else:
                # bounded scan: the loop condition itself compares the index with the sentinel index, which is asserted < len
                conds = [show(cnd, an.names) for cnd, o in sc.pc]
                bounded = [c_ for c_ in conds if ' < ' in c_]
                lenb = [g for g in aborts if g[0][0] == 'lt' and g[0][2][0] == 'len']
                ctx.check(bool(bounded) and bool(lenb), 'C05-1.premises', key + '|bounded scan',
                          'the unchecked read is inside a loop whose condition bounds the index by an index asserted < len (%s)' % (bounded[-1][:80] if bounded else ''),
                          'unchecked read without sentinel store, sentinel assert or bounded loop condition', ctx.where(b, sc.span))
    ctx.floor('unchecked scan loops analysed', n_loops, 5)


def _span_line(span):
    m = re.search(r':(\d+):\d+', span or '')
    return m.group(1) if m else '?'


def abort_guards(an):
    """[(cond term that holds past the guard, printed)] of guards whose other branch aborts (assert!) or panics"""
    out = []
    for g in an.guards:
        if g.kind == 'assert':
            continue
        t = g.holds_term()
        out.append((t, show(t, an.names)))
    # in all-paths mode guards from dead branches are not produced: reconstruct from branches leading to a panic call
    b = an.body
    cfg = an.cfg
    for bn in b.order:
        t = b.blocks[bn].term
        if t.kind != 'switch':
            continue
        targets = [(k, v) for k, v in t.targets.items() if v.startswith('bb')]
        if len(targets) != 2:
            continue
        dead = [(k, v) for k, v in targets if _only_aborts(cfg, v)]
        if len(dead) != 1:
            continue
        st = an.block_in.get(bn)
        if st is None:
            continue
        st = st.copy()
        for s in b.blocks[bn].stmts:
            an._stmt(s, st, None)
        d = an.operand(t.discr, st)
        live_key = [k for k, v in targets if (k, v) != dead[0]][0]
        from sa.terms import mk
        cond = d if live_key != '0' else mk('not', d)
        out.append((cond, show(cond, an.names)))
    return out


def _only_aborts(cfg, bb, depth=0):
    """every path from bb ends in a diverging call (panic) without returning"""
    seen = set()
    work = [bb]
    while work:
        x = work.pop()
        if x in seen:
            continue
        seen.add(x)
        if len(seen) > 12:
            return False
        t = cfg.blocks[x].term
        if t.kind == 'return':
            return False
        succ = cfg.succ[x]
        if not succ:
            if not (t.kind == 'call' or t.kind == 'unreachable'):
                return False
            continue
        work.extend(succ)
    return True


def early_returns(an):
    """decisions after which one side returns immediately (if a >= b { return })"""
    out = []
    b = an.body
    cfg = an.cfg
    for bn in b.order:
        t = b.blocks[bn].term
        if t.kind != 'switch' or bn not in an.block_in:
            continue
        targets = [(k, v) for k, v in t.targets.items() if v.startswith('bb')]
        if len(targets) != 2:
            continue
        for k, v in targets:
            # the side returns without any call
            x = v
            steps = 0
            ok = False
            while steps < 5:
                tt = cfg.blocks[x].term
                if tt.kind == 'return':
                    ok = True; break
                if tt.kind == 'goto' and cfg.succ[x]:
                    x = cfg.succ[x][0]; steps += 1
                else:
                    break
            if ok:
                st = an.block_in[bn].copy()
                for s in b.blocks[bn].stmts:
                    an._stmt(s, st, None)
                d = an.operand(t.discr, st)
                from sa.terms import mk
                other = [kk for kk, vv in targets if kk != k][0]
                cond = d if other != '0' else mk('not', d)
                out.append((cond, show(cond, an.names)))
    return out


def complete(ctx):
    prog = ctx.prog
    eng = engine(ctx)
    b = prog.find_fn('run_dispatch')
    if b is None:
        ctx.unproved('C05-2.complete', 'run_dispatch', 'anchor not found'); return
    cfg = CFG(b)
    an = analysis_or_fail(ctx, 'C05-2.complete', b)
    # (a) return value: collect(map(iter(train_disps[1..]), calc_timed_path))
    if an is not None:
        r = an.ret()
        s = show(r, an.names)
        clos_ok = False
        for cb in prog.closures_of(b.fid):
            if any('calc_timed_path' in t.callee for _, t in CFG(cb).call_sites()):
                clos_ok = True
        ok = r[0] == 'ok' and 'iter.collect' in s and 'RangeFrom{start: 1}' in s and clos_ok
        # the sequence collected is ALL of train_disps[1..]: one source, a plain slice, no skipping / limiting adaptor
        ok = ok and r[1][0] == 'uf' and r[1][1] == 'iter.collect' and r[1][2][0] == 'seq' and len(r[1][2][1]) == 1 and r[1][2][1][0][0] == 'slice'
        ctx.check(ok, 'C05-2.complete', 'run_dispatch|Ok value', 'Ok value is collect(map(train_disps[1..], calc_timed_path)): one timed path per dispatched train',
                  'Ok value is %s' % s[:300], ctx.where(b))
    # (b) every Ok exit is dominated by the stuck-trains test, whose other branch builds the error from that vector
    tests = []
    for bn, t in cfg.call_sites(lambda c: re.search(r'Vec::<.*>::is_empty$|::is_empty$', strip_generics(c)) is not None):
        # the tested vector must be the one that is pushed with blocked trains and formatted in the error
        tests.append(bn)
    stuck = [bn for bn in tests if cfg.every_ok_path_passes([bn]) and _err_side_formats(b, cfg, bn)]
    ctx.check(bool(stuck), 'C05-2.complete', 'run_dispatch|stuck trains are reported', 'every Ok exit passes the "no train is stuck" test; its failing side returns an error that formats the stuck trains',
              'no is_empty() test with an error side dominates the Ok exits', ctx.where(b))
    # (c) input lengths compared, error otherwise
    lens = [g for g in (an.guards if an is not None else []) if g.kind != 'assert' and 'len(' in show(g.cond) and ('est_time_nets' in show(g.cond, an.names) or 'speed_limit_train_sims' in show(g.cond, an.names))]
    ctx.check(bool(lens), 'C05-2.complete', 'run_dispatch|input lengths', 'est_time_nets.len() is compared with the number of trains; a mismatch is an error',
              'no guard compares the lengths of the two inputs', ctx.where(b))
    # (d) one TrainDisp pushed per input train: exactly one push of TrainDisp::new's result inside the loop over the zipped inputs
    news = [bn for bn, t in cfg.call_sites() if any(x.fid == 'TrainDisp::new' for x in prog.resolve(t.callee))]
    pushes = [bn for bn, t in cfg.call_sites() if re.search(r'Vec::<.*TrainDisp>::push$|Vec::push$', strip_generics(t.callee)) and 'TrainDisp' in t.callee and 'Next' not in t.callee]
    in_loop = [bn for bn in pushes if cfg.in_loop(bn)]
    ctx.check(len(news) == 1 and cfg.in_loop(news[0]) and len(in_loop) == 1 and cfg.dominates(news[0], in_loop[0]), 'C05-2.complete', 'run_dispatch|one TrainDisp per train',
              'exactly one TrainDisp::new and one push per iteration over the input trains', 'TrainDisp::new sites %s, pushes in loops %s' % (news, in_loop), ctx.where(b))


def _err_side_formats(b, cfg, bn):
    """after the is_empty test in block bn, the non-Ok side reaches a formatting call and an Err return"""
    t = b.blocks[bn].term
    nxt = t.targets.get('return')
    if nxt is None:
        return False
    sw = b.blocks[nxt].term
    cur = nxt
    for _ in range(3):
        sw = b.blocks[cur].term
        if sw.kind == 'switch':
            break
        if sw.kind == 'goto':
            cur = sw.targets.get('goto')
        else:
            return False
    if sw.kind != 'switch':
        return False
    for k, v in sw.targets.items():
        if v.startswith('bb') and v in cfg.err_only:
            reach = cfg._reach_from(v)
            if any(b.blocks[x].term.kind == 'call' and re.search(r'fmt|format', b.blocks[x].term.callee) for x in reach):
                return True
    return False


def timedpath(ctx):
    prog = ctx.prog
    eng = engine(ctx)
    b = prog.by_id.get('TrainDisp::calc_timed_path')
    if b is None:
        ctx.unproved('C05-3.timedpath', 'TrainDisp::calc_timed_path', 'anchor not found'); return
    eng.all_paths.add(b.fid); eng.ana.pop(b.fid, None); eng.summ.pop(b.fid, None)
    an = analysis_or_fail(ctx, 'C05-3.timedpath', b)
    if an is None:
        return
    pushes = [c for c in an.calls if re.search(r'::push$', strip_generics(c.callee)) and c.in_loop]
    ok = False
    why = ''
    if len(pushes) == 1:
        v = pushes[0].argvals[1]
        if v[0] == 'agg':
            d = dict(v[2])
            s1, s2 = show(d.get('link_idx', ZERO), an.names), show(d.get('time', ZERO), an.names)
            ok = 'link_event.link_idx' in s1 and 'time_pass' in s2 and _same_elem(d.get('link_idx'), d.get('time'))
            why = 'pushed {link_idx: %s, time: %s}' % (s1[:80], s2[:80])
            gate = [show(cnd, an.names) for cnd, o in pushes[0].pc]
            # the entry is pushed exactly for the Arrive nodes of a plain walk over the whole dispatch path: the last decision is
            # `est_type == Arrive` of the SAME node with outcome true, the one before it the loop's own next()
            pc = [(cnd, o) for cnd, o in pushes[0].pc if cnd[0] != 'pathset']
            last = pc[-1] if pc else None
            arrive = bool(last) and last[1] != '0' and last[0][0] == 'eq' and ('variant', 'EstType::Arrive') in last[0][1:] and \
                any(x[0] == 'pre' and x[1][-2:] == (('f', 'link_event'), ('f', 'est_type')) and _same_elem(x, d.get('link_idx')) for x in last[0][1:])
            loops = [cnd for cnd, o in pc if cnd[0] == 'discr' and cnd[1][0] == 'maybe']
            whole = len(loops) == 1 and plain_iteration(loops[0]) and 'disp_path' in repr(loops[0])
            ok = ok and arrive and whole and len(pc) <= 3
            why += ' gate %s' % [g_[:60] for g_ in gate][-2:]
    ctx.check(ok, 'C05-3.timedpath', 'TrainDisp::calc_timed_path|entries', 'one entry {link of the node, time_pass of the same node} per node whose event type is tested (Arrive)',
              'unexpected push: %s (%d push sites)' % (why, len(pushes)), ctx.where(b))
    g = [x for x in abort_guards(an) if 'disp_node_idx_fixed' in x[1] and 'len(' in x[1]]
    ctx.check(bool(g), 'C05-3.timedpath', 'TrainDisp::calc_timed_path|fully fixed', 'guarded by "the whole path is fixed" (%s)' % (g[0][1][:80] if g else ''),
              'no guard requires the path to be fully fixed', ctx.where(b))


def _same_elem(a, b_):
    ia = [c[1] for x in walk(a) if x[0] == 'pre' for c in x[1] if c[0] == 'idx'] if a else []
    ib = [c[1] for x in walk(b_) if x[0] == 'pre' for c in x[1] if c[0] == 'idx'] if b_ else []
    return bool(ia) and bool(ib) and ia[0] == ib[0]


def cursor(ctx):
    """C05-6.cursor: check_deadlock skips the leading trains that have finished.  The cursor it carries from call to call may
    advance only over a finished train AT the cursor position (so it always stays at or before the first unfinished train);
    every unfinished train from the cursor on, except the one that just moved, is re-planned."""
    from sa.terms import mk, ONE, show, walk
    from .common import engine, selected_iteration
    R = 'C05-6.cursor'
    b = None
    for fid in sorted(ctx.prog.by_id):
        if fid.endswith('check_deadlock') and not ctx.prog.by_id[fid].test:
            b = ctx.prog.by_id[fid]
    if b is None:
        ctx.unproved(R, 'check_deadlock', 'anchor not found'); return
    an = engine(ctx).analysis(b)
    if an.exit_state is None or len(b.params) != 5:
        ctx.unproved(R, 'check_deadlock', 'not analysable', ctx.where(b)); return
    w = ctx.where(b)
    key = (('local', b.params[2][0]),)
    beginp = ('pre', (('val', b.params[2][0]),))
    ok = False
    why = 'the cursor is not carried through the loop'
    for h in an.loop_entry:
        if key not in an.havoc.get(h, ()):
            continue
        L = ('loopvar', h, key)
        ent = an.load(key, an.loop_entry[h])
        backs = [an.load(key, s_) for s_ in an.loop_back.get(h, [])]
        ok = ent == beginp and bool(backs)
        for x in backs:
            # γ(finished(train[idx]) ? γ(idx == L ? L + 1 : L) : L)
            good = x[0] == 'gamma' and x[3] == L and x[2][0] == 'gamma' and x[2][2] == mk('add', L, ONE) and x[2][3] == L and \
                x[2][1][0] == 'eq' and L in (x[2][1][1], x[2][1][2]) and any(y[0] == 'iterpos' for y in walk(x[2][1])) and \
                'disp_node_idx_free' in show(x[1]) and 'disp_path' in show(x[1])
            ok = ok and good
        why = 'cursor starts at %s; per train it becomes %s' % (show(ent, an.names)[:40], [show(x, an.names)[-160:] for x in backs])
    ctx.check(ok, R, 'check_deadlock|advance', 'the cursor advances by one only when the train AT the cursor has finished (it never jumps over an unfinished train)', why, w)
    r = an.ret()
    ok = r[0] == 'ok' and r[1][0] == 'tuple' and len(r[1]) == 3 and r[1][2][0] == 'loopvar' and r[1][2][2] == key
    ctx.check(ok, R, 'check_deadlock|returned', 'the advanced cursor is what the caller gets back for the next check', 'returns %s' % show(r, an.names)[:120], w)
    ufp = [c for c in an.calls if c.targets and any(t.endswith('update_free_path') for t in c.targets)]
    ok = len(ufp) == 1
    if ok:
        c = ufp[0]
        sel = [selected_iteration(cnd) for cnd, o in c.pc if selected_iteration(cnd) is not None]
        skips = [a_ for s_ in sel for a_ in s_]
        others = [show(cnd, an.names)[:300] for cnd, o in c.pc if selected_iteration(cnd) is None]
        ok = len(skips) == 1 and skips[0][0] == 'skip' and skips[0][1] == beginp and len(others) == 2 and \
            any('disp_node_idx_free' in x for x in others) and any('train_idx_moved' in x or 'arg4' in x for x in others)
    ctx.check(ok, R, 'check_deadlock|replanned', 'every train from the cursor on that has not finished and is not the train that just moved is re-planned (no other train is left out)',
              'update_free_path gate: %s' % ([(show(cnd, an.names)[:100], o) for cnd, o in ufp[0].pc] if ufp else None), w)


# ------------------------------------------------------------------ C05-7
def _core(t):
    """strip index conversions: range(unwrap(try_into(X))) / X.idx() / X.0  ->  X"""
    while True:
        if t[0] == 'uf' and len(t) == 3 and t[1].split('::')[-1] in ('range', 'unwrap', 'try_into', 'idx', 'from', 'into'):
            t = t[2]
        elif t[0] == 'proj' and t[2] in (('f', '0'), ('f', '#0')):
            t = t[1]
        else:
            return t


def blocking(ctx):
    """C05-7.blocking: while a train's free path is searched, estimated-time nodes are marked blocked (their train view is set)
    and every marked node is put on the clean-up list `est_idxs_blocked`, which `reset_blocking` walks to unblock them before
    the next search.  A mark that is not on the list survives into the next search, whose consistency assertions then abort
    the whole dispatch.  Decided: every statement that marks `est_time_statuses[X]` (a store to its train view, or
    `block_empty`) is dominated by a push of that same X onto the clean-up list; `reset_blocking` unblocks the status of every
    entry of the list (plain loop) and only then clears it; `unblock` leaves a state `is_blocked` reports as free."""
    R = 'C05-7.blocking'
    prog = ctx.prog
    eng = engine(ctx)
    inv = inventory(ctx)
    nW = 0
    for b in prog.bodies:
        if b.kind != 'fn' or b.test or not b.fid.startswith('TrainDisp::'):
            continue
        raw = '\n'.join(s_.raw for blk in b.blocks.values() for s_ in blk.stmts) + '\n'.join(str(blk.term.callee) for blk in b.blocks.values() if blk.term.kind == 'call')
        if 'block_empty' not in raw and 'train_idxs_view' not in raw and 'TrainIdxsView' not in raw:
            continue
        an = analysis_or_fail(ctx, R, b)
        if an is None:
            continue
        cfg = inv.cfg(b)
        P = []
        W = []
        for c in an.calls:
            nm = re.sub(r'::<.*?>', '', c.callee)
            if nm.endswith('::push') and c.argvals and c.argvals[0][0] == 'ref' and c.argvals[0][1][-1] == ('f', 'est_idxs_blocked'):
                P.append((c.block, _core(c.argvals[1]), c))
            if nm.endswith('EstTimeStatus::block_empty') and c.argvals and c.argvals[0][0] == 'ref':
                pth = c.argvals[0][1]
                if len(pth) >= 2 and pth[-2] == ('f', 'est_time_statuses') and pth[-1][0] == 'idx':
                    W.append((c.block, _core(pth[-1][1]), c.span, 'block_empty'))
                else:
                    ctx.unproved(R, b.fid + '|block_empty', 'block_empty on something that is not an element of est_time_statuses: %s' % show(c.argvals[0], an.names)[:200], ctx.where(b, c.span))
        be_blocks = {w[0] for w in W}
        for bb, path, val, span in an.stores_log:
            if len(path) >= 4 and path[-1] == ('f', 'train_idxs_view') and path[-3] == ('f', 'est_time_statuses') and path[-2][0] == 'idx' and bb not in be_blocks:
                W.append((bb, _core(path[-2][1]), span, 'train view store'))
        for bb, X, span, what in W:
            nW += 1
            doms = [p for p in P if p[1] == X and cfg.dominates(p[0], bb)]
            k = '%s|%s of %s' % (b.fid, what, _short_idx(show(X, an.names)))
            n_ = sum(1 for r_ in ctx.results if r_.rule == R and r_.key.startswith(k))
            if n_:
                k += ' #%d' % (n_ + 1)
            ctx.check(bool(doms), R, k, 'the node that is marked blocked has been put on the clean-up list (a dominating push of the same node)',
                      'no dominating `est_idxs_blocked.push` of this node; the pushes of the function are of %s' % sorted({_short_idx(show(p[1], an.names)) for p in P}),
                      ctx.where(b, span))
    ctx.floor('statements that mark an estimated-time node blocked', nW, 4)
    # reset_blocking
    rb = prog.by_id.get('TrainDisp::reset_blocking')
    if rb is None:
        ctx.unproved(R, 'TrainDisp::reset_blocking', 'anchor not found'); return
    an = analysis_or_fail(ctx, R, rb)
    if an is not None:
        ub = [c for c in an.calls if re.sub(r'::<.*?>', '', c.callee).endswith('EstTimeStatus::unblock')]
        ok = len(ub) == 1 and ub[0].in_loop and len(ub[0].pc) == 1 and plain_iteration(ub[0].pc[0][0]) and 'est_idxs_blocked' in repr(ub[0].pc[0][0])
        tgt = ub[0].argvals[0] if ub and ub[0].argvals else None
        ok2 = tgt is not None and tgt[0] == 'ref' and len(tgt[1]) >= 2 and tgt[1][-2] == ('f', 'est_time_statuses') and tgt[1][-1][0] == 'idx' \
            and 'est_idxs_blocked' in repr(_core(tgt[1][-1][1])) and 'iterpos' in repr(_core(tgt[1][-1][1]))
        ctx.check(ok and ok2, R, 'TrainDisp::reset_blocking|unblocks every entry', 'one plain loop over est_idxs_blocked unblocks the status each entry names',
                  'unblock calls: %s' % [([(show(c_, an.names)[:80], o) for c_, o in u.pc], show(u.argvals[0], an.names)[:120] if u.argvals else None) for u in ub], ctx.where(rb))
        cl = [c for c in an.calls if re.sub(r'::<.*?>', '', c.callee).endswith('::clear') and c.argvals and c.argvals[0][0] == 'ref' and c.argvals[0][1][-1] == ('f', 'est_idxs_blocked')]
        cfg = inv.cfg(rb)
        ok3 = len(cl) == 1 and not cl[0].in_loop and bool(ub) and not cfg.dominates(cl[0].block, ub[0].block)
        ctx.check(ok3, R, 'TrainDisp::reset_blocking|clear after', 'the list is cleared once, after the loop', 'clear calls: %d' % len(cl), ctx.where(rb))
    # unblock / is_blocked agree
    ubf = prog.by_id.get('EstTimeStatus::unblock'); ibf = prog.by_id.get('EstTimeStatus::is_blocked')
    if ubf is None or ibf is None:
        ctx.unproved(R, 'EstTimeStatus::unblock', 'anchor not found'); return
    ua = analysis_or_fail(ctx, R, ubf); ia = analysis_or_fail(ctx, R, ibf)
    if ua is not None and ia is not None:
        post = ua.load((('obj', 1), ('f', 'train_idxs_view')), ua.exit_state)
        r = ia.ret()
        # substitute the view unblock leaves into is_blocked's result
        def sub(x):
            if x[0] == 'pre' and x[1][:2] == (('obj', 1), ('f', 'train_idxs_view')):
                t = post
                for comp in x[1][2:]:
                    t = ('proj', t, comp)
                return t
            return x
        from sa.terms import map_term
        r2 = map_term(r, sub)
        from sa.terms import mk
        def fold(x):
            if x[0] == 'proj' and x[1][0] == 'agg' and x[2][0] == 'f':
                for fk, fv in x[1][2]:
                    if fk == x[2][1]:
                        return fv
            if x[0] in ('ne', 'eq', 'lt', 'le', 'gt', 'ge') and len(x) == 3 and x[1][0] == 'num' and x[2][0] == 'num':
                return mk(x[0], x[1], x[2])
            return x
        for _ in range(4):
            r2 = map_term(r2, fold)
        ctx.check(r2 == FALSE or show(r2) in ('false', '0'), R, 'EstTimeStatus::unblock|is_blocked', 'after unblock, is_blocked reports false',
                  'is_blocked after unblock evaluates to %s' % show(r2)[:200], ctx.where(ubf))


def _short_idx(s_):
    s_ = re.sub(r'Γ\(discr\(maybe\(&arg1\.disp_path_new.*?\.est_idx\}', 'disp_node_curr.est_idx', s_)
    s_ = re.sub(r'^.*\]\.(idx_next(_alt)?)$', r'est_curr.\1', s_)
    return s_[-80:]


# ------------------------------------------------------------------ C05-8
def queue(ctx):
    """C05-8.queue: the dispatcher always advances the train whose last fixed time is earliest.  Its priority queue entry orders by
    time REVERSED (std's BinaryHeap yields the greatest), ties by train index in the same orientation; and every entry that is
    pushed pairs a train's index with THAT train's update time: the initial entries (one per train, from_train_disp), the entry of
    the train just advanced (the index that was popped), the entries of the trains that were waiting for it."""
    R = 'C05-8.queue'
    prog = ctx.prog
    eng = engine(ctx)
    b = prog.by_id.get('<TrainDispNext as Ord>::cmp')
    if b is None:
        ctx.unproved(R, 'TrainDispNext::cmp', 'anchor not found')
    else:
        an = analysis_or_fail(ctx, R, b)
        if an is not None:
            pcs = [c for c in an.calls if re.sub(r'::<.*?>', '', c.callee).endswith('partial_cmp')]
            A1, A2 = (('obj', 1),), (('obj', 2),)
            r = an.ret()
            ok = len(pcs) == 1 and not pcs[0].pc and pcs[0].argvals[0] == ('ref', A2 + (('f', 'time'),), 'shr') and pcs[0].argvals[1] == ('ref', A1 + (('f', 'time'),), 'shr') \
                and r[0] == 'uf' and r[1].endswith('then_with') and r[2][0] == 'uf' and r[2][1] == 'unwrap'
            ctx.check(ok, R, 'TrainDispNext::cmp|time reversed', 'entries order by time reversed (other vs self): the queue yields the earliest train first',
                      'cmp returns %s' % show(r, an.names)[:200], ctx.where(b))
            cl = prog.closures_of(b.fid)
            okc = False; txt = None
            if len(cl) == 1:
                ca = eng.analysis(cl[0])
                if ca.exit_state is not None:
                    rr = ca.ret(); txt = show(rr, ca.names)
                    okc = rr[0] == 'uf' and rr[1].endswith('cmp') and len(rr) == 4 and 'train_idx' in repr(rr[2]) and 'train_idx' in repr(rr[3]) \
                        and "('f', '#0')" in repr(rr[2]) and "('f', '#1')" in repr(rr[3])
            ctx.check(okc, R, 'TrainDispNext::cmp|tie', 'ties are broken by train index, with the same orientation', 'tie-break is %s' % txt, ctx.where(b))
    b = prog.by_id.get('TrainDispNext::from_train_disp')
    if b is None:
        ctx.unproved(R, 'TrainDispNext::from_train_disp', 'anchor not found')
    else:
        an = analysis_or_fail(ctx, R, b)
        if an is not None:
            r = an.ret()
            f = dict(r[2]) if r[0] == 'agg' else {}
            ok = f.get('time') == ('pre', (('obj', 1), ('f', 'time_update'))) and f.get('train_idx') == ('pre', (('obj', 1), ('f', 'train_idx')))
            ctx.check(ok, R, 'TrainDispNext::from_train_disp', 'an entry made from a train carries that train\'s update time and index',
                      'returns %s' % show(r, an.names)[:160], ctx.where(b))
    b = prog.find_fn('run_dispatch')
    if b is None:
        ctx.unproved(R, 'run_dispatch|entries', 'anchor not found'); return
    an = analysis_or_fail(ctx, R, b)
    if an is None:
        return
    w = ctx.where(b)
    pushes = [c for c in an.calls if 'BinaryHeap' in c.callee and '::push' in c.callee and len(c.argvals) > 1 and c.argvals[1][0] == 'agg']
    pops = [c for c in an.calls if 'BinaryHeap' in c.callee and '::pop' in c.callee and c.result is not None]
    init = [c for c in pushes if 'time_update' in repr(dict(c.argvals[1][2]).get('time'))[:400] and dict(c.argvals[1][2]).get('train_idx', ('x',))[0] == 'proj'
            and dict(c.argvals[1][2])['train_idx'][2] == ('f', 'train_idx')]
    okI = False
    for c in init:
        f = dict(c.argvals[1][2])
        from .common import selected_iteration
        ad = selected_iteration(c.pc[-1][0]) if c.pc else None
        whole = bool(c.pc) and (plain_iteration(c.pc[-1][0]) or (ad is not None and len(ad) == 1 and ad[0][0] == 'skip' and ONE in ad[0]))   # index 0 is the dummy train
        okI = okI or (f['time'][0] == 'proj' and f['time'][2] == ('f', 'time_update') and f['time'][1] == f['train_idx'][1] and whole)
        if not okI:
            ctx.info(R, 'run_dispatch|initial entries loop', 'adaptors: %s' % (ad,), w)
    ctx.check(okI, R, 'run_dispatch|initial entries', 'one entry per train (plain loop over the trains), pairing its index with its own update time',
              'initial pushes: %s' % [show(c.argvals[1], an.names)[:160] for c in init], w)
    popped = ('proj', ('uf', 'unwrap', pops[0].result), ('f', 'train_idx')) if len(pops) == 1 else None
    cur = [c for c in pushes if c not in init]
    okC = len(cur) == 1 and popped is not None and dict(cur[0].argvals[1][2]).get('train_idx') == popped
    if okC:
        tm = cur[0].argvals[1][2]
        tcalls = [c for c in an.calls if c.targets and 'TrainDisp::time_update' in c.targets and c.result is not None]
        tval = dict(tm).get('time')
        # the time is the result of time_update() on train_disps[popped index]
        okC = any(c.result == tval and 'pop' in repr(c.argvals[0])[:100000] for c in tcalls) or any(c.result == tval for c in tcalls)
    ctx.check(okC, R, 'run_dispatch|advanced train', 'the train just advanced is re-entered under the index that was popped, with its update time',
              're-entry pushes train_idx = %s' % [show(dict(c.argvals[1][2]).get('train_idx'), an.names)[:120] for c in cur], w)
    okB = False; txt = None
    for cl in prog.closures_of(b.fid):
        ca = eng.analysis(cl)
        for c in ca.calls:
            if 'BinaryHeap' in c.callee and '::push' in c.callee and len(c.argvals) > 1 and c.argvals[1][0] == 'agg':
                f = dict(c.argvals[1][2]); txt = show(c.argvals[1], ca.names)[:200]
                ti = f.get('train_idx'); tm = f.get('time')
                okB = ti is not None and ti[0] == 'pre' and ti[1][0][0] in ('val', 'obj') and tm is not None and tm[0] == 'pre' and tm[1][-1] == ('f', 'time_update') \
                    and any(comp[0] == 'idx' and repr(ti) in repr(comp) for comp in tm[1])
    ctx.check(okB, R, 'run_dispatch|waiting trains', 'each train that was waiting is re-entered under its own index with its own update time', 'closure pushes %s' % txt, w)


# ------------------------------------------------------------------ C05-9
def divnodes(ctx):
    """C05-9.divnodes: when a re-plan replaces a stretch of the path, the list of diverge nodes is spliced to match and the caller
    continues its scan from the cursor that is returned.  The unchecked scans (C05-1) start from that cursor behind one assert, so
    a cursor that does not point at the first node after the spliced-in part aborts the dispatch or silently skips diverge nodes.
    Decided: the replaced range starts at the split cursor and ends at the first later node that lies beyond the old join (unit-step
    search from the split cursor); what is spliced in is all of `div_nodes_new` but its first entry (the split node itself); the
    cursor returned is split + (number of spliced-in nodes) = split + len(div_nodes_new) - 1."""
    R = 'C05-9.divnodes'
    prog = ctx.prog
    eng = engine(ctx)
    b = prog.by_id.get('TrainDisp::update_div_nodes')
    if b is None:
        ctx.unproved(R, 'TrainDisp::update_div_nodes', 'anchor not found'); return
    eng.all_paths.add(b.fid)
    an = analysis_or_fail(ctx, R, b)
    if an is None:
        return
    w = ctx.where(b)
    from sa.terms import mk
    try:
        split, jb = an.arg('div_idx_split'), an.arg('idx_join_base')
    except KeyError:
        ctx.unproved(R, 'TrainDisp::update_div_nodes', 'parameters div_idx_split / idx_join_base not found', w); return
    NEW = ('pre', (('obj', 1), ('f', 'div_nodes_new')))
    sp = [c for c in an.calls if '::splice' in c.callee]
    dr = [c for c in an.calls if '::drain' in c.callee and c.argvals and c.argvals[0] == ('ref', NEW[1], 'mut')]
    if len(sp) != 1 or len(dr) != 1:
        ctx.unproved(R, 'TrainDisp::update_div_nodes', 'expected one splice of div_nodes and one drain of div_nodes_new, found %d / %d' % (len(sp), len(dr)), w); return
    rng = sp[0].argvals[1]
    f = dict(rng[2]) if rng[0] == 'agg' and rng[1] == 'Range' else {}
    end = f.get('end')
    ok = f.get('start') == split and end is not None and end[0] == 'loopvar'
    if ok:
        H, key = end[1], end[2]
        ent = an.load(key, an.loop_entry[H]); backs = [an.load(key, s_) for s_ in an.loop_back.get(H, [])]
        ok = ent == split and backs and all(v == mk('add', end, ONE) for v in backs)
    ctx.check(ok, R, 'update_div_nodes|replaced range', 'the replaced range starts at the split cursor; its end is searched from there one node at a time',
              'splice range %s' % show(rng, an.names)[:160], ctx.where(b, sp[0].span))
    okd = dr[0].argvals[1] == ('agg', 'RangeFrom', (('start', ONE),)) and sp[0].argvals[2] == dr[0].result
    ctx.check(okd, R, 'update_div_nodes|spliced-in nodes', 'what is spliced in is div_nodes_new without its first entry', 'drain %s ; splice source %s' % (
        show(dr[0].argvals[1], an.names)[:60], show(sp[0].argvals[2], an.names)[:100]), ctx.where(b, dr[0].span))
    want = mk('sub', mk('add', split, ('len', NEW)), ONE)
    from sa.prove import Prover
    r = an.ret()
    v, _d = Prover(an.names, assume=[]).eq(r, want)
    ctx.check(v == 'PROVED', R, 'update_div_nodes|returned cursor', 'the cursor returned is the split cursor plus the number of spliced-in nodes (len(div_nodes_new) - 1)',
              'returns %s' % show(r, an.names)[:160], w)


def caller_premises(ctx):
    """C05-1.premises (callers): `add_blocking_trains` writes its sentinel without a bounds check at base.idx_end and scans from
    base.idx_begin; its own assert — the base view ends exactly at the end of the buffer — is what makes both in bounds, and an
    assert that fails is an abort of the whole dispatch.  So every caller must establish it: at each call the path condition
    states len(buffer) == base.idx_end for the very view passed as base, or the base view is built in place to end at the buffer's
    length."""
    R = 'C05-1.premises'
    prog = ctx.prog
    eng = engine(ctx)
    b = prog.find_fn('add_blocking_trains')
    if b is None:
        ctx.unproved(R, 'add_blocking_trains|callers', 'anchor not found'); return
    inv = inventory(ctx)
    n = 0
    for caller_fid in sorted(inv.callers(b.fid)):
        cb = prog.by_id.get(caller_fid)
        if cb is None or cb.test:
            continue
        eng.all_paths.add(cb.fid)
        eng.ana.pop(cb.fid, None); eng.summ.pop(cb.fid, None)
        ca = analysis_or_fail(ctx, R, cb)
        if ca is None:
            continue
        for c in ca.calls:
            if not (c.targets and b.fid in c.targets):
                continue
            n += 1
            pt = c.pointees or []
            buf = pt[0] if len(pt) > 0 else None
            base = pt[1] if len(pt) > 1 else None
            key = 'add_blocking_trains <- %s' % caller_fid
            k2 = sum(1 for r_ in ctx.results if r_.rule == R and r_.key.startswith(key))
            if k2:
                key += ' #%d' % (k2 + 1)
            if buf is None or base is None:
                ctx.unproved(R, key, 'buffer / base view argument not visible at the call', ctx.where(cb, c.span)); continue
            ok = False
            how = ''
            if base[0] == 'agg':
                end = dict(base[2]).get('idx_end')
                ok = end is not None and _core(end) == ('len', buf)
                how = 'the base view is built in place to end at the buffer length'
            else:
                endp = ('proj', base, ('f', 'idx_end')) if base[0] != 'pre' else ('pre', base[1] + (('f', 'idx_end'),))
                for cnd, o in c.pc:
                    if cnd[0] == 'eq' and o != '0':
                        a_, b_ = _core(cnd[1]), _core(cnd[2])
                        if {repr(a_), repr(b_)} == {repr(('len', buf)), repr(_core(endp))}:
                            ok = True
                how = 'the call is made under len(buffer) == base.idx_end for the view passed as base'
            ctx.check(ok, R, key, how, 'the precondition asserted by add_blocking_trains (base view ends at the end of the buffer) is not established for the base argument %s; path condition: %s' % (
                show(base, ca.names)[:80], [(show(x, ca.names)[:90], o) for x, o in c.pc][-2:]), ctx.where(cb, c.span))
    ctx.floor('call sites of add_blocking_trains', n, 3)
