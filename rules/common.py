"""Shared helpers for the rule files."""
import re
from sa.svn import Engine, strip_ref
from sa.discover import Inventory
from sa.prove import Prover
from sa.dsl import T, _t
from sa.terms import show, mk, ZERO, walk, path_from_str

_ENG = {}
_INV = {}


def engine(ctx):
    k = id(ctx.prog)
    if k not in _ENG:
        _ENG[k] = Engine(ctx.prog)
    return _ENG[k]


def inventory(ctx):
    k = id(ctx.prog)
    if k not in _INV:
        _INV[k] = Inventory(ctx.prog)
    return _INV[k]


# domain assumptions of the powertrain properties (quoted from the properties' quantifiers):
POWERTRAIN_ASSUME = [
    (r'^unwrap\(utils::interp[13]d\(', 'unit'),      # efficiency map values in (0,1] (+ interp lemma, C08)
    (r'(^|\.)dt$', 'pos'),
    (r'pwr_idle_fuel$', 'nonneg'),
    (r'\.pwr_out_max$', 'pos'),
    (r'energy_capacity$', 'pos'),
    (r'pwr_ramp_lag$', 'pos'),
    (r'pwr_mech_regen_max$', 'nonneg'),
]


class StateView:
    """post/pre access to the fields of one state struct reachable from parameter `root` of an analysed function."""

    def __init__(self, an, prefix, root=1):
        self.an = an
        self.prefix = tuple(prefix)
        self.root = root

    def path(self, name):
        comps = [('obj', self.root)] + list(self.prefix)
        for part in name.split('.'):
            comps.append(('f', part))
        return tuple(comps)

    def post(self, name):
        return T(self.an.load(self.path(name), self.an.exit_state))

    def pre(self, name):
        return T(('pre', self.path(name)))

    def written(self, name):
        p = self.path(name)
        return self.an.exit_state.store.get(p) is not None or bool(self.an.exit_state.store.below(p))

    def arg(self, name):
        return T(self.an.arg(name))


def locate(ctx, body, type_name, root=1):
    """path prefix (tuple of ('f', name)) from parameter `root` of `body` to the (unique) sub-object of type
    `type_name`; () if the parameter itself is of that type; None if not found/ambiguous (searches 3 levels)."""
    prog = ctx.prog
    pty = dict(body.params).get(root)
    if pty is None:
        return None
    start = prog.typedef(strip_ref(pty))
    if start is None:
        return None
    if start.name == type_name:
        return ()
    found = []

    def rec(td, prefix, depth):
        if depth > 3 or td is None or td.kind != 'struct':
            return
        for f in td.fields:
            ft = f['ty'].replace(' ', '')
            base = re.sub(r'<.*', '', ft).split('::')[-1]
            if base == type_name:
                found.append(prefix + (('f', f['name']),))
            elif base in prog.types and base != td.name:
                rec(prog.typedef(base), prefix + (('f', f['name']),), depth + 1)
    rec(start, (), 0)
    if len(found) == 1:
        return found[0]
    return None


def prove(ctx, rule, key, an, kind, a, b=None, facts=(), assume=POWERTRAIN_ASSUME, where=None, note=''):
    """run the prover and record the verdict. kind: eq | ge0 | le | gt0"""
    pv = Prover(an.names if an is not None else None, assume=assume)
    facts = [_t(f) for f in facts]
    if kind == 'eq':
        v, d = pv.eq(_t(a), _t(b), facts)
        goal = '%s ≡ %s' % (pretty(an, a), pretty(an, b))
    elif kind == 'ge0':
        v, d = pv.ge0(_t(a), facts)
        goal = '%s ≥ 0' % pretty(an, a)
    elif kind == 'gt0':
        v, d = pv.gt0(_t(a), facts)
        goal = '%s > 0' % pretty(an, a)
    elif kind == 'le':
        v, d = pv.le(_t(a), _t(b), facts)
        goal = '%s ≤ %s' % (pretty(an, a), pretty(an, b))
    else:
        raise ValueError(kind)
    goal = goal if len(goal) < 700 else goal[:700] + ' …'
    detail = '%s%s :: %s' % (note + ' ' if note else '', goal, d)
    w = where or (ctx.where(an.body) if an is not None else None)
    if v == 'PROVED':
        ctx.ok(rule, key, detail, w)
    elif v == 'DISPROVED':
        ctx.bad(rule, key, detail, w)
    else:
        ctx.unproved(rule, key, detail, w)
    ctx.sample({'rule': rule, 'key': key, 'goal': goal[:400], 'verdict': v})
    return v


def pretty(an, t):
    t = _t(t)
    return show(t, an.names if an is not None else None)


def guard_facts(an, ungated_only=True, max_len=4000):
    """boolean terms that hold on every Ok path (guards with an empty gate)"""
    out = []
    for g in an.guards:
        if g.kind == 'assert':
            continue
        if ungated_only and g.gate:
            continue
        t = g.holds_term()
        out.append(t)
    return out


def analysis_or_fail(ctx, rule, body):
    try:
        an = engine(ctx).analysis(body)
    except RecursionError:
        ctx.unproved(rule, body.fid, 'analysis recursion limit', ctx.where(body))
        return None
    if an.exit_state is None:
        ctx.unproved(rule, body.fid, 'function has no Ok exit the analysis can reach', ctx.where(body))
        return None
    return an


def plain_iteration(cnd):
    """is `cnd` the decision "the source collection has another element" of a plain loop over a slice / range — i.e. the
    discriminant of next() with NO selecting adaptor (filter, take_while, skip, ...) in between?"""
    return cnd[0] == 'discr' and cnd[1][0] == 'maybe' and len(cnd[1]) == 2 and 'iterpos' in repr(cnd[1][1])


def selected_iteration(cnd):
    """the adaptors when `cnd` is the discriminant of next() behind selecting adaptors, else None"""
    if cnd[0] == 'discr' and cnd[1][0] == 'maybe' and len(cnd[1]) == 3 and cnd[1][2][0] == 'adaptors':
        return cnd[1][2][1:]
    return None


class RuleProxy:
    """runs another property's rule set inside this one: only the rules in `mapping` are kept, under their new names
    (clauses shared by two properties are decided once and reported under both)"""

    def __init__(self, ctx, mapping, key_filter=None):
        self._ctx = ctx
        self._map = mapping
        self._kf = key_filter

    def __getattr__(self, name):
        return getattr(self._ctx, name)

    def _r(self, rule):
        return self._map.get(rule)

    def ok(self, rule, key, detail='', where=None, term=None):
        if self._r(rule) and (self._kf is None or self._kf(key)):
            return self._ctx.ok(self._r(rule), key, detail, where, term)

    def bad(self, rule, key, detail='', where=None, term=None):
        if self._r(rule) and (self._kf is None or self._kf(key)):
            return self._ctx.bad(self._r(rule), key, detail, where, term)

    def unproved(self, rule, key, detail='', where=None, term=None):
        if self._r(rule) and (self._kf is None or self._kf(key)):
            return self._ctx.unproved(self._r(rule), key, detail, where, term)

    def info(self, rule, key, detail='', where=None):
        if self._r(rule) and (self._kf is None or self._kf(key)):
            return self._ctx.info(self._r(rule), key, detail, where)

    def check(self, cond, rule, key, ok_detail='', bad_detail='', where=None):
        if self._r(rule) and (self._kf is None or self._kf(key)):
            return self._ctx.check(cond, self._r(rule), key, ok_detail, bad_detail, where)
        return cond

    def anchor(self, rule, fid):
        return self._ctx.prog.by_id.get(fid) if not self._r(rule) else self._ctx.anchor(self._r(rule), fid)

    def floor(self, name, count, minimum):
        return None

    def sample(self, s):
        return None


def flag_provenance(ctx, rule, flag, family=('assert_limits', 'engine_on'), floor=3):
    """A control flag that is handed down a call chain (`assert_limits`: whether limits are enforced; `engine_on`: whether the
    engine runs) must reach each callee unchanged: at every call whose callee has a parameter named `flag`, the value passed
    (a) mentions no other flag of the family (two adjacent bool arguments transposed), and (b) when the caller has the flag
    itself — a parameter or a field of its self type with that name — derives from it (a constant would silently switch the
    flag for everything below).  Constants are accepted where the caller has no such flag (what-if evaluations, roots)."""
    import re as _re
    from sa.cfg import CFG
    from sa.terms import walk, show
    prog = ctx.prog
    eng = engine(ctx)

    def pnames(b):
        out = {}
        for k, v in b.debug.items():
            m = _re.fullmatch(r'_(\d+)', v)
            if m and 1 <= int(m.group(1)) <= b.nparams:
                out.setdefault(int(m.group(1)), k)
        return out
    has = {}
    for b in prog.bodies:
        if b.kind == 'fn' and not b.test:
            for n_, nm in pnames(b).items():
                if nm == flag:
                    has[b.fid] = n_
    n = 0
    for b in prog.bodies:
        if b.kind != 'fn' or b.test:
            continue
        if not any(x.fid in has for bn, t in CFG(b).call_sites() for x in prog.resolve(t.callee)):
            continue
        an = analysis_or_fail(ctx, rule, b)
        if an is None:
            continue
        mine = pnames(b)
        own_param = [n_ for n_, nm in mine.items() if nm == flag]
        tname = b.fid.split('::')[0].strip('<>').split(' as ')[0]
        own_field = mine.get(1) == 'self' and any((not td.test) and td.kind == 'struct' and td.field(flag) is not None for td in prog.types.get(tname, []))
        passed = []
        for c in an.calls:
            for x in (c.targets or []):
                if x not in has or len(c.argvals) < has[x]:
                    continue
                v = c.argvals[has[x] - 1]
                passed.append((v, c, x))
                mentioned = set()
                for y in walk(v):
                    if y[0] == 'pre':
                        for comp in y[1]:
                            if comp[0] in ('val', 'obj') and mine.get(comp[1]) in family:
                                mentioned.add(mine[comp[1]])
                            if comp[0] == 'f' and comp[1] in family:
                                mentioned.add(comp[1])
                n += 1
                key = '%s -> %s' % (b.fid, x)
                k2 = sum(1 for r_ in ctx.results if r_.rule == rule and r_.key.startswith(key))
                if k2:
                    key += ' #%d' % (k2 + 1)
                other = mentioned - {flag}
                ok = not other and (flag in mentioned or not (own_param or own_field))
                # (d) where the caller has the flag as a parameter, what it passes on IS that parameter (or its documented decoding
                # `unwrap_or(flag, true)`): `flag.and(..)`, `flag && ..`, `!flag` mention the flag and still change the command
                if ok and own_param:
                    try:
                        ownt = an.arg(flag)
                    except KeyError:
                        ownt = None
                    if ownt is not None and flag in mentioned:
                        decoded = v[0] == 'uf' and v[1].endswith('unwrap_or') and len(v) == 4 and v[2] == ownt
                        ok = (v == ownt) or decoded
                ctx.check(ok, rule, key, '`%s` is handed on unchanged (%s)' % (flag, show(v, an.names)[:60]),
                          'the value passed for `%s` is %s%s' % (flag, show(v, an.names)[:120],
                                                               (' — it derives from `%s`' % '`, `'.join(sorted(other))) if other else ' — the caller\'s own flag is not used'),
                          ctx.where(b, c.span))
        # (c) one step, one command: every callee of this function receives the SAME value for the flag (reading the command at
        # two different indices / moments hands stale state to one of them)
        nonconst = [(v, c, x) for v, c, x in passed if any(y[0] in ('pre', 'loopvar') for y in walk(v))]
        distinct = []
        for v, c, x in nonconst:
            if all(v != d[0] for d in distinct):
                distinct.append((v, c, x))
        if len(nonconst) >= 2:
            ctx.check(len(distinct) == 1, rule, '%s|one value' % b.fid, 'all %d callees receive the same `%s`' % (len(nonconst), flag),
                      'callees receive different values of `%s`: %s' % (flag, [(d[2].split('::')[-1], show(d[0], an.names)[:80]) for d in distinct]), ctx.where(b))
    ctx.floor('call sites handing `%s` on' % flag, n, floor)


def value_passthrough(ctx, rule, name, derived=(), floor=3):
    """A quantity that is handed down a call chain under one name (`pwr_out_req`: the power a unit was solved for; `dt`) reaches each
    callee unchanged: at every call whose callee has a parameter called `name`, made from a function that has one too, the value
    passed IS the caller's parameter — not a gated, clamped or re-derived version of it.  `derived` lists the (caller, callee)
    pairs where the callee's quantity is by design a different one (a share of it, or the shaft power derived from it); those are
    decided by their own clauses."""
    import re as _re
    from sa.cfg import CFG
    from sa.terms import show
    prog = ctx.prog

    def pnames(b):
        out = {}
        for k, v in b.debug.items():
            m = _re.fullmatch(r'_(\d+)', v)
            if m and 1 <= int(m.group(1)) <= b.nparams:
                out.setdefault(int(m.group(1)), k)
        return out
    has = {}
    for b in prog.bodies:
        if b.kind == 'fn' and not b.test:
            for n_, nm in pnames(b).items():
                if nm == name:
                    has[b.fid] = n_
    n = 0
    for b in prog.bodies:
        if b.kind != 'fn' or b.test or b.fid not in has:
            continue
        if not any(x.fid in has for bn, t in CFG(b).call_sites() for x in prog.resolve(t.callee)):
            continue
        an = analysis_or_fail(ctx, rule, b)
        if an is None:
            continue
        try:
            own = an.arg(name)
        except KeyError:
            continue
        for c in an.calls:
            for x in (c.targets or []):
                if x not in has or len(c.argvals) < has[x] or (b.fid, x) in derived:
                    continue
                v = c.argvals[has[x] - 1]
                n += 1
                key = '%s -> %s' % (b.fid, x)
                k2 = sum(1 for r_ in ctx.results if r_.rule == rule and r_.key.startswith(key))
                if k2:
                    key += ' #%d' % (k2 + 1)
                ctx.check(v == own, rule, key, '`%s` is handed on unchanged' % name, 'the value passed for `%s` is %s' % (name, show(v, an.names)[:160]), ctx.where(b, c.span))
    ctx.floor('call sites handing `%s` on' % name, n, floor)


def step_protocol(ctx, rule, fid, before):
    """One simulation step computes its demand from THIS step's inputs: inside `fid` each (a, b) of `before` — method-name suffixes —
    must be called in that order on every path (the call of a dominates the call of b): the limits and the resistance are refreshed
    before the required power is derived from them, and the powertrain is solved for the power that was just derived.  A swapped
    pair leaves every relation of the callee intact and feeds it the previous step's values."""
    from sa.cfg import CFG
    prog = ctx.prog
    b = prog.by_id.get(fid)
    if b is None:
        ctx.unproved(rule, fid + '|step protocol', 'anchor not found'); return
    cfg = CFG(b)
    sites = {}
    for bn, t in cfg.call_sites():
        for x in prog.resolve(t.callee):
            sites.setdefault(x.fid.split('::')[-1], []).append(bn)
        nm = re.sub(r'::<.*?>', '', t.callee).split('::')[-1] if False else None
    import re as _re
    for bn, t in cfg.call_sites():
        last = _re.sub(r'::<.*$', '', t.callee).split('::')[-1]
        sites.setdefault(last, []).append(bn)
    for a, c in before:
        sa_, sc_ = sorted(set(sites.get(a, []))), sorted(set(sites.get(c, [])))
        ok = len(sa_) >= 1 and len(sc_) >= 1 and all(any(cfg.dominates(x, y) and x != y for x in sa_) for y in sc_)
        ctx.check(ok, rule, '%s|%s before %s' % (fid, a, c), 'every call of %s is preceded, on every path, by a call of %s' % (c, a),
                  '%s is not called before %s on every path (sites: %s / %s)' % (a, c, sa_, sc_), ctx.where(b))
