"""C17 — save / load round trip (DESIGN §5 C17): format tables, attribute inventory, mid-run state, non-finite constants."""
import re, collections
from sa.terms import show, walk, show_path
from sa.cfg import CFG
from .common import engine, inventory
from .C19 import base_type

LEVEL = 'other'
MANIFEST = {
    'category': 'other',
    'engine': 'structure+svn',
    'technique': 'serde attribute inventory over the type graph + MIR format-table extraction + must-pass-through init + transitive write sets + constant propagation of non-finite values',
    'text': ('Decides the structural necessary conditions of the round-trip property for every type reachable from a SerdeAPI '
             'implementor: writer and reader accept the same format strings with the same codec per string; every from_* passes '
             'through init() on its Ok paths; no field that is omitted on write (skip_serializing_if) sits on a type that can be '
             'written in the non-self-describing binary format; every #[serde(skip)] field is rebuilt before it is read; nothing a '
             'simulation step writes is excluded from serialisation; no non-finite constant is stored into a serialised field (JSON '
             'cannot represent it); the hand-written LinkIdx codec is symmetric; every hand-written init reaches nested inits.'),
    'note': ('Not decided: bit-exactness of the float printers/parsers of serde_yaml / serde_json (library behaviour), and equality of '
             'behaviour after reload beyond "all mutated state is saved or rebuilt". Genuine defects on the pinned tree (binary format '
             'vs. skipped fields, non-finite sentinels vs. JSON) are listed in known_findings.json.'),
}
EXPLANATION = 'Attribute / format-table / write-set inventories that the round trip needs; each violation names the type.field or function.'
RULES = ['C17-1.formats', 'C17-1.init', 'C17-2.bincode', 'C17-3.skip', 'C17-4.midrun', 'C17-5.nonfinite', 'C17-6.linkidx', 'C17-7.nestedinit', 'C17-8.validators', 'C17-9.truncate', 'C17-10.derived']
ASSUMPTIONS = ['serde_yaml / serde_json / bincode behave as documented']

STEP_ROOTS = ['LocomotiveSimulation::step', 'ConsistSimulation::step', 'SetSpeedTrainSim::step', 'SpeedLimitTrainSim::step',
              'SpeedLimitTrainSim::walk_timed_path', 'SpeedLimitTrainSim::extend_path']


def serde_attrs(f):
    return [re.sub(r'\s+', '', a) for a in f['attrs'] if 'serde' in a]


def run(ctx):
    truncation(ctx)
    derived_refresh(ctx)
    init_overwrites(ctx)
    # loading runs init() -> validate(): a validator that rejects what its sibling (the borrowed / owned / legacy form of the same
    # data) accepts makes a saved object unreadable — shared with C16-6
    from .common import RuleProxy
    from . import C16
    C16.siblings_shared(RuleProxy(ctx, {'C16-6.siblings': 'C17-8.validators'}))
    formats(ctx)
    init_paths(ctx)
    attrs(ctx)
    midrun(ctx)
    nonfinite(ctx)
    linkidx(ctx)
    nested_init(ctx)


# ------------------------------------------------------------------ C17-1 format tables
CODEC = re.compile(r'(serde_yaml|serde_json|bincode)::|SerdeAPI>?::(to_yaml|to_json|from_yaml|from_json|to_bincode|from_bincode)\b')


def format_table(prog, b):
    """{format string: codec family} from the chain of `str == "lit"` tests of a SerdeAPI default method"""
    cfg = CFG(b)
    table = {}
    eqs = []
    for bn, t in cfg.call_sites(lambda c: c.startswith('<str as PartialEq>::eq')):
        lit = [a[1] for a in t.args if a[0] == 'const' and a[1].startswith('"')]
        if lit and t.dest is not None:
            eqs.append((bn, lit[0].strip('"'), t.dest.local, t.targets.get('return')))
    for bn, lit, dest, ret in eqs:
        # follow from the return block: switchInt on dest -> non-zero target
        cur = ret
        tgt = None
        for _ in range(6):
            if cur is None:
                break
            t = b.blocks[cur].term
            if t.kind == 'switch' and t.discr[0] in ('move', 'copy') and t.discr[1].local == dest:
                tgt = [v for k, v in t.targets.items() if k != '0' and v.startswith('bb')]
                tgt = tgt[0] if tgt else None
                break
            if t.kind == 'goto':
                cur = t.targets.get('goto')
            else:
                break
        if tgt is None:
            continue
        # first codec call reachable from tgt before any other string test
        seen = set()
        work = [tgt]
        codec = None
        stop = {e[0] for e in eqs}
        while work and codec is None:
            x = work.pop(0)
            if x in seen or x in stop and x != tgt:
                continue
            seen.add(x)
            t = b.blocks[x].term
            if t.kind == 'call':
                m = CODEC.search(t.callee)
                if m:
                    fam = m.group(1) or {'to_yaml': 'serde_yaml', 'from_yaml': 'serde_yaml', 'to_json': 'serde_json', 'from_json': 'serde_json',
                                         'to_bincode': 'bincode', 'from_bincode': 'bincode'}[m.group(2)]
                    codec = fam
                    break
            work.extend(cfg.succ[x])
        table[lit] = codec
    return table


def formats(ctx):
    prog = ctx.prog
    pairs = [('SerdeAPI::to_file', 'SerdeAPI::from_reader'), ('SerdeAPI::to_str', 'SerdeAPI::from_str')]
    if 'SerdeAPI::init' not in prog.by_id:
        ctx.unproved('C17-1.formats', 'SerdeAPI', 'trait SerdeAPI default methods not found (anchor)')
    for w, r in pairs:
        wb, rb = prog.by_id.get(w), prog.by_id.get(r)
        if wb is None or rb is None:
            ctx.unproved('C17-1.formats', '%s / %s' % (w, r), 'anchor not found'); continue
        wt, rt = format_table(prog, wb), format_table(prog, rb)
        ctx.analysed.setdefault('format_tables', {})[w] = wt
        ctx.analysed['format_tables'][r] = rt
        ctx.check(bool(wt) and wt == rt and None not in wt.values(), 'C17-1.formats', '%s = %s' % (w, r),
                  'writer and reader accept the same formats with the same codec: %s' % wt,
                  'writer table %s differs from reader table %s' % (wt, rt), ctx.where(wb))
    ctx.floor('format strings in to_file', len(ctx.analysed.get('format_tables', {}).get('SerdeAPI::to_file', {})), 4)
    # writer and reader must also NORMALISE the format string the same way before comparing it with the table (leading dot, case):
    # a file written as `X.YAML` has to be readable under the same name.  Sibling agreement over every format dispatcher.
    norms = {}
    for fid, b in sorted(prog.by_id.items()):
        if b.test or not re.search(r'(^SerdeAPI|as SerdeAPI>)::(to_file|to_str|from_str|from_reader|from_file|to_writer)$', fid):
            continue
        cfg = CFG(b)
        eqs = [bn for bn, t in cfg.call_sites(lambda c: c.startswith('<str as PartialEq>::eq')) if any(a[0] == 'const' and a[1].startswith('"') for a in t.args)]
        if len(eqs) < 2:
            continue
        pre = set()
        for bn, t in cfg.call_sites():
            m = re.search(r'str>?::(trim_start_matches|to_lowercase|to_uppercase|to_ascii_lowercase|to_ascii_uppercase|trim|trim_matches)\b', re.sub(r'::<.*?>', '', t.callee))
            if m and all(cfg.dominates(bn, e) for e in eqs):
                pre.add(m.group(1))
        norms[fid] = (tuple(sorted(pre)), b)
    ref = norms.get('SerdeAPI::to_file')
    if ref is None:
        ctx.unproved('C17-1.formats', 'normalisation', 'SerdeAPI::to_file is not a format dispatcher any more (anchor)')
    else:
        for fid, (pre, b) in sorted(norms.items()):
            if fid == 'SerdeAPI::to_file':
                continue
            ctx.check(pre == ref[0], 'C17-1.formats', 'normalisation|%s' % fid, 'the format string is normalised as in to_file before it is compared (%s)' % ', '.join(pre),
                      'to_file normalises with %s, this dispatcher with %s: a name one accepts the other rejects' % (list(ref[0]), list(pre)), ctx.where(b))
    ctx.floor('format dispatchers compared', len(norms), 4)


def init_paths(ctx):
    """every from_* reaches init() (directly or through another from_*) on every Ok path"""
    prog = ctx.prog
    n = 0
    via = re.compile(r'SerdeAPI>?::(init|from_reader|from_yaml|from_json|from_bincode|from_str|from_file)\b')
    for fid, b in sorted(prog.by_id.items()):
        if not re.search(r'(^SerdeAPI|as SerdeAPI>)::from_(file|reader|str|json|yaml|bincode)$', fid):
            continue
        n += 1
        cfg = CFG(b)
        marked = []
        for bn, t in cfg.call_sites():
            m = via.search(t.callee)
            if m and not (m.group(1) == fid.split('::')[-1] and 'as SerdeAPI' not in fid):
                marked.append(bn)
            elif any(x.fid.endswith('::init') or re.search(r'::from_(reader|yaml|json|bincode|str|file)$', x.fid) for x in prog.resolve(t.callee)):
                marked.append(bn)
        ok = bool(marked) and cfg.every_ok_path_passes(marked)
        ctx.check(ok, 'C17-1.init', fid, 'every Ok path passes through init() or a from_* that does',
                  'an Ok path avoids init(): witness %s' % cfg.path_avoiding(marked), ctx.where(b))
    ctx.floor('from_* entry points', n, 6)


# ------------------------------------------------------------------ C17-2 / C17-3 attribute inventory
def serde_types(prog):
    """local types reachable from SerdeAPI implementors through field types"""
    roots = set()
    for imp in prog.impls:
        if imp['trait'] and imp['trait'].replace(' ', '').split('<')[0].endswith('SerdeAPI'):
            roots.add(re.sub(r'<.*', '', imp['self_ty'].replace(' ', '')).split('::')[-1])
    for name, tds in prog.types.items():
        for td in tds:
            if any(d['name'] in ('SerdeAPI', 'HistoryVec') for d in td.rec.get('derives', [])):
                roots.add(td.name)
    seen = set()
    work = list(roots)
    while work:
        x = work.pop()
        if x in seen:
            continue
        seen.add(x)
        for td in prog.types.get(x, []):
            if td.test:
                continue
            flds = td.fields if td.kind == 'struct' else [f for v in td.variants for f in v['fields']]
            for f in flds:
                for m in re.finditer(r'[A-Za-z_]\w*', f['ty']):
                    if m.group(0) in prog.types and m.group(0) not in seen:
                        work.append(m.group(0))
    return seen


def attrs(ctx):
    prog = ctx.prog
    inv = inventory(ctx)
    st = serde_types(prog)
    ctx.analysed['serde_types'] = len(st)
    bin_advertised = 'bin' in (ctx.analysed.get('format_tables', {}).get('SerdeAPI::to_file', {}) or {}) or \
        any(f.endswith('SerdeAPI::to_bincode') for f in prog.by_id)
    nskipif = 0
    nskip = 0
    for name in sorted(st):
        for td in prog.types.get(name, []):
            if td.test or td.kind != 'struct':
                continue
            for f in td.fields:
                a = serde_attrs(f)
                key = '%s.%s' % (td.qual, f['name'])
                where = '%s:%s' % (td.file, f.get('line'))
                if any('skip_serializing_if' in x for x in a):
                    nskipif += 1
                    # omitted on write, expected on read by a non-self-describing format
                    ctx.check(not bin_advertised, 'C17-2.bincode', key, 'binary format not advertised',
                              'field is omitted on write (skip_serializing_if) but the type can be written with the non-self-describing '
                              'binary format ("bin" / to_bincode), which then cannot be read back', where)
                    is_opt = f['ty'].replace(' ', '').startswith('Option<')
                    ctx.check(any(x.startswith('#[serde(default') for x in a) or is_opt, 'C17-3.skip', key + '|default',
                              'an omitted field has a default on read', 'skip_serializing_if without serde(default) on a non-Option field', where)
                if any(x == '#[serde(skip)]' or 'skip_deserializing' in x for x in a):
                    nskip += 1
                    rebuilt(ctx, inv, td, f, key, where)
    ctx.floor('skip_serializing_if sites inspected', nskipif, 1) if nskipif else None
    ctx.counts['serde(skip) fields'] = nskip
    ctx.counts['skip_serializing_if fields'] = nskipif


def rebuilt(ctx, inv, td, f, key, where):
    """a #[serde(skip)] field must be written by init() of its type, or every reader must test it for emptiness/None first
    and rebuild it on that branch"""
    prog = ctx.prog
    W = inv.writes().get((td.qual, f['name']), [])
    writers = {b.fid for b, bn, sp, how in W if how.split(':')[0] in ('assign', 'opassign') and not b.test and not inv.is_ctor_like(b)}
    init_fid = '<%s as SerdeAPI>::init' % td.qual
    reach_init = inv.reachable([init_fid]) if init_fid in prog.by_id else set()
    by_init = bool(writers & reach_init)
    # readers: functions with a place projection of this field used as an operand / borrowed
    readers = field_readers(prog, inv, td, f['name'])
    bad = []
    nread = 0
    for b, blocks in readers.items():
        if inv.is_ctor_like(b) or b.test or re.search(r'derive\(|attr\(', b.fid):
            continue
        nread += 1
        cfg = inv.cfg(b)
        guards = guard_blocks(prog, inv, b, td, f['name'])
        wblocks = [bn for bb_, bn, sp, how in W if bb_ is b and how.split(':')[0] in ('assign', 'opassign')]
        wcalls = [bn for bn, t in cfg.call_sites() if any(x.fid in writers for x in prog.resolve(t.callee))]
        for rb in blocks:
            if rb in guards:
                continue
            ok = any(cfg.dominates(g, rb) for g in guards) and bool(wcalls or wblocks)
            ok = ok or any(w != rb and cfg.dominates(w, rb) for w in wblocks + wcalls)
            ok = ok or (rb in wblocks and _write_first(inv, b, rb, td, f['name']))
            if not ok:
                bad.append((b.fid, rb))
    if not bad:
        ctx.ok('C17-3.skip', key, 'every read is preceded by an emptiness/None test with a rebuilding branch, or by a store (%d reader functions)%s' % (
            nread, '; also rebuilt by init()' if by_init else ''), where)
        return
    if by_init:
        # rebuilt only by init(): then init() of this type must be reached from the init() of EVERY serialisable type that can contain
        # it — a container that keeps the default (empty) init() reloads the object with the field still empty
        missing = _containers_without_cascade(ctx, td)
        ctx.check(not missing, 'C17-3.skip', key, 'rebuilt by init(), which every containing serialisable type reaches on load',
                  'rebuilt only by init() (read unguarded in %s), but these serialisable types contain a %s and do not run its init() when loaded: %s' % (
                      sorted(set(x[0] for x in bad))[:3], td.name, missing[:6]), where)
        return
    ctx.check(False, 'C17-3.skip', key, '', 'the field is excluded from serialisation but read without a rebuild guard in %s' % sorted(set(x[0] for x in bad))[:4], where)


def _containers_without_cascade(ctx, td):
    """serialisable (SerdeAPI) struct types that contain `td` through their fields (Vec / Option / Box / enum payloads included)
    and whose init() does not reach td's init()"""
    prog = ctx.prog
    inv = inventory(ctx)
    target = '<%s as SerdeAPI>::init' % td.qual
    serde_impl = set()
    for imp in prog.impls:
        if imp['trait'] and imp['trait'].replace(' ', '').split('<')[0].endswith('SerdeAPI'):
            serde_impl.add(re.sub(r'<.*', '', imp['self_ty'].replace(' ', '')).split('::')[-1])
    for name, tds in prog.types.items():
        for t_ in tds:
            if any(d['name'] == 'SerdeAPI' for d in t_.rec.get('derives', [])):
                serde_impl.add(t_.name)
    # containment closure
    def field_types(t_):
        out = set()
        if t_.kind == 'struct':
            for f in t_.fields:
                out.add(base_type(f['ty'])[0])
        else:
            for v in getattr(t_, 'variants', []) or []:
                for f in v.get('fields', []) or []:
                    out.add(base_type(f['ty'])[0] if isinstance(f, dict) else base_type(str(f))[0])
        return out
    contains = {}
    alltd = [t_ for tds in prog.types.values() for t_ in tds if not t_.test]
    direct = {t_.name: field_types(t_) for t_ in alltd}
    holders = {td.name}
    changed = True
    while changed:
        changed = False
        for nm, fts in direct.items():
            if nm not in holders and fts & holders:
                holders.add(nm); changed = True
    missing = []
    for nm in sorted(holders - {td.name}):
        if nm not in serde_impl:
            continue
        fid = '<%s as SerdeAPI>::init' % nm
        t2 = prog.typedef(nm)
        fid = '<%s as SerdeAPI>::init' % (t2.qual if t2 is not None else nm)
        if fid not in prog.by_id:
            missing.append(nm + ' (default init)')
        elif target not in inv.reachable([fid]):
            missing.append(nm)
    return missing


def _write_first(inv, b, bn, td, fname):
    """in block bn the first statement touching the field is a store to it"""
    for s in b.blocks[bn].stmts:
        if s.kind != 'assign':
            continue
        ch = inv.place_fields(b, s.lhs) if s.lhs.proj else []
        if ch and ch[-1][0] == td.qual and ch[-1][1] == fname:
            return True
        for pl in _places_of_rv(s.rv):
            for o, fn, _ in inv.place_fields(b, pl):
                if o == td.qual and fn == fname:
                    return False
    return False


def _sg(c):
    from sa.program import strip_generics
    return strip_generics(c)


def guard_blocks(prog, inv, b, td, fname):
    """blocks that test this field with is_empty / is_none / is_some (the call's argument is a reference to the field)"""
    out = []
    refs = {}
    for bn in b.order:
        for s in b.blocks[bn].stmts:
            if s.kind == 'assign' and s.rv[0] == 'ref' and not s.lhs.proj:
                ch = inv.place_fields(b, s.rv[2])
                if ch and ch[-1][0] == td.qual and ch[-1][1] == fname:
                    refs[s.lhs.local] = bn
    # one level of re-borrow / deref-coercion: _y = Deref::deref(move _x)
    for bn in b.order:
        t = b.blocks[bn].term
        if t.kind == 'call' and re.search(r'as (std::ops::)?Deref(Mut)?>::deref', t.callee) and t.dest is not None and not t.dest.proj:
            for a in t.args:
                if a[0] in ('move', 'copy') and not a[1].proj and a[1].local in refs:
                    refs[t.dest.local] = bn
    for bn in b.order:
        for s in b.blocks[bn].stmts:
            if s.kind == 'assign' and s.rv[0] == 'discr':
                ch = inv.place_fields(b, s.rv[1])
                if ch and ch[-1][0] == td.qual and ch[-1][1] == fname:
                    out.append(bn)           # `match field { Some(..) / None }`
    for bn in b.order:
        t = b.blocks[bn].term
        if t.kind == 'call' and re.search(r'::(is_empty|is_none|is_some)$', _sg(t.callee)):
            for a in t.args:
                if a[0] in ('move', 'copy') and not a[1].proj and a[1].local in refs:
                    out.append(bn)
    return out


def field_readers(prog, inv, td, fname):
    out = collections.defaultdict(list)
    idx = None
    for f in td.fields:
        if f['name'] == fname:
            idx = f['idx']
    pat = re.compile(r'\.%d: ' % idx)
    for b in prog.bodies:
        if b.kind != 'fn':
            continue
        for bn in b.order:
            blk = b.blocks[bn]
            hit = False
            for s in blk.stmts:
                if s.kind == 'assign':
                    for pl in _places_of_rv(s.rv):
                        for o, fn, _ in inv.place_fields(b, pl):
                            if o == td.qual and fn == fname:
                                hit = True
            t = blk.term
            if t.kind == 'call':
                for a in t.args:
                    if a[0] in ('copy', 'move'):
                        for o, fn, _ in inv.place_fields(b, a[1]):
                            if o == td.qual and fn == fname:
                                hit = True
            if hit:
                out[b].append(bn)
    return out


def _places_of_rv(rv):
    k = rv[0]
    if k == 'use' and rv[1][0] in ('copy', 'move'):
        yield rv[1][1]
    elif k == 'ref':
        yield rv[2]
    elif k == 'binop':
        for o in (rv[2], rv[3]):
            if o[0] in ('copy', 'move'):
                yield o[1]
    elif k in ('unop', 'cast'):
        if rv[2][0] in ('copy', 'move'):
            yield rv[2][1]
    elif k == 'len' or k == 'discr':
        yield rv[1]


# ------------------------------------------------------------------ C17-4 mid-run state
def midrun(ctx):
    prog = ctx.prog
    inv = inventory(ctx)
    roots = [r for r in STEP_ROOTS if r in prog.by_id]
    ctx.floor('step roots for the write-set', len(roots), 5)
    tw = inv.transitive_writes(roots)
    ctx.analysed['fields_written_by_steps'] = len(tw)
    skipped = {}
    for name, tds in prog.types.items():
        for td in tds:
            if td.kind != 'struct' or td.test:
                continue
            for f in td.fields:
                a = serde_attrs(f)
                if any(x == '#[serde(skip)]' or 'skip_serializing)' in x for x in a):
                    skipped[(td.qual, f['name'])] = td
    # reconstructible caches are those C17-3 proved
    proved_skip = {r.key for r in ctx.results if r.rule == 'C17-3.skip' and r.verdict == 'PROVED'}
    n = 0
    for (ty, fld), fns in sorted(tw.items()):
        if (ty, fld) in skipped:
            n += 1
            key = '%s.%s' % (ty, fld)
            ctx.check(key in proved_skip, 'C17-4.midrun', key, 'written during a step but rebuilt on demand after load',
                      'a simulation step writes this field (%s) but it is excluded from serialisation and not rebuilt' % sorted(fns)[:3])
    ctx.ok('C17-4.midrun', 'write-set', '%d (type, field) pairs are written from the step roots; %d of them are #[serde(skip)] and all are rebuilt caches'
           % (len(tw), n))
    ctx.floor('fields in the step write-set', len(tw), 60)


# ------------------------------------------------------------------ C17-5 non-finite constants
NONFIN = re.compile(r'INFINITY|NEG_INFINITY|::NAN\b|TIME_NAN')


def exported_types(prog):
    """types exposed through the Python API (#[altrios_api]) and everything reachable from them through field types"""
    roots = set()
    for name, tds in prog.types.items():
        for td in tds:
            if not td.test and any(a['name'] == 'altrios_api' for a in td.rec.get('attr_macros', [])):
                roots.add(td.name)
    seen = set()
    work = list(roots)
    while work:
        x = work.pop()
        if x in seen:
            continue
        seen.add(x)
        for td in prog.types.get(x, []):
            if td.test:
                continue
            flds = td.fields if td.kind == 'struct' else [f for v in td.variants for f in v['fields']]
            for f in flds:
                for m in re.finditer(r'[A-Za-z_]\w*', f['ty']):
                    if m.group(0) in prog.types and m.group(0) not in seen:
                        work.append(m.group(0))
    return seen


def nonfinite(ctx):
    prog = ctx.prog
    eng = engine(ctx)
    st_all = serde_types(prog)
    st = exported_types(prog) & st_all
    ctx.analysed['exported_serde_types'] = len(st)
    ctx.note('C17-5 is decided for the types exposed through #[altrios_api] and what they contain (%d types); dispatch-internal '
             'records (TrainDisp / DispAuth / DispNode) derive SerdeAPI but are outside the statement\'s list of exported model types' % len(st))
    n_scanned = 0
    sites = {}
    for b in prog.bodies:
        if b.kind != 'fn' or b.test:
            continue
        if re.search(r'derive\((Debug|Clone|PartialEq|Serialize|Deserialize)\)', b.fid or ''):
            continue
        txt = False
        for bn in b.order:
            for s in b.blocks[bn].stmts:
                if s.kind == 'assign' and NONFIN.search(s.raw):
                    txt = True
            t = b.blocks[bn].term
            if t.kind == 'call' and NONFIN.search(t.raw):
                txt = True
        if not txt:
            continue
        n_scanned += 1
        try:
            an = eng.analysis(b)
        except Exception as e:
            ctx.unproved('C17-5.nonfinite', b.fid, 'analysis failed: %s' % e, ctx.where(b)); continue
        # (a) stores into fields
        for bb, path, val, span in an.stores_log:
            if _has_nonfinite(val) and path and path[-1][0] == 'f':
                owner = _owner_type(prog, an, b, path)
                if owner is None or owner.split('::')[-1] in st:
                    sites[(b.fid, '%s.%s' % (owner or '?', path[-1][1]))] = span
        # (b) aggregates built with a non-finite field (returned or stored)
        vals = []
        if an.exit_state is not None:
            vals.append(an.ret())
            for k in an.exit_state.store.keys():
                vals.append(an.exit_state.store.get(k))
        for v in vals:
            for x in walk(v):
                if x[0] == 'agg' and x[1].split('::')[-1] in st:
                    for fk, fv in x[2]:
                        if _has_nonfinite_shallow(fv):
                            sites[(b.fid, '%s.%s' % (x[1].split('::')[-1], fk))] = None
    ctx.counts['functions mentioning a non-finite constant'] = n_scanned
    for (fid, fld), span in sorted(sites.items()):
        b = prog.by_id.get(fid)
        ctx.bad('C17-5.nonfinite', '%s|%s' % (fid, fld),
                'a non-finite constant (±inf / NaN) is stored into the serialised field %s: serde_json writes null for it and cannot read it back as f64' % fld,
                ctx.where(b, span) if b else None)
    if not sites:
        ctx.ok('C17-5.nonfinite', 'inventory', 'no non-finite constant reaches a serialised field (%d functions scanned)' % n_scanned)
    ctx.floor('functions scanned for non-finite constants', n_scanned, 3)


def _has_nonfinite(v, depth=0):
    """the value *is* a non-finite constant (possibly scaled / negated / offset by numbers, or on one side of a γ);
    a non-finite seed of a min/max/fold is not a stored non-finite value"""
    op = v[0]
    if op == 'sym':
        return v[1] in ('INF', 'NAN')
    if depth > 6:
        return False
    if op == 'neg':
        return _has_nonfinite(v[1], depth + 1)
    if op in ('mul', 'div', 'add', 'sub'):
        a, b = v[1], v[2]
        return (_has_nonfinite(a, depth + 1) and b[0] in ('num', 'sym')) or (_has_nonfinite(b, depth + 1) and a[0] in ('num', 'sym') and op != 'div')
    if op == 'gamma':
        return _has_nonfinite(v[2], depth + 1) or _has_nonfinite(v[3], depth + 1)
    if op == 'Gamma':
        return any(_has_nonfinite(x, depth + 1) for _, x in v[2])
    return False


_has_nonfinite_shallow = _has_nonfinite


def _owner_type(prog, an, b, path):
    """type name owning the last field of `path` (by walking the parameter's type)"""
    root = path[0]
    if root[0] != 'obj':
        return None
    ty = dict(b.params).get(root[1])
    from sa.svn import strip_ref, elem_type
    cur = strip_ref(ty or '')
    for c in path[1:-1]:
        td = prog.typedef(cur)
        if c[0] == 'f':
            if td is None or td.kind != 'struct' or td.field(c[1]) is None:
                return None
            cur = strip_ref(td.field(c[1])['ty'].replace(' ', ''))
        elif c[0] == 'idx':
            cur = elem_type(cur) or cur
        elif c[0] == 'as':
            return None
    td = prog.typedef(cur)
    return td.qual if td is not None else re.sub(r'<.*', '', cur).split('::')[-1]


# ------------------------------------------------------------------ C17-6 LinkIdx codec
def linkidx(ctx):
    prog = ctx.prog
    ser = prog.by_id.get('<LinkIdx as Serialize>::serialize')
    de = prog.by_id.get("<LinkIdx as Deserialize<'de>>::deserialize") or next((b for f, b in prog.by_id.items() if re.match(r'<LinkIdx as Deserialize', f) and f.endswith('::deserialize')), None)
    if ser is None or de is None:
        ctx.unproved('C17-6.linkidx', 'LinkIdx', 'custom Serialize / Deserialize impl not found'); return
    sc = [t.callee for _, t in CFG(ser).call_sites() if 'serialize_' in t.callee]
    dc = [t.callee for _, t in CFG(de).call_sites() if 'deserialize_' in t.callee]
    s_kind = {re.search(r'serialize_(\w+)', c).group(1) for c in sc}
    d_kind = {re.search(r'deserialize_(\w+)', c).group(1) for c in dc}
    ctx.check(s_kind == d_kind and len(s_kind) == 1, 'C17-6.linkidx', 'LinkIdx|symmetric', 'written and read as the same primitive (%s)' % sorted(s_kind),
              'serialize uses %s, deserialize uses %s' % (sorted(s_kind), sorted(d_kind)), ctx.where(ser))
    visits = sorted({f.split('::')[-1] for f in prog.by_id if 'LinkIdx' in f and re.search(r'::visit_u(32|64)$', f)})
    ctx.check({'visit_u32', 'visit_u64'} <= set(visits), 'C17-6.linkidx', 'LinkIdx|visitor', 'visitor accepts u32 (bincode) and u64 (text formats)',
              'visitor methods: %s' % visits, ctx.where(de))


# ------------------------------------------------------------------ C17-7 nested init
def nested_init(ctx):
    prog = ctx.prog
    nontrivial = {}
    for fid, b in prog.by_id.items():
        m = re.match(r'<(.+) as SerdeAPI>::init$', fid)
        if m:
            nontrivial[m.group(1)] = b
    n = 0
    for tname, b in sorted(nontrivial.items()):
        td = prog.typedef(tname)
        if td is None or td.kind != 'struct':
            continue
        n += 1
        called = collections.Counter()
        for body in [b] + prog.closures_of(b.fid):
            for bn, t in CFG(body).call_sites():
                if re.search(r'::init$', t.callee.split('(')[0]):
                    called[t.callee] += 1
                for x in prog.resolve(t.callee):
                    if x.fid.endswith('::init'):
                        called[x.fid] += 1
        missing = []
        for f in td.fields:
            bt, k = base_type(f['ty'])
            tdc = prog.typedef(bt)
            q = tdc.qual if tdc is not None else bt
            if q in nontrivial and q != tname:
                if not any(('<%s as SerdeAPI>::init' % q) == c or (c.endswith('::init') and re.search(r'\b%s\b' % re.escape(q.split('::')[-1]), c)) for c in called):
                    missing.append('%s: %s' % (f['name'], q))
        ctx.check(not missing, 'C17-7.nestedinit', '<%s as SerdeAPI>::init' % tname, 'reaches the init of every nested object that has one',
                  'nested objects with their own init that are not initialised: %s' % missing, ctx.where(b))
    ctx.floor('hand-written init functions', n, 10)


def truncation(ctx):
    """C17-9.truncate: a save replaces the file.  Every function of the crate that opens a file for writing through OpenOptions
    also asks for truncation (File::create truncates by definition); otherwise saving a shorter object over a longer file
    leaves the old tail behind and the text formats cannot be read back."""
    import re as _re
    from sa.cfg import CFG
    R = 'C17-9.truncate'
    prog = ctx.prog
    n = 0
    creates = 0
    for b in prog.bodies:
        if b.kind != 'fn' or b.test:
            continue
        cfg = CFG(b)
        sites = list(cfg.call_sites())
        names = [(_re.sub(r'::<.*?>', '', t.callee), t) for _, t in sites]
        creates += sum(1 for nm, t in names if nm.endswith('File::create'))
        writes = [t for nm, t in names if nm.endswith('OpenOptions::write') and any(a[0] == 'const' and 'true' in a[1] for a in t.args)]
        if not writes:
            continue
        n += 1
        trunc = [t for nm, t in names if nm.endswith('OpenOptions::truncate') and any(a[0] == 'const' and 'true' in a[1] for a in t.args)]
        newonly = [t for nm, t in names if nm.endswith('OpenOptions::create_new') and any(a[0] == 'const' and 'true' in a[1] for a in t.args)]
        ctx.check(bool(trunc) or bool(newonly), R, b.fid, 'the file opened for writing is truncated (or must not exist yet)',
                  'OpenOptions::write(true) without truncate(true): an existing longer file keeps its old tail', ctx.where(b, writes[0].span))
    # SerdeAPI::to_file itself
    tb = prog.by_id.get('SerdeAPI::to_file')
    if tb is None:
        ctx.unproved(R, 'SerdeAPI::to_file', 'anchor not found')
    else:
        inv = None
        from .common import inventory
        inv = inventory(ctx)
        reach = inv.reachable(['SerdeAPI::to_file'])
        opens = 0
        for fid in reach:
            fb = prog.by_id.get(fid)
            if fb is None:
                continue
            for _, t in CFG(fb).call_sites():
                nm = _re.sub(r'::<.*?>', '', t.callee)
                if nm.endswith('File::create') or nm.endswith('OpenOptions::open'):
                    opens += 1
        ctx.check(opens >= 1, R, 'SerdeAPI::to_file|opens', 'to_file opens its target through File::create or a truncating OpenOptions chain (checked above)', 'no file-opening call found under to_file', ctx.where(tb))
    ctx.floor('functions opening files through OpenOptions::write', n, 2)


def derived_refresh(ctx):
    """C17-10.derived: loading runs init(), and init() of some types recomputes derived state through a `&mut self` refresher
    (found by reading every `SerdeAPI::init`: a call to a method of the same type that takes only `&mut self` and is named
    set_* / update_* / calc_*).  A re-loaded object therefore always carries the FRESH value.  For the live object to agree with
    its own saved copy, every other function that calls the refresher must call it on every Ok path (a conditional refresh —
    "only if still zero" — leaves the live object stale after its inputs change, while any copy read back is fresh)."""
    import re as _re
    from sa.cfg import CFG
    R = 'C17-10.derived'
    prog = ctx.prog
    refreshers = {}
    n_init = 0
    for f, b in sorted(prog.by_id.items()):
        if not f.endswith('SerdeAPI>::init') or b.test:
            continue
        n_init += 1
        tn = f.split(' as ')[0].lstrip('<')
        for bn, t in CFG(b).call_sites():
            for x in prog.resolve(t.callee):
                if x.fid.startswith(tn + '::') and x.nparams == 1 and x.params and x.params[0][1].startswith('&mut') and _re.search(r'::(set|update|calc)_\w+$', x.fid):
                    refreshers.setdefault(x.fid, []).append(f)
    ctx.floor('SerdeAPI::init bodies read', n_init, 20)
    ctx.floor('derived-state refreshers called by init()', len(refreshers), 1)
    for rf, inits in sorted(refreshers.items()):
        n = 0
        for b in prog.bodies:
            if b.kind != 'fn' or b.test or b.fid in inits or b.fid == rf:
                continue
            cfg = CFG(b)
            sites = [bn for bn, t in cfg.call_sites() if any(x.fid == rf for x in prog.resolve(t.callee))]
            if not sites:
                continue
            n += 1
            ok = cfg.every_ok_path_passes(sites)
            ctx.check(ok, R, '%s in %s' % (rf, b.fid), 'refreshed on every Ok path (as init() does on load)',
                      'the refresh is conditional here, but unconditional in %s: a live object and its re-loaded copy can carry different values' % inits, ctx.where(b))
        ctx.check(n >= 1, R, rf + '|used', '%d other function(s) call the refresher' % n, 'nothing but init() calls it: the live object never refreshes this state', None)


def init_overwrites(ctx):
    """C17-10.derived (second half): init() runs after every load, so a serialised field that init() assigns is overwritten on
    the way in: the loaded object no longer carries what was saved (a step counter reset to its start value, a carried value
    zeroed).  Decided: no `SerdeAPI::init` body assigns, directly, a field of its own type that is part of the serialised form
    (fields marked #[serde(skip)] are the ones init() is there to rebuild)."""
    R = 'C17-10.derived'
    prog = ctx.prog
    inv = inventory(ctx)
    W = inv.writes()
    n = 0
    for f, b in sorted(prog.by_id.items()):
        if not f.endswith('SerdeAPI>::init') or b.test:
            continue
        tn = f.split(' as ')[0].lstrip('<')
        td = prog.typedef(tn)
        if td is None or td.kind != 'struct':
            continue
        n += 1
        bad = []
        for fld in td.fields:
            if not fld.get('name'):
                continue
            a = serde_attrs(fld)
            skipped = any(x == '#[serde(skip)]' or 'skip_deserializing' in x for x in a)
            for bb, bn, sp, how in W.get((td.qual, fld['name']), []):
                if bb is b and how.split(':')[0] in ('assign', 'opassign') and not skipped:
                    bad.append(fld['name'])
        ctx.check(not bad, R, f + '|overwrites', 'assigns no serialised field of %s' % td.name,
                  'init() assigns serialised field(s) %s of %s: their saved values are lost on every load' % (sorted(set(bad)), td.name), ctx.where(b))
    ctx.floor('init bodies of struct types inspected', n, 10)
