"""C12 — time / position / distance bookkeeping (DESIGN §5 C12).  Whole-step terms at the Ok exit of the two solve_step's."""
import re
from sa.dsl import T, gamma, select, NOT, _t
from sa.terms import mk, ZERO, ONE, show, walk, map_term, num
from .common import (engine, inventory, StateView, locate, prove, analysis_or_fail, pretty)

LEVEL = 'proof'
MANIFEST = {
    'category': 'proof',
    'engine': 'svn',
    'technique': 'symbolic value numbering of the whole step (composed summaries) + term-identity prover',
    'text': ('At the Ok exit of SetSpeedTrainSim::solve_step and SpeedLimitTrainSim::solve_step (callees composed through '
             'summaries, so a stale read or a later overwrite inside the same step is visible) the kinematic relations of the '
             'statement are proved as term identities for all inputs: time += dt (resp. = trace time), offset advances by dt times '
             'the mean of the speeds before and after, rear = front - length at exit, total distance accumulates |Δoffset|, and '
             'offset_in_link / link_idx_front are taken from the same link point with base + in-link offset = position.'),
    'note': ('Not decided: that the located link point is the right segment for every boundary configuration and 0 <= offset_in_link '
             '<= link length (search correctness over arbitrary routes). The almost_eq snap of the speed-limited speed to its target '
             'is within the helper\'s tolerance and is reported with the cofactor. Reals, not floats.'),
}
EXPLANATION = 'Whole-step SVN terms of the TrainState bookkeeping fields compared with the kinematic reference formulas.'
RULES = ['C12-1.time', 'C12-2.offset', 'C12-3.rear', 'C12-4.dist', 'C12-5.link', 'C12-6.init', 'C12-7.records', 'C12-8.linkpoints']
ASSUMPTIONS = ['dt > 0', 'identities over the reals']

SIMS = {
    'SetSpeedTrainSim::solve_step': 'set-speed',
    'SpeedLimitTrainSim::solve_step': 'speed-limited',
}


def unsnapped(speed_post):
    """post speed is γ(almost_eq(v, target), target, v): return v (the integrated speed) and the snap condition"""
    t = speed_post
    if t[0] == 'gamma' and t[1][0] == 'uf' and 'almost_eq' in t[1][1]:
        return t[3], t[1]
    return t, None


def run(ctx):
    prog = ctx.prog
    n = 0
    for fid, kind in SIMS.items():
        b = ctx.anchor('C12', fid)
        if b is None:
            continue
        an = analysis_or_fail(ctx, 'C12', b)
        if an is None:
            continue
        n += 1
        sv = StateView(an, (('f', 'state'),))
        if kind == 'set-speed':
            tr = lambda f, i: T(('pre', (('obj', 1), ('f', 'speed_trace'), ('f', f), ('idx', i))))
            i = ('pre', (('obj', 1), ('f', 'state'), ('f', 'i')))
            im1 = mk('sub', i, ONE)
            dt = tr('time', i) - tr('time', im1)
            prove(ctx, 'C12-1.time', fid + '|time', an, 'eq', sv.post('time'), tr('time', i), assume=[], note='time = trace.time[i]')
            prove(ctx, 'C12-1.time', fid + '|dt', an, 'eq', sv.post('dt'), dt, assume=[], note='dt = trace.time[i] - trace.time[i-1]')
            prove(ctx, 'C12-2.offset', fid + '|speed', an, 'eq', sv.post('speed'), tr('speed', i), assume=[], note='speed = trace.speed[i]')
            mean = (tr('speed', i) + tr('speed', im1)) / 2
            prove(ctx, 'C12-2.offset', fid + '|offset', an, 'eq', sv.post('offset') - sv.pre('offset'), mean * dt, assume=[],
                  note='Δoffset = ½(v[i] + v[i-1])·(t[i] - t[i-1])')
        else:
            dt = sv.pre('dt')
            prove(ctx, 'C12-1.time', fid + '|time', an, 'eq', sv.post('time'), sv.pre('time') + dt, assume=[], note='time += dt')
            prove(ctx, 'C12-1.time', fid + '|dt unchanged', an, 'eq', sv.post('dt'), dt, assume=[], note='the step does not alter dt')
            v1, snap = unsnapped(sv.post('speed').t)
            prove(ctx, 'C12-2.offset', fid + '|offset', an, 'eq', sv.post('offset') - sv.pre('offset'), dt * (sv.pre('speed') + T(v1)) / 2,
                  assume=[], note='Δoffset = dt·(speed_before + speed_after)/2%s' % (' [speed_after before the almost_eq snap to the target]' if snap else ''))
            if snap is not None:
                ok = snap[2] == v1 or snap[3] == v1
                ctx.check(ok, 'C12-2.offset', fid + '|snap', 'the only adjustment of the integrated speed is an almost_eq snap to speed_target',
                          'snap condition %s does not compare the integrated speed' % show(snap, an.names)[:200], ctx.where(b))
        prove(ctx, 'C12-3.rear', fid + '|offset_back', an, 'eq', sv.post('offset_back'), sv.post('offset') - sv.post('length'), assume=[],
              note='rear = front - length at step exit')
        prove(ctx, 'C12-4.dist', fid + '|total_dist', an, 'eq', sv.post('total_dist') - sv.pre('total_dist'),
              (sv.post('offset') - sv.pre('offset')).abs(), assume=[], note='Δtotal_dist = |Δoffset|')
        # link bookkeeping at exit: offset_in_link = offset - link_points[k].offset, link_idx_front = link_points[k].link_idx, same k
        oil = sv.post('offset_in_link').t
        lif = sv.post('link_idx_front').t
        base = mk('sub', sv.post('offset').t, oil)
        lp_off = _linkpoint_ref(base)
        lp_idx = _linkpoint_of(lif)
        ok1 = lp_off is not None
        ctx.check(ok1, 'C12-5.link', fid + '|offset_in_link', 'offset - offset_in_link is the offset of a link point of the path',
                  'offset - offset_in_link = %s' % show(base, an.names)[:300], ctx.where(b))
        ok2 = lp_idx is not None and lp_off is not None and lp_idx == lp_off
        ctx.check(ok2, 'C12-5.link', fid + '|link_idx_front', 'link_idx_front is the link of the same link point',
                  'link point of link_idx_front: %s ; link point of the base offset: %s' % (show(lp_idx, an.names)[:200] if lp_idx else None,
                                                                                          show(lp_off, an.names)[:200] if lp_off else None), ctx.where(b))
    ctx.floor('train step roots analysed', n, 2)
    link_search(ctx)
    initial_state(ctx)
    # 'saved time increases by exactly the step size' is a statement about consecutive RECORDS: besides the step relations it needs
    # exactly one record per step, whichever entry point drives the run, saved before the counters move (clauses of C19, shared)
    if not getattr(ctx, '_c12_nested', False):
        from .common import RuleProxy
        from . import C19
        px = RuleProxy(ctx, {'C19-6.drivers': 'C12-7.records', 'C19-2.order': 'C12-7.records'})
        C19.drivers(px)
        C19.order(px, engine(ctx))
        # the front segment is looked up in the path's link points: their offsets are the cumulative link lengths (clause of C06-1)
        from . import C06
        C06.run(RuleProxy(ctx, {'C06-1.linkpoints': 'C12-8.linkpoints'}))


def _deref_chain(t):
    """strip unwrap(...) / ptr-deref wrappers: returns the ('pre', path) / term that denotes the link point"""
    return t


def _linkpoint_ref(base):
    """base must normalise to <linkpoint>.offset: find X such that base == X.offset"""
    from sa.prove import Prover
    # base = offset' - (offset' - LP.offset)  -> normalise with sympy through the prover's conversion
    cands = []
    for x in walk(base):
        if x[0] == 'pre' and x[1][-1] == ('f', 'offset') and len(x[1]) >= 2 and _mentions_link_points(x):
            cands.append(x)
    pv = Prover()
    for c in cands:
        v, _ = pv.eq(base, c)
        if v == 'PROVED':
            return ('pre', c[1][:-1])
    return None


def _linkpoint_of(lif):
    for x in walk(lif):
        if x[0] == 'pre' and len(x[1]) >= 2 and x[1][-2:] == (('f', 'link_idx'), ('f', 'idx')) and _mentions_link_points(x):
            return ('pre', x[1][:-2])
        if x[0] == 'pre' and x[1][-1] == ('f', 'link_idx') and _mentions_link_points(x):
            return ('pre', x[1][:-1])
    return None


def _mentions_link_points(x):
    return 'link_points' in show(x)


def link_search(ctx):
    """set_link_and_offset: k = (first position whose link-point offset >= state.offset, or len) - 1"""
    b = ctx.prog.find_fn('set_link_and_offset')
    if b is None:
        ctx.unproved('C12-5.link', 'set_link_and_offset', 'anchor function not found')
        return
    an = analysis_or_fail(ctx, 'C12-5.link', b)
    if an is None:
        return
    oil = an.load((('obj', 1), ('f', 'offset_in_link')), an.exit_state)
    s = show(oil, an.names)
    ok = 'iter.position' in s and '- 1' in s
    ctx.check(ok, 'C12-5.link', 'set_link_and_offset|k', 'segment index is position(..) - 1 over path_tpc.link_points',
              'offset_in_link term: %s' % s[:300], ctx.where(b))
    # the position predicate: closure compares link_point.offset >= state.offset
    cl = [c for c in ctx.prog.closures_of(b.fid)]
    found = False
    eng = engine(ctx)
    for c in cl:
        ca = eng.analysis(c)
        if ca.exit_state is None:
            continue
        r = ca.ret()
        rs = show(r)
        if r[0] in ('ge', 'le', 'gt', 'lt') and 'offset' in rs:
            found = True
            # lp.offset >= state.offset   (equivalently state.offset <= lp.offset)
            good = (r[0] == 'ge' and 'arg2' in show(r[1]) or r[0] == 'le' and 'arg2' in show(r[2]))
            ctx.check(good, 'C12-5.link', 'set_link_and_offset|predicate', 'search predicate is link_point.offset >= state.offset',
                      'search predicate is %s' % rs[:200], ctx.where(c))
    if not found:
        ctx.unproved('C12-5.link', 'set_link_and_offset|predicate', 'position predicate closure not found', ctx.where(b))


def initial_state(ctx):
    """C12-6.init: the record saved before the first step obeys the same relations: the state a train starts from has
    rear = front - length, the front at least one train length down the route, the time / speed of the requested initial
    state, no distance travelled yet and step counter 1."""
    R = 'C12-6.init'
    b = ctx.prog.by_id.get('TrainState::new')
    if b is None:
        ctx.unproved(R, 'TrainState::new', 'anchor not found'); return
    an = analysis_or_fail(ctx, R, b)
    if an is None:
        return
    r = an.ret()
    f = dict(r[2]) if r[0] == 'agg' else {}
    w = ctx.where(b)
    if not f:
        ctx.unproved(R, 'TrainState::new', 'the constructor does not return a struct literal: %s' % show(r, an.names)[:200], w); return
    try:
        L = T(an.arg('length'))
    except KeyError:
        ctx.unproved(R, 'TrainState::new', 'no parameter named length', w); return
    prove(ctx, R, 'TrainState::new|offset_back', an, 'eq', T(f.get('offset_back')), T(f.get('offset')) - L, assume=[], note='rear = front - length in the initial state')
    prove(ctx, R, 'TrainState::new|length', an, 'eq', T(f.get('length')), L, assume=[], note='the state carries the length it was built with')
    prove(ctx, R, 'TrainState::new|offset >= length', an, 'ge0', T(f.get('offset')) - L, assume=[], note='the whole train is on the route: front >= length')
    prove(ctx, R, 'TrainState::new|total_dist', an, 'eq', T(f.get('total_dist')), 0, assume=[], note='no distance travelled yet')
    ctx.check(f.get('i') == ONE, R, 'TrainState::new|i', 'step counter starts at 1', 'i starts at %s' % show(f.get('i'), an.names)[:40], w)
    s_t, s_v = show(f.get('time'), an.names), show(f.get('speed'), an.names)
    ctx.check('.time' in s_t and '.speed' in s_v and 'init_train_state' in s_t + s_v or ('time' in s_t and 'speed' in s_v and 'arg5' in s_t + s_v), R, 'TrainState::new|time, speed',
              'time and speed are those of the requested initial state', 'time = %s, speed = %s' % (s_t[:80], s_v[:80]), w)
