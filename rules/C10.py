"""C10 — consist power split conserves demand and honours each unit's capability (DESIGN §5 C10)."""
import re
from sa.dsl import T, gamma, select, specialize, _t
from sa.terms import mk, ZERO, ONE, show, walk, map_term, num
from sa.cfg import CFG
from .common import engine, inventory, StateView, locate, prove, analysis_or_fail

LEVEL = 'proof'
MANIFEST = {
    'category': 'proof',
    'engine': 'svn',
    'technique': 'symbolic value numbering with closure inlining and beta-reduction of collected maps: per-unit share as an arm table over the locomotive type + sign/bound prover',
    'text': ('For both shipped policies the share assigned to unit k is obtained as a closed term (arm table over the unit\'s '
             'powertrain type) from the MIR of the distribution functions, and for every arm it is proved that the share has the sign '
             'of the request, does not exceed the unit\'s published limit (traction) or drivetrain rating (braking), that regeneration '
             'goes only to battery-equipped arms and never above the unit\'s regeneration limit, and that under the battery-first '
             'policy fuel-burning units receive only the deficit max(req − battery capability, 0). Conservation on accepted steps: '
             'the consist step is guarded by almost_eq(requested, Σ shares) when limits are asserted, and the per-unit solve consumes '
             'the very vector that was summed; for the proportional policy Σ shares = request follows from M = Σ m_k (C09 chain).'),
    'note': ('Assumes unit limits >= 0, consist limits > 0 where divided by, drivetrain rating >= the unit\'s regeneration share. '
             'GoldenSectionSearch and FrontAndBack are todo!() in the source and are reported as not covered (the statement says "both '
             'shipped policies"). Behaviour with assert_limits = false for RESGreedy relies on a panic helper and is not claimed.'),
}
EXPLANATION = 'Per-unit share terms (arm tables) of the distribution functions, with sign and bound obligations per arm.'
RULES = ['C10-1.conservation', 'C10-2.proportional', 'C10-3.resgreedy', 'C10-4.regen', 'C10-5.dynbrake', 'C10-6.coverage', 'C10-7.unit', 'C10-8.limits', 'C10-9.request']
ASSUMPTIONS = ['unit limits >= 0', 'consist limits > 0 where divided by', 'drivetrain rating >= regeneration share of the unit']

A = [(r'pwr_out_max$', 'nonneg'), (r'pwr_regen_max$', 'nonneg'), (r'pwr_out_max_reves$', 'pos'), (r'pwr_out_max_non_reves$', 'pos'),
     (r'edrv\.pwr_out_max$', 'pos')]
VARIANTS = (('ConventionalLoco', 0), ('HybridLoco', 1), ('BatteryElectricLoco', 2))


def item_of(t):
    """(element term, binding level) of ok(collect(seq[...])) ; None otherwise"""
    if t[0] == 'ok':
        t = t[1]
    if t[0] == 'uf' and t[1] == 'iter.collect' and t[2][0] == 'seq':
        return t[2][2], (t[2][3] if len(t[2]) > 3 else 0), t[2][1]
    return None


def arm(term, idx):
    return select(term, lambda d: d[0] == 'discr' and 'loco_type' in show(d), idx)


def run(ctx):
    prog = ctx.prog
    eng = engine(ctx)
    conservation(ctx)
    proportional(ctx)
    resgreedy(ctx)
    negative(ctx)
    coverage(ctx)
    # the power a unit records for the step is the share it was solved for: traction minus dynamic braking of its drivetrain,
    # for every powertrain type (shared with C01-3; otherwise the units' recorded powers no longer sum to the request)
    from .C01 import loco_pwr_out_arms
    loco_pwr_out_arms(ctx, 'C10-7.unit')
    # the limits the split honours are the consist's published ones: sums over the units of the same-named unit limit, and the
    # battery capability per powertrain type that decides how much is left for the fuel-burning units (clauses of C09-3, shared)
    from .common import RuleProxy
    from . import C09
    C09.chains(RuleProxy(ctx, {'C09-3.chain': 'C10-8.limits'}))
    # no unit regenerates above its published limit: the drivetrain's clamp (clause of C09-4)
    C09.run(RuleProxy(ctx, {'C09-4.bound': 'C10-8.limits'}, key_filter=lambda k: 'regen' in k))
    # the share a unit was assigned is the power its drivetrain is asked for: handed down unchanged from the consist loop to the
    # electric drivetrain of every powertrain type (the consist's own split and the shaft power of the engine are other quantities)
    from .common import value_passthrough
    value_passthrough(ctx, 'C10-9.request', 'pwr_out_req', derived={
        ('Consist::solve_energy_consumption', 'Locomotive::solve_energy_consumption'),        # the split itself (C10-1 .. C10-5)
        ('ConventionalLoco::solve_energy_consumption', 'FuelConverter::solve_energy_consumption'),   # engine shaft power (C01 / C08 relations)
        ('HybridLoco::solve_energy_consumption', 'FuelConverter::solve_energy_consumption'),
    }, floor=8)


def _unit(lvl, *fields):
    p = (('obj', 2), ('idx', ('bound', lvl)))
    for f in fields:
        p = p + (('f', f),)
    return T(('pre', p))


def _st(f, root=3):
    return T(('pre', (('obj', root), ('f', f))))


def proportional(ctx):
    prog = ctx.prog
    fid = '<Proportional as SolvePower>::solve_positive_traction'
    b = ctx.anchor('C10-2.proportional', fid)
    if b is None:
        return
    an = analysis_or_fail(ctx, 'C10-2.proportional', b)
    if an is None:
        return
    it = item_of(an.ret())
    if it is None:
        ctx.unproved('C10-2.proportional', fid, 'result is not a collected map over loco_vec: %s' % show(an.ret(), an.names)[:200], ctx.where(b)); return
    E, lvl, srcs = it
    ctx.check(list(srcs) == [('slice', (('obj', 2),))], 'C10-2.proportional', fid + '|one share per unit', 'the result has one element per locomotive, in order',
              'sources: %s' % (srcs,), ctx.where(b))
    m = _unit(lvl, 'state', 'pwr_out_max'); M = _st('pwr_out_max'); req = _st('pwr_out_req')
    prove(ctx, 'C10-2.proportional', fid + '|share', an, 'eq', T(E), m / M * req, assume=A, note='share_k = m_k / M · request')
    facts = [req.gt(0), M.gt(0), req.le(M)]
    prove(ctx, 'C10-2.proportional', fid + '|sign', an, 'ge0', T(E), facts=facts, assume=A, note='[request > 0] no unit brakes while the consist pushes')
    prove(ctx, 'C10-2.proportional', fid + '|within unit limit', an, 'le', T(E), m, facts=facts, assume=A, note='[request <= M] share never exceeds the unit\'s published limit')


def resgreedy(ctx):
    fid = '<RESGreedy as SolvePower>::solve_positive_traction'
    b = ctx.anchor('C10-3.resgreedy', fid)
    if b is None:
        return
    an = analysis_or_fail(ctx, 'C10-3.resgreedy', b)
    if an is None:
        return
    r = an.ret()
    if r[0] == 'ok':
        r = r[1]
    deficit = _st('pwr_out_deficit')
    if not (r[0] == 'gamma' and r[1] == mk('eq', deficit.t, ZERO)):
        ctx.unproved('C10-3.resgreedy', fid, 'result is not split on pwr_out_deficit == 0: %s' % show(r, an.names)[:200], ctx.where(b)); return
    nod, de = item_of(r[2]), item_of(r[3])
    if nod is None or de is None:
        ctx.unproved('C10-3.resgreedy', fid, 'branches are not collected maps', ctx.where(b)); return
    req = _st('pwr_out_req'); Mr = _st('pwr_out_max_reves'); Mn = _st('pwr_out_max_non_reves'); M = _st('pwr_out_max')
    # --- no deficit: battery units cover everything
    E, lvl, srcs = nod
    m = _unit(lvl, 'state', 'pwr_out_max')
    facts = [req.gt(0), req.le(Mr)]        # deficit = max(req − Mr, 0) = 0  (deficit term checked in C10-1)
    for vn, vi in VARIANTS:
        a_ = T(arm(E, vi))
        k = '%s|no deficit|%s' % (fid, vn)
        if vn == 'ConventionalLoco':
            prove(ctx, 'C10-3.resgreedy', k, an, 'eq', a_, 0, assume=A, note='fuel-burning units contribute nothing while the battery units can cover the demand')
        else:
            prove(ctx, 'C10-3.resgreedy', k, an, 'eq', a_, m / Mr * req, assume=A, note='battery units share proportionally to their limits')
            prove(ctx, 'C10-3.resgreedy', k + '|sign', an, 'ge0', a_, facts=facts, assume=A)
            prove(ctx, 'C10-3.resgreedy', k + '|within unit limit', an, 'le', a_, m, facts=facts, assume=A, note='[request <= battery capability]')
    # --- deficit: battery units at their limit, fuel-burning units share the deficit
    E, lvl, srcs = de
    m = _unit(lvl, 'state', 'pwr_out_max')
    facts = [deficit.gt(0), deficit.le(Mn)]   # deficit = max(req − Mr, 0) <= M − Mr = Mn on accepted steps
    for vn, vi in VARIANTS:
        a_ = T(arm(E, vi))
        k = '%s|deficit|%s' % (fid, vn)
        if vn == 'ConventionalLoco':
            prove(ctx, 'C10-3.resgreedy', k, an, 'eq', a_, m / Mn * deficit, assume=A, note='fuel-burning units share only the deficit')
            prove(ctx, 'C10-3.resgreedy', k + '|sign', an, 'ge0', a_, facts=facts, assume=A)
            prove(ctx, 'C10-3.resgreedy', k + '|within unit limit', an, 'le', a_, m, facts=facts, assume=A, note='[deficit <= non-battery capability]')
        else:
            prove(ctx, 'C10-3.resgreedy', k, an, 'eq', a_, m, assume=A, note='battery units run at their published limit')


def negative(ctx):
    prog = ctx.prog
    # regeneration vector: arm table
    b = prog.find_fn('get_pwr_regen_vec')
    if b is None:
        ctx.unproved('C10-4.regen', 'get_pwr_regen_vec', 'anchor not found'); return
    an = analysis_or_fail(ctx, 'C10-4.regen', b)
    if an is None:
        return
    it = item_of(an.ret())
    if it is None:
        ctx.unproved('C10-4.regen', b.fid, 'result is not a collected map', ctx.where(b)); return
    E, lvl, srcs = it
    rk = T(('pre', (('obj', 1), ('idx', ('bound', lvl)), ('f', 'state'), ('f', 'pwr_regen_max'))))
    frac = T(an.arg('regen_frac'))
    for vn, vi in VARIANTS + (('DummyLoco', 3),):
        a_ = T(arm(E, vi))
        if vn in ('ConventionalLoco', 'DummyLoco'):
            prove(ctx, 'C10-4.regen', '%s|%s' % (b.fid, vn), an, 'eq', a_, 0, assume=A, note='no regeneration on units without a battery')
        else:
            prove(ctx, 'C10-4.regen', '%s|%s' % (b.fid, vn), an, 'eq', a_, rk * frac, assume=A, note='regeneration = unit regeneration limit · fraction')
            prove(ctx, 'C10-4.regen', '%s|%s|within regen limit' % (b.fid, vn), an, 'le', a_, rk, facts=[frac.ge(0), frac.le(1)], assume=A, note='[0 <= fraction <= 1]')
    # negative traction
    nb = prog.find_fn('solve_negative_traction')
    if nb is None:
        ctx.unproved('C10-5.dynbrake', 'solve_negative_traction', 'anchor not found'); return
    na = analysis_or_fail(ctx, 'C10-5.dynbrake', nb)
    if na is None:
        return
    it = item_of(na.ret())
    if it is None:
        ctx.unproved('C10-5.dynbrake', nb.fid, 'result is not a collected map: %s' % show(na.ret(), na.names)[:200], ctx.where(nb)); return
    E, lvl, srcs = it
    S = lambda f: T(('pre', (('obj', 2), ('f', f))))
    req = S('pwr_out_req'); R = S('pwr_regen_max'); rdef = S('pwr_regen_deficit')
    U = lambda *fs: T(('pre', (('obj', 1), ('idx', ('bound', lvl))) + tuple(('f', f) if not f.startswith('@') else ('as', f[1:]) for f in fs)))
    rk = U('state', 'pwr_regen_max')
    fr = gamma(R.eq(0), 0, ((-req) / R).min(1))
    if not (E[0] == 'neg' and E[1][0] == 'gamma' and E[1][1] == mk('eq', rdef.t, ZERO)):
        ctx.unproved('C10-5.dynbrake', nb.fid, 'share is not −γ(regen deficit == 0, …): %s' % show(E, na.names)[:200], ctx.where(nb)); return
    nodef, dfc = E[1][2], E[1][3]
    base_facts = [req.lt(0), R.gt(0)]
    for vn, vi in VARIANTS:
        rating = U('loco_type', '@' + vn, '#0', 'edrv', 'pwr_out_max')
        regen_k = (rk * fr) if vn != 'ConventionalLoco' else T(ZERO)
        # no deficit: all braking is regeneration
        a_ = T(arm(nodef, vi))
        k = '%s|no regen deficit|%s' % (nb.fid, vn)
        prove(ctx, 'C10-5.dynbrake', k, na, 'eq', a_, regen_k, assume=A, facts=base_facts, note='braking share = regeneration share')
        prove(ctx, 'C10-5.dynbrake', k + '|sign', na, 'ge0', a_, assume=A, facts=base_facts, note='[request < 0] no unit pushes while the consist brakes (share is negated afterwards)')
        # deficit: (rating − regen)·surplus_frac + regen, with the guard 0 <= surplus_frac <= 1
        d_ = arm(dfc, vi)
        k = '%s|regen deficit|%s' % (nb.fid, vn)
        sf = _surplus_frac(d_)
        if sf is None:
            ctx.unproved('C10-5.dynbrake', k, 'cannot identify the surplus fraction in %s' % show(d_, na.names)[:200], ctx.where(nb)); continue
        f = T(('sym', 'surplus_frac'))
        d2 = map_term(d_, lambda x: f.t if x == sf else x)
        prove(ctx, 'C10-5.dynbrake', k, na, 'eq', T(d2), (rating - regen_k) * f + regen_k, assume=A, facts=base_facts,
              note='dynamic-brake share = (rating − regeneration)·surplus fraction + regeneration')
        facts = base_facts + [f.ge(0), f.le(1), regen_k.le(rating)]
        prove(ctx, 'C10-5.dynbrake', k + '|within drivetrain rating', na, 'le', T(d2), rating, assume=A, facts=facts,
              note='[0 <= surplus fraction <= 1, regeneration <= rating] braking share never exceeds the unit\'s drivetrain rating')
        prove(ctx, 'C10-5.dynbrake', k + '|sign', na, 'ge0', T(d2), assume=A, facts=facts)
    # the guard on the surplus fraction
    g = [x for x in na.guards if x.kind != 'assert' and 'pwr_regen_deficit/' in show(x.holds_term(), na.names).replace(' ', '')]
    ok = False
    for x in g:
        s = show(x.holds_term(), na.names)
        if ' >= 0' in s and ' <= 1' in s:
            ok = True
    ctx.check(ok, 'C10-5.dynbrake', nb.fid + '|surplus fraction guard', 'every Ok path in the deficit branch satisfies 0 <= surplus fraction <= 1',
              'no guard bounds the surplus fraction: %s' % [show(x.holds_term(), na.names)[:100] for x in g][:3], ctx.where(nb))
    # regen fraction term
    rf_sites = [c for c in na.calls if c.targets and any(t.endswith('get_pwr_regen_vec') for t in c.targets)]
    if rf_sites:
        got = rf_sites[0].argvals[1]
        prove(ctx, 'C10-4.regen', nb.fid + '|regen fraction', na, 'eq', T(got), fr, assume=A,
              note='fraction = regen capability is zero ? 0 : min(braking request / regen capability, 1)')
    else:
        ctx.unproved('C10-4.regen', nb.fid + '|regen fraction', 'call of get_pwr_regen_vec not found', ctx.where(nb))


def _surplus_frac(t):
    for x in walk(t):
        if x[0] == 'div' and x[2][0] == 'uf' and x[2][1] == 'iter.fold' and 'pwr_regen_deficit' in show(x[1]):
            return x
    return None


def conservation(ctx):
    prog = ctx.prog
    inv = inventory(ctx)
    for b in inv.writers('ConsistState', 'pwr_out'):
        if re.search(r'attr\(|__', b.fid):
            continue
        an = analysis_or_fail(ctx, 'C10-1.conservation', b)
        if an is None:
            continue
        sv = StateView(an, locate(ctx, b, 'ConsistState') or (('f', 'state'),))
        req = sv.post('pwr_out_req')
        al = ('pre', (('obj', 1), ('f', 'assert_limits')))
        found = None
        for g in an.guards:
            h = g.holds_term()
            if g.kind != 'assert' and h[0] == 'uf' and h[1].endswith('almost_eq_uom') and len(g.gate) == 1 and g.gate[0][0] == al and g.gate[0][1] != '0':
                found = (g, h)
        if found is None:
            ctx.bad('C10-1.conservation', b.fid + '|Σ shares = request', 'no [assert_limits] almost_eq(requested, delivered) guard on the Ok paths', ctx.where(b)); continue
        g, h = found
        po = sv.post('pwr_out').t
        ok = {h[2], h[3]} == {req.t, po}
        ctx.check(ok, 'C10-1.conservation', b.fid + '|Σ shares = request', 'accepted steps satisfy almost_eq(pwr_out_req, pwr_out)',
                  'guard compares %s with %s' % (show(h[2], an.names)[:100], show(h[3], an.names)[:100]), ctx.where(b, g.span))
        # pwr_out is the fold(+) of the share vector, and the per-unit solve consumes the same vector
        ok2 = po[0] == 'uf' and po[1] == 'iter.fold' and po[3] == ZERO
        vec_src = po[2][1] if ok2 and po[2][0] == 'seq' else None
        calls = [c for c in an.calls if c.targets and 'Locomotive::solve_energy_consumption' in c.targets and c.in_loop]
        same = False
        if len(calls) == 1 and vec_src is not None:
            a1 = calls[0].argvals[1]
            lvl = po[2][3] if len(po[2]) > 3 else 0
            K = ('sym', 'K')
            item = map_term(po[2][2], lambda x: K if x == ('bound', lvl) else x)
            a1k = map_term(a1, lambda x: K if x[0] == 'iterpos' else x)
            same = item == a1k
        ctx.check(ok2 and same, 'C10-1.conservation', b.fid + '|same vector', 'pwr_out is the sum of the share vector and each unit is solved with its element of that same vector',
                  'pwr_out = %s ; per-unit argument = %s' % (show(po, an.names)[:120], show(calls[0].argvals[1], an.names)[:120] if calls else None), ctx.where(b))
        # a request of exactly zero: every unit still gets a share (0) — the per-unit loop zips the units with the share vector and
        # stops at the shorter of the two, so a vector with fewer entries leaves units unsolved with their previous power
        item0 = po[2][2] if ok2 and po[2][0] == 'seq' else None
        zb = None
        if item0 is not None and item0[0] == 'gamma' and item0[1] == mk('gt', req.t, ZERO) and item0[3][0] == 'gamma' and item0[3][1] == mk('lt', req.t, ZERO):
            zb = item0[3][3]
        LV = (('obj', 1), ('f', 'loco_vec'))
        gt0, lt0 = mk('gt', req.t, ZERO), mk('lt', req.t, ZERO)
        zcalls = [c for c in an.calls if any(cnd == gt0 and o == '0' for cnd, o in c.pc) and any(cnd == lt0 and o == '0' for cnd, o in c.pc) and c.result is not None
                  and ('from_elem' in c.callee or '::collect' in c.callee)]
        def one_zero_per_unit(v):
            return v == ('uf', 'vec::from_elem', ZERO, ('len', ('pre', LV))) or \
                (v[0] == 'uf' and v[1] == 'iter.collect' and v[2][0] == 'seq' and tuple(v[2][1]) == (('slice', LV),) and v[2][2] == ZERO)
        okz = zb is not None and len(zcalls) == 1 and one_zero_per_unit(zcalls[0].result)
        if zb is not None:
            zb = ('elem', zcalls[0].result) if zcalls else ('elem', ('sym', 'no vector of zeros is built in the zero branch'))
        ctx.check(okz, 'C10-1.conservation', b.fid + '|zero request', 'for a request of exactly 0 the share vector is one 0 per locomotive',
                  'share vector of the zero branch: %s' % (show(zb[1] if zb is not None and zb[0] == 'elem' else zb, an.names)[:160] if zb is not None else
                                                           'request is not split three ways on its sign: %s' % (show(item0, an.names)[:160] if item0 is not None else None)), ctx.where(b))
        zips = [c for c in an.calls if '>::zip' in c.callee]
        def sl(t):
            return t[2] if t[0] == 'iter' and t[1] == 'slice' and len(t) > 2 else None
        okzip = len(zips) == 1 and len(zips[0].argvals) == 2 and sl(zips[0].argvals[0]) == (('obj', 1), ('f', 'loco_vec')) and vec_src is not None \
            and sl(zips[0].argvals[1]) is not None and [('slice', sl(zips[0].argvals[1]))] == [tuple(x) for x in vec_src]
        ctx.check(okzip, 'C10-1.conservation', b.fid + '|units zipped with shares',
                  'the per-unit loop pairs all of loco_vec with the share vector that was summed', 'zip arguments: %s (summed vector: %s)' % ([[show(a, an.names)[:80] for a in z.argvals] for z in zips], vec_src), ctx.where(b))
        # deficits
        Mr = sv.pre('pwr_out_max_reves'); Rm = sv.pre('pwr_regen_max')
        prove(ctx, 'C10-1.conservation', b.fid + '|pwr_out_deficit', an, 'eq', sv.post('pwr_out_deficit'), (req - Mr).max(0), assume=[], note='deficit = max(request − battery capability, 0)')
        prove(ctx, 'C10-1.conservation', b.fid + '|pwr_regen_deficit', an, 'eq', sv.post('pwr_regen_deficit'), ((-req) - Rm).max(0), assume=[],
              note='regen deficit = max(braking request − regen capability, 0)')
        # dispatch on the sign of the request
        pos = [c for c in an.calls if c.targets and any('solve_positive_traction' in t for t in c.targets)]
        neg = [c for c in an.calls if c.targets and any('solve_negative_traction' in t for t in c.targets)]
        okp = len(pos) == 1 and any(cnd == mk('gt', req.t, ZERO) and o != '0' for cnd, o in pos[0].pc)
        okn = len(neg) == 1 and any(cnd == mk('lt', req.t, ZERO) and o != '0' for cnd, o in neg[0].pc)
        ctx.check(okp and okn, 'C10-1.conservation', b.fid + '|policy by sign', 'positive policy only for request > 0, negative policy only for request < 0',
                  'positive calls %s, negative calls %s' % ([[(show(c_, an.names)[:40], o) for c_, o in x.pc] for x in pos], [[(show(c_, an.names)[:40], o) for c_, o in x.pc] for x in neg]), ctx.where(b))


def _mentions_path(t, p):
    for x in walk(t):
        if x[0] in ('pre', 'ref') and x[1][:len(p)] == p:
            return True
    return False


def coverage(ctx):
    prog = ctx.prog
    for fid, b in sorted(prog.by_id.items()):
        m = re.match(r'<(\w+) as SolvePower>::(solve_(positive|negative)_traction)$', fid)
        if not m or m.group(1) == 'PowerDistributionControlType':
            continue
        cfg = CFG(b)
        todo = [t for _, t in cfg.call_sites() if re.search(r'panicking::panic$|::panic$', t.callee.split('(')[0]) and any('not yet implemented' in (a[1] if a[0] == 'const' else '') for a in t.args)]
        if todo:
            ctx.info('C10-6.coverage', fid, 'policy arm is todo!() in the source: not covered (outside "both shipped policies")')
        else:
            ctx.info('C10-6.coverage', fid, 'policy arm is implemented')
    # the dispatcher forwards each variant to its own policy
    for meth in ('solve_positive_traction', 'solve_negative_traction'):
        b = prog.by_id.get('<PowerDistributionControlType as SolvePower>::' + meth)
        if b is None:
            ctx.unproved('C10-6.coverage', 'PowerDistributionControlType::' + meth, 'anchor not found'); continue
        td = prog.typedef('PowerDistributionControlType')
        cfg = CFG(b)
        tg = [x.fid for _, t in cfg.call_sites() for x in prog.resolve(t.callee)]
        missing = [v['name'] for v in td.variants if '<%s as SolvePower>::%s' % (v['name'], meth) not in tg]
        ctx.check(not missing, 'C10-6.coverage', '<PowerDistributionControlType as SolvePower>::' + meth, 'every policy variant is forwarded to its own implementation',
                  'variants not forwarded: %s' % missing, ctx.where(b))
