"""C14 — a set-speed run follows its trace; wheel power is inertia plus resistance (DESIGN §5 C14)."""
from sa.dsl import T, gamma, _t
from sa.terms import mk, ZERO, ONE, show, walk
from .common import (engine, StateView, prove, analysis_or_fail, pretty)

LEVEL = 'proof'
MANIFEST = {
    'category': 'proof',
    'engine': 'svn',
    'technique': 'symbolic value numbering of the whole set-speed step + term-identity / lattice prover + guard inventory',
    'text': ('At the Ok exit of SetSpeedTrainSim::solve_step: time and speed are the trace values; pwr_accel = (static + rotating '
             'mass)/(2·dt_i)·(v_i² − v_{i−1}²); pwr_res = (sum of the six resistance forces just computed)·½(v_i + v_{i−1}); the wheel '
             'power is that sum clipped below by −max(dynamic-brake capability, 0) and above by a bound that is itself <= the '
             'consist\'s published limit; energies accumulate wheel power times dt_i; every Ok path is guarded by speed >= 0 for '
             'each trace element the step reads. All for every trace, route and train at once.'),
    'note': 'Reals, not floats. Time stamps are assumed increasing (dt_i > 0). The resistance forces themselves are C07.',
}
EXPLANATION = 'Whole-step SVN terms of SetSpeedTrainSim::solve_step vs the reference formulas of the statement.'
RULES = ['C14-1.trace', 'C14-2.power', 'C14-3.clip', 'C14-4.accum', 'C14-5.reject', 'C14-6.trace']
ASSUMPTIONS = ['trace time stamps strictly increasing', 'identities over the reals']

FID = 'SetSpeedTrainSim::solve_step'


def run(ctx):
    trace_handling(ctx)
    from .common import step_protocol
    step_protocol(ctx, 'C14-2.power', FID, [
        ('set_pwr_aux', 'set_cur_pwr_max_out'), ('set_cur_pwr_max_out', 'solve_required_pwr'), ('update_res', 'solve_required_pwr'),
        ('solve_required_pwr', 'solve_energy_consumption')])
    b = ctx.anchor('C14', FID)
    if b is None:
        return
    an = analysis_or_fail(ctx, 'C14', b)
    if an is None:
        return
    sv = StateView(an, (('f', 'state'),))
    tr = lambda f, i: T(('pre', (('obj', 1), ('f', 'speed_trace'), ('f', f), ('idx', i))))
    i = ('pre', (('obj', 1), ('f', 'state'), ('f', 'i')))
    im1 = mk('sub', i, ONE)
    dt = tr('time', i) - tr('time', im1)
    vi, vp = tr('speed', i), tr('speed', im1)
    prove(ctx, 'C14-1.trace', FID + '|time', an, 'eq', sv.post('time'), tr('time', i), assume=[])
    prove(ctx, 'C14-1.trace', FID + '|speed', an, 'eq', sv.post('speed'), vi, assume=[])
    mass = sv.post('mass_static') + sv.post('mass_rot')
    prove(ctx, 'C14-2.power', FID + '|pwr_accel', an, 'eq', sv.post('pwr_accel'), mass / (2 * dt) * (vi ** 2 - vp ** 2), assume=[],
          note='rate of change of kinetic energy of the compound (static + rotating) mass')
    res = T(ZERO)
    for f in ('res_rolling', 'res_bearing', 'res_davis_b', 'res_aero', 'res_grade', 'res_curve'):
        res = res + sv.post(f)
    prove(ctx, 'C14-2.power', FID + '|pwr_res', an, 'eq', sv.post('pwr_res'), res * ((vi + vp) / 2), assume=[],
          note='total resistance (six forces of this step) times mean speed')
    con = StateView(an, (('f', 'loco_con'), ('f', 'state')))
    whl = sv.post('pwr_whl_out').t
    # shape: min(max(accel + res, -max(dyn, 0)), pos_max)
    unclipped = (sv.post('pwr_accel') + sv.post('pwr_res'))
    # the capability in force when the demand is clipped is the one published before this step's consist solve
    neg = -(con.pre('pwr_dyn_brake_max').max(0))
    ok_shape = whl[0] == 'min' and (whl[1][0] == 'max' or whl[2][0] == 'max')
    if not ok_shape:
        ctx.bad('C14-3.clip', FID + '|pwr_whl_out', 'wheel power is not of the form min(max(demand, lower), upper): %s' % show(whl, an.names)[:300], ctx.where(b))
    else:
        inner, upper = (whl[1], whl[2]) if whl[1][0] == 'max' else (whl[2], whl[1])
        prove(ctx, 'C14-3.clip', FID + '|pwr_whl_out', an, 'eq', T(whl), unclipped.max(neg).min(T(upper)), assume=[],
              note='wheel power = clip(pwr_accel + pwr_res, −max(dyn brake capability, 0), upper)')
        prove(ctx, 'C14-3.clip', FID + '|upper<=published limit', an, 'le', T(upper), con.post('pwr_out_max'), assume=[],
              note='the upper clip never exceeds the consist\'s published traction limit')
    for en, sign in (('energy_whl_out', None), ('energy_whl_out_pos', '+'), ('energy_whl_out_neg', '-')):
        p = sv.post('pwr_whl_out')
        ref = p * dt if sign is None else (gamma(p.ge(0), p * dt, 0) if sign == '+' else gamma(p.ge(0), 0, -(p * dt)))
        prove(ctx, 'C14-4.accum', '%s|%s' % (FID, en), an, 'eq', sv.post(en) - sv.pre(en), ref, assume=[], note='accumulates wheel power times the trace\'s own step')
    # rejection of negative speeds: a guard speed[k] >= 0 for every trace element the step reads
    read = set()
    for k in an.written_paths():
        for x in walk(an.exit_state.store.get(k)):
            if x[0] == 'pre' and len(x[1]) >= 4 and x[1][1:3] == (('f', 'speed_trace'), ('f', 'speed')) and x[1][3][0] == 'idx':
                read.add(x[1][3][1])
    guards = [g.holds_term() for g in an.guards if g.kind != 'assert' and not g.gate]
    ctx.analysed['trace_speed_indices_read'] = [show(r, an.names) for r in read]
    if not read:
        ctx.unproved('C14-5.reject', FID, 'no trace speed element found in the step terms', ctx.where(b))
    for r in sorted(read, key=lambda x: show(x)):
        want = mk('ge', tr('speed', r).t, ZERO)
        ok = any(g == want or (g[0] == 'le' and g[1] == ZERO and g[2] == want[1]) for g in guards)
        ctx.check(ok, 'C14-5.reject', '%s|speed[%s]>=0' % (FID, show(r, an.names).replace('self.', '').replace('arg1.', '')),
                  'every Ok path is guarded by this trace speed being >= 0',
                  'the step reads speed_trace.speed[%s] but no guard rejects a negative value there' % show(r, an.names), ctx.where(b))


def trace_handling(ctx):
    """C14-6.trace: the run covers the whole trace and the trace stays aligned with itself: `walk` steps exactly while the step
    counter is below the trace length; `SpeedTrace::trim` cuts time, speed and the engine flags with one and the same index
    range (so sample k of each still belongs together), and refuses an end beyond the trace; `trim_failed_steps` keeps exactly
    the samples before the step that failed."""
    R = 'C14-6.trace'
    prog = ctx.prog
    eng = engine(ctx)
    b = prog.by_id.get('SetSpeedTrainSim::walk')
    if b is None:
        ctx.unproved(R, 'SetSpeedTrainSim::walk', 'anchor not found')
    else:
        an = analysis_or_fail(ctx, R, b)
        if an is not None:
            st = [c for c in an.calls if c.targets and 'SetSpeedTrainSim::step' in c.targets]
            ok = len(st) == 1 and st[0].in_loop and len(st[0].pc) == 1 and st[0].pc[0][1] != '0'
            c0 = st[0].pc[0][0] if ok else None
            ok = ok and c0[0] == 'lt' and c0[1][0] == 'loopvar' and c0[1][2] == (('obj', 1), ('f', 'state'), ('f', 'i')) \
                and c0[2][0] == 'len' and c0[2][1][0] == 'pre' and c0[2][1][1][:2] == (('obj', 1), ('f', 'speed_trace')) and c0[2][1][1][-1][1] in ('time', 'speed')
            ctx.check(ok, R, 'SetSpeedTrainSim::walk|covers the trace', 'steps are made exactly while state.i < length of the trace',
                      'step is called under %s' % ([(show(c_, an.names)[:120], o) for c_, o in st[0].pc] if st else None), ctx.where(b))
    b = prog.by_id.get('SpeedTrace::trim')
    if b is None:
        ctx.unproved(R, 'SpeedTrace::trim', 'anchor not found')
    else:
        an = analysis_or_fail(ctx, R, b)
        if an is not None:
            rng = {}
            for k in ('time', 'speed', 'engine_on'):
                v = an.load((('obj', 1), ('f', k)), an.exit_state)
                if v[0] == 'maybe':
                    v = v[1]
                if v[0] == 'pre' and v[1][-1][0] == 'idx' and ('f', k) in v[1]:
                    rng[k] = v[1][-1][1]
            ok = len(rng) == 3 and len(set(map(repr, rng.values()))) == 1
            ctx.check(ok, R, 'SpeedTrace::trim|one range', 'time, speed and engine_on are cut with the same index range',
                      'ranges: %s' % {k: show(v, an.names)[:90] for k, v in rng.items()}, ctx.where(b))
            r0 = list(rng.values())[0] if rng else None
            end = None
            if r0 is not None and r0[0] == 'uf' and r0[1] == 'range' and r0[2][0] == 'agg':
                end = dict(r0[2][2]).get('end')
            okg = end is not None and any(g.holds_term() == mk('le', end, ('len', ('pre', (('obj', 1), ('f', 'time'))))) for g in an.guards)
            ctx.check(okg, R, 'SpeedTrace::trim|end within the trace', 'an end index beyond the trace is refused', 'no guard end <= len(time)', ctx.where(b))
    b = prog.by_id.get('SetSpeedTrainSim::trim_failed_steps')
    if b is None:
        ctx.unproved(R, 'SetSpeedTrainSim::trim_failed_steps', 'anchor not found')
    else:
        an = analysis_or_fail(ctx, R, b)
        if an is not None:
            tr_ = [c for c in an.calls if c.targets and 'SpeedTrace::trim' in c.targets]
            ok = len(tr_) == 1 and tr_[0].argvals[1] == ('none',) and tr_[0].argvals[2] == ('some', ('pre', (('obj', 1), ('f', 'state'), ('f', 'i'))))
            ctx.check(ok, R, 'SetSpeedTrainSim::trim_failed_steps', 'the trace is cut to the samples before the failed step: trim(None, Some(state.i))',
                      'trim arguments: %s' % [[show(a, an.names)[:60] for a in c.argvals] for c in tr_], ctx.where(b))
