"""C14 — a set-speed run follows its trace; wheel power is inertia plus resistance (DESIGN §5 C14)."""
from sa.dsl import T, gamma, _t
from sa.terms import mk, ZERO, ONE, show, walk
from .common import (engine, StateView, prove, analysis_or_fail, pretty)

LEVEL = 'proof'
MANIFEST = {
    'category': 'proof',
    'engine': 'svn',
    'technique': 'symbolic value numbering of the whole set-speed step + term-identity / lattice prover + guard inventory',
    'text': ('At the Ok exit of SetSpeedTrainSim::solve_step: time and speed are the trace values; pwr_accel = (static + rotating '
             'mass)/(2·dt_i)·(v_i² − v_{i−1}²); pwr_res = (sum of the six resistance forces just computed)·½(v_i + v_{i−1}); the wheel '
             'power is that sum clipped below by −max(dynamic-brake capability, 0) and above by a bound that is itself <= the '
             'consist\'s published limit; energies accumulate wheel power times dt_i; every Ok path is guarded by speed >= 0 for '
             'each trace element the step reads. All for every trace, route and train at once.'),
    'note': 'Reals, not floats. Time stamps are assumed increasing (dt_i > 0). The resistance forces themselves are C07.',
}
EXPLANATION = 'Whole-step SVN terms of SetSpeedTrainSim::solve_step vs the reference formulas of the statement.'
RULES = ['C14-1.trace', 'C14-2.power', 'C14-3.clip', 'C14-4.accum', 'C14-5.reject']
ASSUMPTIONS = ['trace time stamps strictly increasing', 'identities over the reals']

FID = 'SetSpeedTrainSim::solve_step'


def run(ctx):
    b = ctx.anchor('C14', FID)
    if b is None:
        return
    an = analysis_or_fail(ctx, 'C14', b)
    if an is None:
        return
    sv = StateView(an, (('f', 'state'),))
    tr = lambda f, i: T(('pre', (('obj', 1), ('f', 'speed_trace'), ('f', f), ('idx', i))))
    i = ('pre', (('obj', 1), ('f', 'state'), ('f', 'i')))
    im1 = mk('sub', i, ONE)
    dt = tr('time', i) - tr('time', im1)
    vi, vp = tr('speed', i), tr('speed', im1)
    prove(ctx, 'C14-1.trace', FID + '|time', an, 'eq', sv.post('time'), tr('time', i), assume=[])
    prove(ctx, 'C14-1.trace', FID + '|speed', an, 'eq', sv.post('speed'), vi, assume=[])
    mass = sv.post('mass_static') + sv.post('mass_rot')
    prove(ctx, 'C14-2.power', FID + '|pwr_accel', an, 'eq', sv.post('pwr_accel'), mass / (2 * dt) * (vi ** 2 - vp ** 2), assume=[],
          note='rate of change of kinetic energy of the compound (static + rotating) mass')
    res = T(ZERO)
    for f in ('res_rolling', 'res_bearing', 'res_davis_b', 'res_aero', 'res_grade', 'res_curve'):
        res = res + sv.post(f)
    prove(ctx, 'C14-2.power', FID + '|pwr_res', an, 'eq', sv.post('pwr_res'), res * ((vi + vp) / 2), assume=[],
          note='total resistance (six forces of this step) times mean speed')
    con = StateView(an, (('f', 'loco_con'), ('f', 'state')))
    whl = sv.post('pwr_whl_out').t
    # shape: min(max(accel + res, -max(dyn, 0)), pos_max)
    unclipped = (sv.post('pwr_accel') + sv.post('pwr_res'))
    # the capability in force when the demand is clipped is the one published before this step's consist solve
    neg = -(con.pre('pwr_dyn_brake_max').max(0))
    ok_shape = whl[0] == 'min' and (whl[1][0] == 'max' or whl[2][0] == 'max')
    if not ok_shape:
        ctx.bad('C14-3.clip', FID + '|pwr_whl_out', 'wheel power is not of the form min(max(demand, lower), upper): %s' % show(whl, an.names)[:300], ctx.where(b))
    else:
        inner, upper = (whl[1], whl[2]) if whl[1][0] == 'max' else (whl[2], whl[1])
        prove(ctx, 'C14-3.clip', FID + '|pwr_whl_out', an, 'eq', T(whl), unclipped.max(neg).min(T(upper)), assume=[],
              note='wheel power = clip(pwr_accel + pwr_res, −max(dyn brake capability, 0), upper)')
        prove(ctx, 'C14-3.clip', FID + '|upper<=published limit', an, 'le', T(upper), con.post('pwr_out_max'), assume=[],
              note='the upper clip never exceeds the consist\'s published traction limit')
    for en, sign in (('energy_whl_out', None), ('energy_whl_out_pos', '+'), ('energy_whl_out_neg', '-')):
        p = sv.post('pwr_whl_out')
        ref = p * dt if sign is None else (gamma(p.ge(0), p * dt, 0) if sign == '+' else gamma(p.ge(0), 0, -(p * dt)))
        prove(ctx, 'C14-4.accum', '%s|%s' % (FID, en), an, 'eq', sv.post(en) - sv.pre(en), ref, assume=[], note='accumulates wheel power times the trace\'s own step')
    # rejection of negative speeds: a guard speed[k] >= 0 for every trace element the step reads
    read = set()
    for k in an.written_paths():
        for x in walk(an.exit_state.store.get(k)):
            if x[0] == 'pre' and len(x[1]) >= 4 and x[1][1:3] == (('f', 'speed_trace'), ('f', 'speed')) and x[1][3][0] == 'idx':
                read.add(x[1][3][1])
    guards = [g.holds_term() for g in an.guards if g.kind != 'assert' and not g.gate]
    ctx.analysed['trace_speed_indices_read'] = [show(r, an.names) for r in read]
    if not read:
        ctx.unproved('C14-5.reject', FID, 'no trace speed element found in the step terms', ctx.where(b))
    for r in sorted(read, key=lambda x: show(x)):
        want = mk('ge', tr('speed', r).t, ZERO)
        ok = any(g == want or (g[0] == 'le' and g[1] == ZERO and g[2] == want[1]) for g in guards)
        ctx.check(ok, 'C14-5.reject', '%s|speed[%s]>=0' % (FID, show(r, an.names).replace('self.', '').replace('arg1.', '')),
                  'every Ok path is guarded by this trace speed being >= 0',
                  'the step reads speed_trace.speed[%s] but no guard rejects a negative value there' % show(r, an.names), ctx.where(b))
