"""Shared machinery of C02 / C13: the mutation sites of InsertSpeed::insert_speed and their local obligations.

The profile is a sorted vector of (offset, speed) points denoting a step function f.  insert_speed(s) must turn f into
f' = min(f, s.speed) on [s.offset_start, s.offset_end) and leave it alone elsewhere.  Every statement that changes the
vector (push, insert, remove, element store) changes f on one interval; for each such site the value that ends up
denoted there is compared with the value the specification requires, using the site's own path condition as facts:

  inside the restriction   :  NV  vs  min_speed(OV, s.speed)          (OV = value denoted there before the statement)
  just after its end       :  NV  vs  the value the profile had there on entry (the restore point)
  a removed / merged point :  the left neighbour's speed  vs  the value the interval must keep

C02 asks for "not above" (<=), C13 for "not below" (>=) and for the decisions that suppress a restore / merge to be
taken on the right operands.  The index searches (idx_start / idx_end loops) and sortedness are NOT decided."""
import re
from fractions import Fraction
from sa.dsl import T, _t
from sa.terms import mk, ZERO, ONE, TRUE, FALSE, show, walk, map_term, num
from sa.prove import Prover
from .common import engine, inventory, plain_iteration, selected_iteration

SELF = (('obj', 1),)


def find_insert_speed(ctx):
    for fid in sorted(ctx.prog.by_id):
        if fid.endswith('::insert_speed') and not ctx.prog.by_id[fid].test:
            return ctx.prog.by_id[fid]
    return None


# ------------------------------------------------------------------------------------------------ vector theory
def vec_norm(an, t):
    """rewrite element reads through push / insert / remove / element updates into γ-terms over the older vector"""
    def elem(v, j):
        op = v[0]
        j = simp_idx(j)
        if op == 'pre':
            return ('pre', v[1] + (('idx', j),))
        if op == 'vinsert':
            k, e = v[2], v[3]
            return mk('gamma', mk('lt', j, k), elem(v[1], j), mk('gamma', mk('eq', j, k), e, elem(v[1], mk('sub', j, ONE))))
        if op == 'vremove':
            k = v[2]
            return mk('gamma', mk('lt', j, k), elem(v[1], j), elem(v[1], mk('add', j, ONE)))
        if op == 'push':
            n_ = simp_idx(length(v[1]))
            if j == n_:
                return v[2]
            return mk('gamma', mk('eq', j, n_), v[2], elem(v[1], j))
        if op == 'upd':
            sub = v[2]
            if sub and sub[0][0] == 'idx':
                k = sub[0][1]
                base = elem(v[1], j)
                hit = base
                for c in sub[1:]:
                    pass
                if len(sub) == 2 and sub[1][0] == 'f':
                    new = ('updf', base, sub[1][1], v[3])
                elif len(sub) == 1:
                    new = v[3]
                else:
                    return ('elem', v, j)
                if k == j:
                    return new
                return mk('gamma', mk('eq', j, k), new, base)
        if op == 'gamma':
            return mk('gamma', v[1], elem(v[2], j), elem(v[3], j))
        return ('elem', v, j)

    def length(v):
        op = v[0]
        if op == 'vinsert' or op == 'push':
            return mk('add', length(v[1]), ONE)
        if op == 'vremove':
            return mk('sub', length(v[1]), ONE)
        if op == 'upd':
            return length(v[1])
        if op == 'gamma':
            return mk('gamma', v[1], length(v[2]), length(v[3]))
        return ('len', v)

    def proj(v, c):
        op = v[0]
        if op == 'gamma':
            return mk('gamma', v[1], proj(v[2], c), proj(v[3], c))
        if op == 'agg' and c[0] == 'f':
            for fk, fv in v[2]:
                if fk == c[1]:
                    return fv
        if op == 'pre':
            return ('pre', v[1] + (c,))
        if op == 'updf' and c[0] == 'f':
            return v[3] if v[2] == c[1] else proj(v[1], c)
        return ('proj', v, c)

    def f(x):
        if x[0] == 'elem':
            return elem(x[1], x[2])
        if x[0] == 'len':
            return length(x[1])
        if x[0] == 'proj':
            return proj(x[1], x[2])
        if x[0] == 'pre':
            # canonical index arithmetic inside paths:  (k + 1) - 1  ->  k
            return ('pre', tuple(('idx', simp_idx(c[1])) if c[0] == 'idx' else c for c in x[1]))
        return x
    for _ in range(6):
        t2 = map_term(t, f)
        if t2 == t:
            break
        t = t2
    return t


def _upd_inner(an, base, sub, val):
    if not sub:
        return val
    return ('upd', base, sub, val) if base[0] != 'pre' else ('updf', base, sub, val)


def simp_idx(t):
    """canonical form of index arithmetic: base + constant (so that (len - 1) - 1 and len - 2 are the same index)"""
    c = 0
    base = t
    while True:
        if base[0] == 'add' and len(base) == 3 and base[2][0] == 'num' and base[2][1].denominator == 1:
            c += int(base[2][1]); base = base[1]
        elif base[0] == 'add' and len(base) == 3 and base[1][0] == 'num' and base[1][1].denominator == 1:
            c += int(base[1][1]); base = base[2]
        elif base[0] == 'sub' and len(base) == 3 and base[2][0] == 'num' and base[2][1].denominator == 1:
            c -= int(base[2][1]); base = base[1]
        else:
            break
    if c == 0:
        return base
    return mk('add', base, num(c)) if c > 0 else mk('sub', base, num(-c))


# ------------------------------------------------------------------------------------------------ sites
class Site:
    def __init__(self, kind, block, span, pc, **kw):
        self.kind = kind; self.block = block; self.span = span; self.pc = pc
        self.__dict__.update(kw)


def analysis(ctx):
    b = find_insert_speed(ctx)
    if b is None:
        return None, None
    eng = engine(ctx)
    eng.all_paths.add(b.fid)        # the function returns (): every path is an accepted path, debug assertions included
    an = eng.analysis(b)
    return b, an


def pc_at(an, cfg, block):
    """path condition of a store: taken from a call record in the same block, else from the nearest dominating call"""
    best = None
    for c in an.calls:
        if c.block == block:
            return c.pc
    for c in an.calls:
        if cfg.dominates(c.block, block):
            if best is None or cfg.dominates(best.block, c.block):
                best = c
    return best.pc if best is not None else None


def sites(ctx, b, an):
    """every statement of insert_speed that changes the vector"""
    inv = inventory(ctx)
    cfg = inv.cfg(b)
    out = []
    before = {}       # block -> vector value before the mutating call (from the store it performs)
    for bb, path, val, span in an.stores_log:
        if path == SELF and val[0] in ('push', 'vinsert', 'vremove'):
            before[bb] = val
    for c in an.calls:
        last = re.sub(r'::<.*?>', '', c.callee).split('::')[-1]
        if last not in ('push', 'insert', 'remove') or not c.argvals or c.argvals[0] != ('ref', SELF, 'mut'):
            continue
        v = before.get(c.block)
        if v is None:
            continue
        if last == 'push':
            out.append(Site('push', c.block, c.span, c.pc, cur=v[1], point=c.argvals[1], in_loop=c.in_loop))
        elif last == 'insert':
            out.append(Site('insert', c.block, c.span, c.pc, cur=v[1], k=c.argvals[1], point=c.argvals[2], in_loop=c.in_loop))
        else:
            out.append(Site('remove', c.block, c.span, c.pc, cur=v[1], k=c.argvals[1], in_loop=c.in_loop))
    for bb, path, val, span in an.stores_log:
        if len(path) == 3 and path[0] == ('obj', 1) and path[1][0] == 'idx' and path[2][0] == 'f':
            # the vector value just before this element store: the whole-vector store logged for the same statement is upd(cur, ..)
            cur = None
            for bb2, p2, v2, s2 in an.stores_log:
                if bb2 == bb and p2 == SELF and v2[0] == 'upd' and v2[2] == path[1:]:
                    cur = v2[1]
            pc = pc_at(an, cfg, bb)
            out.append(Site('store_' + path[2][1], bb, span, pc, cur=cur if cur is not None else ('pre', SELF), k=path[1][1], val=val, in_loop=cfg.in_loop(bb)))
    return out


def fields(point):
    return dict(point[2]) if point[0] == 'agg' else {}


def facts_of(an, pc):
    """boolean facts of a path condition (decisions on comparisons only)"""
    out = []
    for c, o in pc or ():
        if c[0] == 'pathset':
            continue
        if c[0] in ('lt', 'le', 'gt', 'ge', 'eq', 'ne', 'and', 'or', 'not', 'gamma'):
            cc = vec_norm(an, c)
            out.append(cc if o != '0' else mk('not', cc))
    return out


def min_speed_term(ctx, a, b):
    """min_speed(a, b) as the engine sees it: the analysed return term of the repository's min_speed, instantiated"""
    mb = None
    for fid in ctx.prog.by_id:
        if fid.endswith('::min_speed') or fid == 'min_speed':
            mb = ctx.prog.by_id[fid]
    if mb is None:
        return None
    man = engine(ctx).analysis(mb)
    if man.exit_state is None:
        return None
    pa = ('pre', (('val', mb.params[0][0]),)); pb = ('pre', (('val', mb.params[1][0]),))
    return map_term(man.ret(), lambda x: a if x == pa else (b if x == pb else x))


def assume_nonneg(t):
    """direction proofs are made for non-negative speeds: is_sign_positive(x) := true"""
    def f(x):
        if x[0] == 'uf' and x[1].endswith('is_sign_positive'):
            return TRUE
        return x
    for _ in range(3):
        t2 = map_term(t, f)
        if t2 == t:
            break
        t = t2
    return t


def elem_speed(an, vec, k):
    return vec_norm(an, ('proj', ('elem', vec, k), ('f', 'speed_limit')))


def elem_offset(an, vec, k):
    return vec_norm(an, ('proj', ('elem', vec, k), ('f', 'offset')))


def relation(ctx, an, kind, a, b, facts):
    """prove a REL b with REL in eq | le | ge under nonneg speeds; returns (verdict, detail)"""
    a = assume_nonneg(vec_norm(an, a)); b = assume_nonneg(vec_norm(an, b))
    fs = [assume_nonneg(x) for x in facts]
    pv = Prover(an.names, assume=[])
    if kind == 'eq':
        return pv.eq(a, b, fs)
    if kind == 'le':
        return pv.le(a, b, fs)
    return pv.le(b, a, fs)


def end_index(an, b, S):
    """the term of idx_end when its search loop exits: J in the decision `self[J].offset > s.offset_end` = false"""
    for s_ in S:
        for c, o in s_.pc or ():
            if c[0] == 'gt' and o == '0' and c[2] == ('pre', (('obj', 2), ('f', 'offset_end'))) and c[1][0] == 'pre' and c[1][1][0] == ('obj', 1) \
                    and c[1][1][-1] == ('f', 'offset') and c[1][1][1][0] == 'idx' and c[1][1][1][1][0] == 'loopvar':
                return c[1][1][1][1]
    return None


SL = lambda f: ('pre', (('obj', 2), ('f', f)))


# ------------------------------------------------------------------------------------------------ the site rules
def site_rules(ctx, prop, direction):
    """direction 'le' (C02: not above) or 'ge' (C13: not below)"""
    R = '%s-%s.sites' % (prop, '5' if prop == 'C02' else '1')
    b, an = analysis(ctx)
    if b is None or an is None or an.exit_state is None:
        ctx.unproved(R, 'insert_speed', 'InsertSpeed::insert_speed not found / not analysable'); return
    S = sites(ctx, b, an)
    ctx.floor('mutation sites of insert_speed', len(S), 10)
    J = end_index(an, b, S)
    s_speed = SL('speed')
    word = 'not above' if direction == 'le' else 'not below'
    seen = {}
    for s in S:
        facts = facts_of(an, s.pc)
        w = ctx.where(b, s.span)
        cur = s.cur
        in_branch1 = any(c == mk('le', elem_offset_raw(('pre', SELF), mk('sub', ('len', ('pre', SELF)), ONE)), SL('offset_start')) and o != '0' for c, o in s.pc or ())
        key = None
        if s.kind in ('push', 'insert'):
            f = fields(s.point)
            o, x = f.get('offset'), f.get('speed_limit')
            if o == SL('offset_start'):
                k_prev = mk('sub', ('len', cur), ONE) if s.kind == 'push' else mk('sub', s.k, ONE)
                OV = elem_speed(an, cur, k_prev)
                want = min_speed_term(ctx, OV, s_speed)
                key = '%s at offset_start' % s.kind
                oblige(ctx, R, an, seen, key, direction, x, want, facts, w, 'new point at the start of the restriction carries a value %s min_speed(value in force there, restriction)' % word)
            elif o == SL('offset_end'):
                R2 = '%s-2.restore' % prop if prop == 'C13' else R
                if s.kind == 'push':
                    pre_last = ('pre', SELF + (('idx', mk('sub', ('len', ('pre', SELF)), ONE)), ('f', 'speed_limit')))
                    want = pre_last
                else:
                    if J is None:
                        ctx.unproved(R2, 'insert at offset_end', 'the exit value of the idx_end search was not found in the path condition', w); continue
                    want = ('pre', SELF + (('idx', J), ('f', 'speed_limit')))
                key = '%s at offset_end' % s.kind
                oblige(ctx, R2, an, seen, key, direction, x, want, facts, w, 'restore point after the restriction carries a value %s the value the profile had there on entry' % word)
                if prop == 'C13' and s.kind == 'insert':
                    # the decision that can suppress the restore point must be taken on that same pre-restriction value
                    X = None
                    for c, o_ in reversed(s.pc or ()):
                        if c[0] == 'ne' and o_ != '0':
                            X = c[1]; break
                    if X is None:
                        ctx.unproved(R2, 'insert at offset_end|decision', 'no `old != min_speed(old, restriction)` decision guards the restore point', w)
                    else:
                        oblige(ctx, R2, an, seen, 'insert at offset_end|decision operand', 'eq', X, want, [x_ for x_ in facts if not _mentions(x_, X)], w,
                               'whether a restore point is needed is decided on the value the profile had at offset_end before this restriction was applied (otherwise a restriction lying inside one profile interval stays in force up to the next profile point)')
            else:
                ctx.unproved(R, '%s at %s' % (s.kind, show(o, an.names)[:60]), 'a point is added at an offset that is neither end of the restriction', w)
        elif s.kind == 'remove':
            NV = elem_speed(an, cur, mk('sub', s.k, ONE))
            OV = elem_speed(an, cur, s.k)
            inside = s.in_loop
            want = min_speed_term(ctx, OV, s_speed) if inside else OV
            key = 'remove %s' % ('inside the restriction' if inside else 'after the update loop')
            R3 = '%s-3.merge' % prop if prop == 'C13' else R
            oblige(ctx, R3, an, seen, key, direction, NV, want, facts, w,
                   'a point is removed only if its left neighbour\'s speed, which then covers its interval, is %s %s' % (word, 'min_speed(its speed, restriction)' if inside else 'its own speed'))
        elif s.kind == 'store_speed_limit':
            OV = elem_speed(an, cur, s.k)
            want = min_speed_term(ctx, OV, s_speed)
            key = 'speed of point %s' % _idx_name(an, s.k)
            oblige(ctx, R, an, seen, key, direction, s.val, want, facts, w, 'the overwritten speed is %s min_speed(old speed, restriction)' % word)
        elif s.kind == 'store_offset':
            # the last point is moved from offset_start to offset_end: its left neighbour's speed now covers [start, end)
            NV = elem_speed(an, cur, mk('sub', s.k, ONE))
            OV = elem_speed(an, cur, s.k)
            want = min_speed_term(ctx, OV, s_speed)
            key = 'offset of point %s' % _idx_name(an, s.k)
            ok = s.val == SL('offset_end') and s.k == mk('sub', ('len', ('pre', SELF)), ONE)
            ctx.check(ok, R, key + '|target', 'only the last point is moved, to the end of the restriction', 'moves point %s to %s' % (show(s.k, an.names)[:60], show(s.val, an.names)[:60]), w)
            oblige(ctx, R, an, seen, key, direction, NV, want, facts, w, 'the left neighbour\'s speed, which then covers the restriction, is %s min_speed(old speed, restriction)' % word)
        else:
            ctx.unproved(R, s.kind, 'unclassified store into the profile vector: %s' % s.kind, w)


def searches(ctx, prop):
    """the two index searches of insert_speed's overlap branch: idx_start runs upwards from 0 while the restriction starts
    after the point, idx_end downwards from the last point while the point lies after the restriction's end; each has that
    single way out and a unit step.  Given a sorted profile: idx_start = first point at or after offset_start, idx_end = last
    point at or before offset_end — the positions every site obligation assumes."""
    R = '%s-%s.search' % (prop, '6' if prop == 'C02' else '5')
    b, an = analysis(ctx)
    if b is None or an is None or an.exit_state is None:
        ctx.unproved(R, 'insert_speed', 'InsertSpeed::insert_speed not found / not analysable'); return
    S = sites(ctx, b, an)
    st, en = SL('offset_start'), SL('offset_end')
    ins = [s_ for s_ in S if s_.kind == 'insert']
    if not ins:
        ctx.unproved(R, 'insert_speed', 'no insert site in the overlap branch'); return
    pc = ins[0].pc
    w = ctx.where(b)
    found = {}
    for c, o in pc:
        if c[0] == 'gt' and o == '0':
            for name, a_, b_ in (('idx_start', c[1] == st, c[2]), ('idx_end', c[2] == en, c[1])):
                if a_ and b_[0] == 'pre' and b_[1][0] == ('obj', 1) and b_[1][-1] == ('f', 'offset') and b_[1][1][0] == 'idx' and b_[1][1][1][0] == 'loopvar':
                    found[name] = b_[1][1][1]
    for name, ent_want, step in (('idx_start', ZERO, 'add'), ('idx_end', mk('sub', ('len', ('pre', SELF)), ONE), 'sub')):
        Lv = found.get(name)
        if Lv is None:
            ctx.bad(R, name + '|exit', 'the %s search does not stop on the plain test against the restriction\'s %s (another way out, or a different test)' % (name, 'start' if name == 'idx_start' else 'end'), w); continue
        others = [show(c, an.names)[:80] for c, o in pc if c[0] == 'pathset' and any(y == Lv for alt in c[2] for cc, _ in alt for y in walk(cc))]
        ctx.check(not others, R, name + '|exit', 'the %s search has a single way out: %s' % (name, 'the point is not before offset_start' if name == 'idx_start' else 'the point is not after offset_end'),
                  'other ways out: %s' % others, w)
        H, key = Lv[1], Lv[2]
        ent = an.load(key, an.loop_entry[H]) if H in an.loop_entry else None
        backs = [an.load(key, s_) for s_ in an.loop_back.get(H, [])]
        ctx.check(ent == ent_want and bool(backs) and all(x == mk(step, Lv, ONE) for x in backs), R, name + '|step',
                  'the %s search starts at %s and moves by one point per iteration' % (name, 'the first point' if name == 'idx_start' else 'the last point'),
                  'starts at %s, steps %s' % (show(ent, an.names)[:60] if ent else None, [show(x, an.names)[:60] for x in backs]), w)


def empty_restriction_rule(ctx):
    """C13-4.empty: a restriction of zero length (offset_start == offset_end, admitted by validation) covers no position,
    so it must not change the profile: every mutation site is either unreachable for it or leaves the value in force
    on its interval unchanged"""
    R = 'C13-4.empty'
    b, an = analysis(ctx)
    if b is None or an is None or an.exit_state is None:
        ctx.unproved(R, 'insert_speed', 'InsertSpeed::insert_speed not found / not analysable'); return
    S = sites(ctx, b, an)
    st, en = SL('offset_start'), SL('offset_end')
    excl = {(mk('ne', st, en), True), (mk('eq', st, en), False), (mk('lt', st, en), True), (mk('gt', en, st), True),
            (mk('ne', en, st), True), (mk('eq', en, st), False)}
    seen = {}
    for s in S:
        w = ctx.where(b, s.span)
        key = '%s @%s' % (s.kind, _site_name(an, s))
        n = seen.get(key, 0); seen[key] = n + 1
        if n:
            key = '%s #%d' % (key, n + 1)
        if any((c, o != '0') in excl for c, o in s.pc or ()):
            ctx.ok(R, key, 'not reached by a zero-length restriction (guarded by offset_start != offset_end)', w); continue
        facts = facts_of(an, s.pc) + [mk('eq', st, en)]
        cur = s.cur
        if s.kind in ('push', 'insert'):
            f = fields(s.point)
            k_prev = mk('sub', ('len', cur), ONE) if s.kind == 'push' else mk('sub', s.k, ONE)
            NV, OV = f.get('speed_limit'), elem_speed(an, cur, k_prev)
        elif s.kind == 'remove':
            NV, OV = elem_speed(an, cur, mk('sub', s.k, ONE)), elem_speed(an, cur, s.k)
        elif s.kind == 'store_speed_limit':
            NV, OV = s.val, elem_speed(an, cur, s.k)
        else:
            NV, OV = elem_speed(an, cur, mk('sub', s.k, ONE)), elem_speed(an, cur, s.k)
        v, d = relation(ctx, an, 'eq', NV, OV, facts)
        note = 'a zero-length restriction reaches this statement: the value it leaves in force must be the value that was in force'
        if v == 'PROVED':
            ctx.ok(R, key, note + ' :: ' + d[:120], w)
        else:
            (ctx.bad if v == 'DISPROVED' else ctx.unproved)(R, key, '%s :: %s ≡ %s :: %s' % (note, show(assume_nonneg(vec_norm(an, NV)), an.names)[:160],
                                                                                      show(assume_nonneg(vec_norm(an, OV)), an.names)[:120], d[:200]), w)


def _site_name(an, s):
    if s.kind in ('push', 'insert'):
        o = fields(s.point).get('offset')
        return 'offset_start' if o == SL('offset_start') else ('offset_end' if o == SL('offset_end') else '?')
    return _idx_name(an, s.k)


def elem_offset_raw(vec, k):
    return ('pre', vec[1] + (('idx', k), ('f', 'offset')))


def _mentions(t, x):
    return any(y == x for y in walk(t))


def _idx_name(an, k):
    s = show(k, an.names)
    s = re.sub(r'L\[bb\d+:_(\d+)\]', lambda m: an.names.get(int(m.group(1)), '_' + m.group(1)), s)
    s = s.replace('arg1', 'self')
    return s[:40]


def carried_facts(an, terms):
    """facts about loop-carried locals occurring in `terms`, by induction over the loop: when every back-edge value of L is
    min(.., L, ..) the value never rises above its entry value (L <= entry); dually for max"""
    out = []
    seen_l = set()
    for t in terms:
        for x in walk(t):
            if x[0] != 'loopvar' or x in seen_l or x[2][0][0] != 'local':
                continue
            seen_l.add(x)
            H, key = x[1], x[2]
            if H not in an.loop_entry or not an.loop_back.get(H):
                continue
            ent = assume_nonneg(vec_norm(an, an.load(key, an.loop_entry[H])))
            backs = [assume_nonneg(vec_norm(an, an.load(key, s_))) for s_ in an.loop_back[H]]

            def has(t_, op):
                if t_ == x:
                    return True
                if t_[0] == op:
                    return any(has(c, op) for c in t_[1:])
                if t_[0] == 'gamma':           # a conditional update: both arms must keep the bound
                    return has(t_[2], op) and has(t_[3], op)
                return False
            if any(y[0] == 'loopvar' for y in walk(ent)):
                continue
            if all(has(b_, 'min') for b_ in backs):
                out.append(mk('le', x, ent))
            elif all(has(b_, 'max') for b_ in backs):
                out.append(mk('ge', x, ent))
    return out


def oblige(ctx, R, an, seen, key, kind, got, want, facts, where, note):
    facts = list(facts) + carried_facts(an, ([got, want] if want is not None else [got]) + list(facts))
    n = seen.get((R, key), 0)
    seen[(R, key)] = n + 1
    if n:
        key = '%s #%d' % (key, n + 1)
    if want is None:
        ctx.unproved(R, key, 'min_speed not found', where); return
    sym = {'eq': '≡', 'le': '≤', 'ge': '≥'}[kind]
    got = assume_nonneg(got); want = assume_nonneg(want); facts = [assume_nonneg(x) for x in facts]
    for label, g2, w2, f2 in cases(an, got, want, facts):
        v, d = relation(ctx, an, kind, g2, w2, f2)
        g_ = show(assume_nonneg(vec_norm(an, g2)), an.names); w_ = show(assume_nonneg(vec_norm(an, w2)), an.names)
        detail = '%s%s :: %s %s %s :: %s' % (note, (' [' + label + ']') if label else '', g_[:260], sym, w_[:200], d[:300])
        k2 = key + (('|' + label) if label else '')
        if v == 'PROVED':
            ctx.ok(R, k2, detail, where)
        elif v == 'DISPROVED':
            ctx.bad(R, k2, detail, where)
        else:
            ctx.unproved(R, k2, detail, where)


def cases(an, got, want, facts, max_conds=3):
    """explicit case split on the (at most max_conds) outermost γ-conditions of `got`: [(label, got', want', facts')]"""
    conds = []

    def outer(t, depth=0):
        if t[0] == 'gamma' and depth < 4:
            if t[1] not in conds and len(conds) < max_conds:
                conds.append(t[1])
            outer(t[2], depth + 1); outer(t[3], depth + 1)
        elif t[0] in ('proj', 'elem') and depth < 4:
            for c in t[1:]:
                if isinstance(c, tuple) and c and isinstance(c[0], str):
                    outer(c, depth + 1)
    outer(got)
    if not conds:
        return [('', got, want, facts)]
    out = []
    import itertools
    for vals in itertools.product((True, False), repeat=len(conds)):
        def f(x, vals=vals):
            for c, v in zip(conds, vals):
                if x == c:
                    return TRUE if v else FALSE
            return x
        def sub(t):
            for _ in range(3):
                t2 = map_term(t, f)
                if t2 == t:
                    break
                t = t2
            return t
        g2, w2 = sub(got), sub(want)
        f2 = [sub(x) for x in facts]
        if any(x == FALSE for x in f2):
            continue                       # contradicts the site's own path condition
        f2 = [x for x in f2 if x != TRUE] + [c if v else mk('not', c) for c, v in zip(conds, vals)]
        label = ', '.join(('' if v else 'not ') + _short(an, c) for c, v in zip(conds, vals))
        out.append((label, g2, w2, f2))
    return out


def _short(an, c):
    s_ = show(c, an.names)
    s_ = re.sub(r'L\[bb\d+:_(\d+)\]', lambda m: an.names.get(int(m.group(1)), '_' + m.group(1)), s_)
    s_ = re.sub(r'γ\(\(is_sign_positive.*', 'min_speed(..))', s_)
    return s_[:70]


def _fn(ctx, suffix):
    for fid in sorted(ctx.prog.by_id):
        if (fid == suffix or fid.endswith('::' + suffix)) and not ctx.prog.by_id[fid].test:
            return ctx.prog.by_id[fid]
    return None


def min_speed_spec(ctx):
    """min_speed(a, b) = min(a, b) when both are non-negative, else −min(|a|, |b|) (the sign marks, the magnitude limits)"""
    R = 'C02-1.min_speed'
    b = _fn(ctx, 'min_speed')
    if b is None:
        ctx.unproved(R, 'min_speed', 'anchor not found'); return
    an = engine(ctx).analysis(b)
    if an.exit_state is None:
        ctx.unproved(R, 'min_speed', 'not analysable', ctx.where(b)); return
    a = ('pre', (('val', b.params[0][0]),)); c = ('pre', (('val', b.params[1][0]),))
    isp = lambda x: ('uf', 'is_sign_positive', x)
    r = an.ret()
    # normalise the callee name of is_sign_positive
    r = map_term(r, lambda x: ('uf', 'is_sign_positive') + x[2:] if x[0] == 'uf' and x[1].endswith('is_sign_positive') else x)
    want = mk('gamma', mk('and', isp(a), isp(c)), mk('min', a, c), mk('neg', mk('min', mk('abs', a), mk('abs', c))))
    ctx.check(r == want, R, 'min_speed', 'min_speed(a, b) = min(a, b) for non-negative speeds, −min(|a|, |b|) otherwise',
              'min_speed returns %s' % show(r, an.names)[:240], ctx.where(b))
    # every profile value combined with a restriction inside insert_speed goes through it: number of call sites
    ib, ian = analysis(ctx)
    if ian is not None:
        n = sum(1 for c_ in ian.calls if c_.targets and any(t.endswith('min_speed') for t in c_.targets))
        ctx.floor('min_speed call sites in insert_speed', n, 4)


def seed(ctx, prop='C02'):
    """every profile starts as a single point carrying the train's maximum speed"""
    R = 'C02-2.seed' if prop == 'C02' else 'C13-7.seed'
    b = ctx.anchor(R, 'PathTpc::new')
    if b is not None:
        an = engine(ctx).analysis(b)
        r = an.ret() if an.exit_state is not None else None
        sp = dict(r[2]).get('speed_points') if r is not None and r[0] == 'agg' else None
        tp = ('pre', (('val', b.params[0][0]), ('f', 'speed_max')))
        ok = sp is not None and sp[0] == 'array' and len(sp) == 2 and fields(sp[1]).get('speed_limit') == tp and fields(sp[1]).get('offset') == ZERO
        ctx.check(ok, R, 'PathTpc::new', 'a new path\'s profile is the single point (0, train_params.speed_max)', 'speed_points = %s' % (show(sp, an.names)[:200] if sp else None), ctx.where(b))
        tpf = dict(r[2]).get('train_params') if r is not None and r[0] == 'agg' else None
        ctx.check(tpf == ('pre', (('val', b.params[0][0]),)), R, 'PathTpc::new|train_params', 'the path keeps the train parameters it was seeded from', 'train_params = %s' % (show(tpf)[:80] if tpf else None), ctx.where(b))
    b = ctx.anchor(R, 'PathTpc::recalc_speeds')
    if b is not None:
        an = engine(ctx).analysis(b)
        ps = [c for c in an.calls if re.sub(r'::<.*?>', '', c.callee).endswith('::push') and c.argvals and c.argvals[0] == ('ref', (('obj', 1), ('f', 'speed_points')), 'mut') and not c.in_loop]
        clears = [c for c in an.calls if re.sub(r'::<.*?>', '', c.callee).endswith('::clear') and c.argvals and c.argvals[0] == ('ref', (('obj', 1), ('f', 'speed_points')), 'mut')]
        ok = len(ps) == 1 and not ps[0].pc and fields(ps[0].argvals[1]).get('speed_limit') == ('pre', (('obj', 1), ('f', 'train_params'), ('f', 'speed_max'))) and len(clears) == 1
        ctx.check(ok, R, 'PathTpc::recalc_speeds', 'recalculation clears the profile and re-seeds it with train_params.speed_max before re-adding the links\' restrictions',
                  'pushes %s, clears %d' % ([show(c.argvals[1], an.names)[:120] for c in ps], len(clears)), ctx.where(b))


def add_speeds(ctx, prop='C02', direction='le'):
    """what add_speeds hands to insert_speed.  Equalities are tried first; where one fails, only the direction the property cares
    about decides: C02 ('le') needs the inserted restriction to cover at least the posted extent at no more than the posted speed
    and to be skipped for no other reason; C13 ('ge') needs it to cover at most that extent at no less than that speed and to be
    applied only when the set's parameter conditions hold"""
    R = '%s-%s.add_speeds' % (prop, '3' if prop == 'C02' else '6')
    b = ctx.anchor(R, 'PathTpc::add_speeds')
    if b is None:
        return
    an = engine(ctx).analysis(b)
    if an.exit_state is None:
        ctx.unproved(R, 'PathTpc::add_speeds', 'not analysable', ctx.where(b)); return
    names = {nm: n for n, nm in an.names.items()}
    try:
        tp = an.arg('train_params')[1]; ss = an.arg('speed_set')[1]; ob = an.arg('offset_base')
    except KeyError:
        ctx.unproved(R, 'PathTpc::add_speeds', 'parameters not found', ctx.where(b)); return
    cs = [c for c in an.calls if c.callee.endswith('insert_speed') or (c.targets and any(t.endswith('insert_speed') for t in c.targets))]
    if len(cs) != 1 or cs[0].pointees[1] is None:
        ctx.unproved(R, 'PathTpc::add_speeds', 'expected exactly one insert_speed call with an aggregate argument, found %d' % len(cs), ctx.where(b)); return
    c = cs[0]
    w = ctx.where(b, c.span)
    f = fields(c.pointees[1])
    ctx.check(c.argvals[0] == ('ref', (('obj', 1),), 'mut'), R, 'target', 'restrictions are inserted into the profile that was passed in', 'target %s' % show(c.argvals[0], an.names)[:80], w)
    # the element of speed_set.speed_limits of this iteration
    el = None
    for x in walk(f.get('speed', ('unit',))):
        if x[0] == 'pre' and x[1][:len(ss)] == ss and len(x[1]) > len(ss) + 1 and x[1][len(ss)] == ('f', 'speed_limits') and x[1][len(ss) + 1][0] == 'idx':
            el = x[1][:len(ss) + 2]
    if el is None or el[-1][1][0] != 'iterpos':
        ctx.unproved(R, 'element', 'the inserted restriction is not built from speed_set.speed_limits[k] of the current iteration', w); return
    g = lambda fld: T(('pre', el + (('f', fld),)))
    from .common import prove
    ext = T(mk('gamma', ('pre', ss + (('f', 'is_head_end'),)), ZERO, ('pre', tp + (('f', 'length'),))))
    AS = [(r'train_params\.length$|\.length$', 'nonneg')]

    def eq_or_dir(key, got, want, kind_if_le, note):
        """equality, else the inequality that matters for this property (kind_if_le is the relation C02 needs: 'le' or 'ge')"""
        pv = Prover(an.names, assume=AS)
        v, d = pv.eq(_t(got), _t(want), [])
        if v == 'PROVED':
            ctx.ok(R, key, note + ' :: ' + d[:100], w); return
        kind = kind_if_le if direction == 'le' else ('ge' if kind_if_le == 'le' else 'le')
        v2, d2 = (pv.le(_t(got), _t(want), []) if kind == 'le' else pv.le(_t(want), _t(got), []))
        txt = '%s :: %s %s %s :: %s' % (note, show(_t(got), an.names)[:160], '≤' if kind == 'le' else '≥', show(_t(want), an.names)[:160], d2[:160])
        if v2 == 'PROVED':
            ctx.ok(R, key, txt + ' (not equal, but on the side this property allows)', w)
        elif v2 == 'DISPROVED':
            ctx.bad(R, key, txt, w)
        else:
            ctx.unproved(R, key, txt, w)
    eq_or_dir('offset_start', T(f['offset_start']), g('offset_start') + T(ob), 'le', 'starts at the posted start shifted by the link\'s start offset')
    eq_or_dir('offset_end', T(f['offset_end']), g('offset_end') + T(ob) + ext, 'ge',
              'ends at the posted end shifted by the link\'s start offset and, unless the set is a head-end set, extended by the train length')
    eq_or_dir('speed', T(f['speed']), g('speed'), 'le', 'carries the posted speed')
    # gating: applies() and speed < speed_max, nothing else; every element of the set
    ac = [x for x in an.calls if x.targets and any(t.endswith('speed_set_applies') for t in x.targets)]
    appl = ac[0].result if len(ac) == 1 else None
    filt = mk('lt', g('speed').t, ('pre', tp + (('f', 'speed_max'),)))
    rest = []
    seen_appl = seen_filt = False
    for cnd, o in c.pc:
        if appl is not None and cnd == appl and o != '0':
            seen_appl = True
        elif cnd == filt and o != '0':
            seen_filt = True
        elif plain_iteration(cnd) and o == '1':
            pass
        else:
            rest.append((show(cnd, an.names)[:100], o))
    if direction == 'le' and appl is not None:
        # a condition that holds whenever the set applies cannot skip a restriction the reference would insert
        kept = []
        for cnd, o in c.pc:
            if (show(cnd, an.names)[:100], o) not in rest:
                continue
            def holds_if_applies(cnd_, o_):
                if cnd_[0] == 'pathset':
                    return o_ != '0' and any(all(holds_if_applies(cc, oo) for cc, oo in alt) for alt in cnd_[2])
                red = cnd_
                for _ in range(3):
                    red = map_term(red, lambda x: TRUE if x == appl else x)
                return (red == TRUE and o_ != '0') or (red == FALSE and o_ == '0')
            if holds_if_applies(cnd, o):
                continue
            # a condition implied by `speed < speed_max` (e.g. `<=`) skips nothing the reference would insert
            neg = {'lt': 'ge', 'le': 'gt', 'gt': 'le', 'ge': 'lt'}
            if cnd[0] in neg and len(cnd) == 3:
                goal = cnd if o != '0' else (neg[cnd[0]], cnd[1], cnd[2])
                if Prover(an.names, assume=[]).holds(goal, [filt])[0] == 'PROVED':
                    seen_filt = True
                    continue
            kept.append((show(cnd, an.names)[:100], o))
        rest = kept
    if direction == 'le':
        ctx.check(not rest, R, 'gate', 'a restriction is skipped only if the set\'s parameter conditions do not apply or its speed is not below the train\'s maximum speed',
                  'insert_speed is additionally gated by %s' % (rest,), w)
    else:
        ctx.check(seen_appl, R, 'gate', 'restrictions are applied only when the set\'s parameter conditions hold for this train',
                  'insert_speed is not gated by speed_set_applies (gate: %s)' % (rest,), w)
    # callers pass the link point's offset as offset_base
    inv = inventory(ctx)
    n = 0
    for caller_fid in sorted(inv.callers(b.fid)):
        cb = ctx.prog.by_id.get(caller_fid)
        if cb is None or cb.test:
            continue
        can = engine(ctx).analysis(cb)
        for cc in can.calls:
            if cc.targets and b.fid in cc.targets:
                n += 1
                base = cc.argvals[3] if len(cc.argvals) > 3 else None
                ok = base is not None and any(x[0] in ('pre', 'loopvar') and 'link_points' in repr(x) for x in walk(base)) and 'offset' in repr(base)
                ctx.check(ok, R, 'offset_base|' + caller_fid, 'the base offset is the start offset of the link whose restrictions are added (a link point\'s offset)',
                          'offset_base = %s' % (show(base, can.names)[:160] if base else None), ctx.where(cb, cc.span))
    ctx.floor('callers of add_speeds', n, 2)
    # a link that the path rejects posts nothing: where a caller tests that the link continues the path (its idx_prev / idx_prev_alt
    # against the last link of the path), the test comes before the link's restrictions are added — otherwise a rejected extension
    # leaves the restrictions of a link that is not on the route in force for whatever is added next
    eb = ctx.prog.by_id.get('PathTpc::extend')
    if eb is None:
        ctx.unproved(R, 'PathTpc::extend|rejected link posts nothing', 'anchor not found'); return
    ean = engine(ctx).analysis(eb)
    ecfg = inv.cfg(eb)
    calls = [c for c in ean.calls if c.targets and b.fid in c.targets]
    cont = [g for g in ean.guards if g.origin is None and g.block is not None and 'idx_prev' in repr(g.cond) and 'link_points' in repr(g.cond)]
    def later_in_iteration(frm):
        # blocks reachable from `frm` without taking a back edge (the rest of the same iteration)
        be = set(ecfg.back_edges())
        seen, work = set(), [frm]
        while work:
            x = work.pop()
            for y in ecfg.succ.get(x, []):
                if (x, y) in be or y in seen:
                    continue
                seen.add(y); work.append(y)
        return seen
    okc = len(calls) == 1 and bool(cont) and not any(g.block in later_in_iteration(calls[0].block) for g in cont) \
        and all(calls[0].block in later_in_iteration(g.block) for g in cont)
    ctx.check(okc, R, 'PathTpc::extend|rejected link posts nothing', 'the continuity test of a link (%d guard(s)) comes before its restrictions are added' % len(cont),
              'within one iteration the continuity test of the link does not come before add_speeds (continuity guards found: %d)' % len(cont), ctx.where(eb, calls[0].span) if calls else ctx.where(eb))


def select_set(ctx):
    """C02-7.select: which speed set a link contributes: its train-type-neutral set when it has one, otherwise the entry of its
    per-train-type table whose key equals the train's type (an error when there is none) — never another type's set"""
    R = 'C02-7.select'
    b = _fn(ctx, 'extract_speed_set')
    if b is None:
        ctx.unproved(R, 'extract_speed_set', 'anchor not found'); return
    eng = engine(ctx)
    an = eng.analysis(b)
    if an.exit_state is None or len(b.params) != 3:
        ctx.unproved(R, 'extract_speed_set', 'not analysable', ctx.where(b)); return
    w = ctx.where(b)
    r = an.ret()
    sets, one, tp = (('obj', b.params[0][0]),), (('obj', b.params[1][0]),), (('obj', b.params[2][0]),)
    g = None
    for x in walk(r):
        if x[0] == 'gamma' and x[1] == ('discr', ('pre', one)):
            g = x; break
    ok = r[0] == 'ok' and g is not None and g[2] == ('ref', one + (('as', 'Some'), ('f', '#0')), 'shr')
    ctx.check(ok, R, 'extract_speed_set|neutral', 'a link\'s own train-type-neutral speed set is used whenever it has one', 'returns %s' % show(r, an.names)[:200], w)
    fnd = None
    if g is not None:
        for x in walk(g[3]):
            if x[0] == 'uf' and x[1] == 'iter.find':
                fnd = x
    ok2 = fnd is not None and any(y == ('pre', sets) or (y[0] == 'uf' and 'HashMap::iter' in y[1] and ('pre', sets) in y) for y in walk(fnd[2])) and fnd[3][0] == 'closure'
    if ok2:
        cb = eng.closure_body(fnd[3][1])
        ca = eng.analysis(cb) if cb is not None else None
        pr = ca.ret() if ca is not None and ca.exit_state is not None else None
        item = ('obj', cb.params[1][0]) if cb is not None and len(cb.params) > 1 else None
        ok2 = pr is not None and pr[0] == 'eq' and any(sd[0] == 'pre' and sd[1][:2] == (item, ('f', '#0')) for sd in (pr[1], pr[2])) and \
            any(sd[0] == 'pre' and sd[1][-1] == ('f', 'train_type') for sd in (pr[1], pr[2]))
        why = 'predicate %s' % (show(pr, ca.names)[:120] if pr is not None else None)
    else:
        why = 'no search of the per-train-type table'
    ctx.check(ok2, R, 'extract_speed_set|by type', 'otherwise the table entry whose key equals the train\'s type is used', why, w)
    # the value (second component) of the found entry, and an error (not a default) when nothing is found
    val_ok = g is not None and any(x[0] == 'pre' and x[1][-1] == ('f', '#1') or (x[0] == 'proj' and x[2] == ('f', '#1')) for x in walk(g[3])) and 'unwrap' in show(g[3])[:200]
    ctx.check(val_ok, R, 'extract_speed_set|missing', 'a missing entry is an error value, not a silently substituted set', 'fallback %s' % (show(g[3], an.names)[:160] if g is not None else None), w)


def applies(ctx):
    """speed_set_applies: false only when some parameter comparison fails; arm tables by variant name"""
    R = 'C02-4.applies'
    prog = ctx.prog
    b = ctx.anchor(R, 'TrainParams::speed_set_applies')
    if b is None:
        return
    an = engine(ctx).analysis(b)
    if an.exit_state is None or len(an.exit_paths) < 1:
        ctx.unproved(R, 'TrainParams::speed_set_applies', 'not analysable', ctx.where(b)); return
    w = ctx.where(b)
    r = an.ret()
    ok = r[0] == 'gamma' and plain_iteration(r[1]) and r[2] == FALSE and r[3] == TRUE
    ctx.check(ok, R, 'result', 'true exactly when the loop over the set\'s parameters runs to exhaustion, false only from inside it', 'returns %s' % show(r, an.names)[:200], w)
    # the early-return condition: the negated comparison of the current parameter
    alts = None
    for pc, v in an.exit_paths:
        for cnd, o in pc:
            if cnd[0] == 'pathset':
                alts = cnd[2]
    arm = None
    if alts:
        for alt in alts:
            if len(alt) == 2 and alt[0][1] == '1' and alt[1][1] == '0' and alt[1][0][0] == 'Gamma':
                arm = alt[1][0]
    if arm is None:
        ctx.unproved(R, 'early return', 'the condition of the early `return false` was not recognised', w); return
    lt = prog.typedef('LimitType'); ctp = prog.typedef('CompareType')
    if lt is None or ctp is None:
        ctx.unproved(R, 'enums', 'LimitType / CompareType not found', w); return
    QUANT = {'MassTotal': 'towed_mass_static', 'MassPerBrake': 'mass_per_brake', 'AxleCount': 'axle_count'}
    OPS = {'TpEqualRp': 'eq', 'TpGreaterThanRp': 'gt', 'TpLessThanRp': 'lt', 'TpGreaterThanEqualRp': 'ge', 'TpLessThanEqualRp': 'le'}
    arms = dict(arm[2])
    for i, v in enumerate(lt.variants):
        k = str(v.get('discr') or i).strip()
        name = v['name']
        a_ = None
        for kk, vv in arms.items():
            if k in kk.split('|'):
                a_ = vv
        if name not in QUANT:
            ctx.unproved(R, 'LimitType::' + name, 'no row for this limit type in the rule table (new variant?)', w); continue
        if a_ is None or a_[0] != 'Gamma':
            ctx.bad(R, 'LimitType::' + name, 'no comparison is made for this limit type: the parameter condition is ignored', w); continue
        cmp_arms = dict(a_[2])
        tq = ('pre', (('obj', 1), ('f', QUANT[name])))
        good = True
        why = []
        for j, cv in enumerate(ctp.variants):
            ck = str(cv.get('discr') or j).strip()
            t = None
            for kk, vv in cmp_arms.items():
                if ck in kk.split('|'):
                    t = vv
            if cv['name'] not in OPS:
                good = False; why.append('%s: not in the rule table' % cv['name']); continue
            if t is None or t[0] != OPS[cv['name']] or t[1] != tq or not any(x[0] == 'pre' and x[1][-1] == ('f', 'limit_val') for x in walk(t[2])):
                good = False; why.append('%s -> %s' % (cv['name'], show(t, an.names)[:80] if t else None))
        ctx.check(good, R, 'LimitType::' + name, 'compares train_params.%s with the parameter\'s limit value using the operator its CompareType names' % QUANT[name], '; '.join(why)[:300], w)



# ------------------------------------------------------------------------------------------------ canonical form (C13-8)
def _alternatives(pc):
    """a path condition as a list of conjunctions: synthetic path-set decisions are expanded into their alternatives"""
    alts = [[]]
    for c, o in pc or ():
        if c[0] == 'pathset':
            if o == '0':
                return None
            new = []
            for a in alts:
                for alt in c[2]:
                    sub = _alternatives(alt)
                    if sub is None:
                        return None
                    for s_ in sub:
                        new.append(a + s_)
            alts = new
            if len(alts) > 64:
                return None
        else:
            alts = [a + [(c, o)] for a in alts]
    return alts


def _distinct_in(an, conj, A, B):
    """does the conjunction state A != B?  equalities stated in it are used as rewrites (one congruence step)"""
    A = assume_nonneg(vec_norm(an, A)); B = assume_nonneg(vec_norm(an, B))
    cls = {}
    def find(x):
        while cls.get(x, x) != x:
            x = cls[x]
        return x
    nes = []
    for c, o in conj:
        c = assume_nonneg(vec_norm(an, c))
        pos = o != '0'
        while c[0] == 'not':
            c = c[1]; pos = not pos
        if c[0] == 'eq' and pos or c[0] == 'ne' and not pos:
            cls[find(c[1])] = find(c[2])
        elif c[0] == 'ne' and pos or c[0] == 'eq' and not pos:
            nes.append((c[1], c[2]))
    a, b = find(A), find(B)
    return any({find(p), find(q)} == {a, b} for p, q in nes)


def canonical(ctx):
    """C13-8.canonical: the stored profile has no redundant equal-valued neighbours.  Necessary conditions per statement of
    insert_speed: a point is added, or a point's speed overwritten, only on paths where the path condition states that the
    value differs from the value the left neighbour carries (or will carry once the restriction is applied, for the
    restore point in the overlap branch), or the point has no left neighbour; and after the update loop the last touched
    point is merged away whenever it equals its left neighbour, on nothing but that comparison."""
    R = 'C13-8.canonical'
    b, an = analysis(ctx)
    if b is None or an is None or an.exit_state is None:
        ctx.unproved(R, 'insert_speed', 'InsertSpeed::insert_speed not found / not analysable'); return
    S = sites(ctx, b, an)
    s_speed = SL('speed')
    seen = {}
    n = 0
    for s in S:
        w = ctx.where(b, s.span)
        cur = s.cur
        no_left = None
        if s.kind in ('push', 'insert'):
            f = fields(s.point)
            o, x = f.get('offset'), f.get('speed_limit')
            k_prev = mk('sub', ('len', cur), ONE) if s.kind == 'push' else mk('sub', s.k, ONE)
            if o == SL('offset_start') or s.kind == 'push':
                A, B = elem_speed(an, cur, k_prev), x
                what = 'the new point\'s speed differs from its left neighbour\'s'
            else:
                A, B = x, min_speed_term(ctx, x, s_speed)
                what = 'the restored speed differs from the speed in force up to offset_end once the restriction is applied'
            key = '%s at %s' % (s.kind, 'offset_start' if o == SL('offset_start') else 'offset_end')
        elif s.kind == 'store_speed_limit':
            A, B = elem_speed(an, cur, mk('sub', s.k, ONE)), s.val
            no_left = s.k
            what = 'the overwritten speed differs from the left neighbour\'s, or the point is the first'
            key = 'speed of point %s' % _idx_name(an, s.k)
        elif s.kind == 'store_offset':
            A, B = elem_speed(an, cur, mk('sub', s.k, ONE)), elem_speed(an, cur, s.k)
            what = 'the moved point\'s speed differs from its left neighbour\'s'
            key = 'offset of point %s' % _idx_name(an, s.k)
        else:
            continue
        c_ = seen.get(key, 0); seen[key] = c_ + 1
        if c_:
            key = '%s #%d' % (key, c_ + 1)
        n += 1
        if B is None:
            ctx.unproved(R, key, 'min_speed not found', w); continue
        alts = _alternatives(s.pc)
        if alts is None:
            ctx.unproved(R, key, 'path condition not expandable', w); continue
        bad = []
        for conj in alts:
            if _distinct_in(an, conj, A, B):
                continue
            if no_left is not None:
                fs = [assume_nonneg(x_) for x_ in facts_of(an, conj)]
                v, _d = Prover(an.names, assume=[]).le(vec_norm(an, no_left), ZERO, fs)
                if v == 'PROVED':
                    continue
            bad.append(conj)
        txt = '%s :: %s ≠ %s' % (what, show(assume_nonneg(vec_norm(an, A)), an.names)[:140], show(assume_nonneg(vec_norm(an, B)), an.names)[:200])
        if not bad:
            ctx.ok(R, key, txt + ' :: stated by the path condition on each of %d path(s)' % len(alts), w)
        else:
            ctx.unproved(R, key, txt + ' :: not stated on %d of %d path(s) to this statement; e.g. under %s' % (
                len(bad), len(alts), [(show(c, an.names)[:90], o) for c, o in bad[0][-3:]]), w)
    ctx.floor('statements of insert_speed that add a point or overwrite a speed', n, 8)
    # the final merge: present, outside the loop, decided on k > 0 and equality with the left neighbour only
    fin = [s for s in S if s.kind == 'remove' and not s.in_loop]
    inl = [s for s in S if s.in_loop]
    if len(fin) != 1 or not inl:
        ctx.unproved(R, 'final merge', 'expected one removal after the update loop and sites inside it (found %d, %d)' % (len(fin), len(inl)), ctx.where(b)); return
    s = fin[0]
    w = ctx.where(b, s.span)
    pre = 0
    pin = list(inl[0].pc or ())
    pf = list(s.pc or ())
    while pre < len(pin) and pre < len(pf) and pin[pre] == pf[pre]:
        pre += 1
    tail = pf[pre:]
    A, B = elem_speed(an, s.cur, mk('sub', s.k, ONE)), elem_speed(an, s.cur, s.k)
    A = assume_nonneg(A); B = assume_nonneg(B)
    ok_shape = len(tail) == 3 and tail[0][1] == '0' and tail[0][0][0] in ('lt', 'gt', 'ne', 'le', 'ge') \
        and tail[1][0] == mk('gt', s.k, ZERO) and tail[1][1] != '0' \
        and tail[2][1] != '0' and tail[2][0][0] == 'eq' and {assume_nonneg(vec_norm(an, tail[2][0][1])), assume_nonneg(vec_norm(an, tail[2][0][2]))} == {A, B}
    ctx.check(ok_shape, R, 'final merge', 'after the update loop the point it stopped at is removed exactly when it has a left neighbour carrying the same speed',
              'the removal after the loop is decided by %s' % ([(show(vec_norm(an, c), an.names)[:120], o) for c, o in tail],), w)


# ------------------------------------------------------------------------------------------------ sortedness (C13-10)
def _order_lt(a, b, facts):
    """does the conjunction of comparison facts entail a < b?  (closure of <=, <, =, != over the terms as opaque atoms)"""
    INF_ = 10 ** 6
    idx = {}
    def node(t):
        if t not in idx:
            idx[t] = len(idx)
        return idx[t]
    edges = []       # (u, v, strict): u <= v or u < v
    nes = set()
    def add(op, u, v):
        u, v = node(u), node(v)
        if op == 'lt': edges.append((u, v, True))
        elif op == 'le': edges.append((u, v, False))
        elif op == 'gt': edges.append((v, u, True))
        elif op == 'ge': edges.append((v, u, False))
        elif op == 'eq': edges.append((u, v, False)); edges.append((v, u, False))
        elif op == 'ne': nes.add((u, v)); nes.add((v, u))
    NEG = {'lt': 'ge', 'le': 'gt', 'gt': 'le', 'ge': 'lt', 'eq': 'ne', 'ne': 'eq'}
    for f in facts:
        pos = True
        while f[0] == 'not':
            f = f[1]; pos = not pos
        if f[0] in NEG and len(f) == 3:
            add(f[0] if pos else NEG[f[0]], f[1], f[2])
    na, nb = node(a), node(b)
    n = len(idx)
    # best[u][v]: 0 = unknown, 1 = u <= v, 2 = u < v
    best = [[0] * n for _ in range(n)]
    for i in range(n):
        best[i][i] = 1
    for u, v, s_ in edges:
        best[u][v] = max(best[u][v], 2 if s_ else 1)
    for _round in range(4):
        for k in range(n):
            bk = best[k]
            for i in range(n):
                bik = best[i][k]
                if not bik:
                    continue
                bi = best[i]
                for j in range(n):
                    if bk[j]:
                        c = 2 if (bik == 2 or bk[j] == 2) else 1
                        if c > bi[j]:
                            bi[j] = c
        changed = False
        for u, v in nes:
            if best[u][v] == 1:
                best[u][v] = 2; changed = True
        if not changed:
            break
    return best[na][nb] == 2


def sortedness(ctx):
    """C13-10.sorted: the stored profile stays strictly sorted by offset.  For each statement of insert_speed that adds a point or
    moves one, the new offset lies strictly between its neighbours', from the statement's path condition, the strict
    sortedness of the profile on entry (instances for adjacent indices) and start <= end of a validated restriction.
    The left neighbour of the point inserted at offset_start and the right neighbour of the restore point are the two
    positions the index searches stop at; that they bracket the restriction follows from the search clauses (C13-5: single exit
    test, unit step from the first / last point) and is not re-derived here."""
    R = 'C13-10.sorted'
    b, an = analysis(ctx)
    if b is None or an is None or an.exit_state is None:
        ctx.unproved(R, 'insert_speed', 'InsertSpeed::insert_speed not found / not analysable'); return
    S = sites(ctx, b, an)
    st, en = SL('offset_start'), SL('offset_end')
    seen = {}
    n = 0
    LAST = mk('sub', ('len', ('pre', SELF)), ONE)

    def sorted_instances(terms):
        """pre[k].offset < pre[k+1].offset for every pair of index terms occurring in `terms` that differ by one"""
        ks = set()
        for t in terms:
            for x in walk(t):
                if x[0] == 'pre' and len(x[1]) == len(SELF) + 2 and x[1][:len(SELF)] == SELF and x[1][-1] == ('f', 'offset') and x[1][-2][0] == 'idx':
                    ks.add(simp_idx(x[1][-2][1]))
        out = []
        ks = list(ks)
        # also the predecessor of every index that occurs (so that chains through an unseen neighbour can be built)
        for k in list(ks):
            ks.append(simp_idx(mk('sub', k, ONE)))
        ks = list(dict.fromkeys(ks))
        for k1 in ks:
            for k2 in ks:
                if simp_idx(mk('add', k1, ONE)) == k2:
                    out.append(mk('lt', elem_offset_raw(('pre', SELF), k1), elem_offset_raw(('pre', SELF), k2)))
        return out

    def decide(key, lo, hi, pc, note, w):
        """lo < hi ?"""
        nonlocal n
        c_ = seen.get(key, 0); seen[key] = c_ + 1
        if c_:
            key = '%s #%d' % (key, c_ + 1)
        n += 1
        lo_n, hi_n = vec_norm(an, lo), vec_norm(an, hi)
        facts = facts_of(an, pc) + [mk('le', st, en)]
        ok_all = True
        worst = None
        cs_ = cases(an, mk('sub', hi_n, lo_n), ZERO, facts, max_conds=3)
        if not cs_:
            ctx.unproved(R, key, '%s :: every case contradicts the path condition (nothing to decide on)' % note, w); return
        for label, g2, w2, f2 in cs_:
            # g2 = hi - lo after the case split; recover both sides
            if g2[0] == 'sub' and len(g2) == 3:
                hi2, lo2 = g2[1], g2[2]
            else:
                hi2, lo2 = vec_norm(an, hi), vec_norm(an, lo)
            f3 = [vec_norm(an, x) for x in f2]
            f3 += sorted_instances([hi2, lo2] + f3)
            if not _order_lt(lo2, hi2, f3):
                ok_all = False
                worst = (label, lo2, hi2)
                break
        txt = '%s :: %s < %s' % (note, show(lo_n, an.names)[:120], show(hi_n, an.names)[:120])
        if ok_all:
            ctx.ok(R, key, txt + ' :: entailed by the path condition, sortedness on entry and start <= end', w)
        else:
            ctx.unproved(R, key, txt + ' :: not entailed%s' % ((' in the case [%s]: %s < %s' % (worst[0], show(worst[1], an.names)[:100], show(worst[2], an.names)[:100])) if worst else ''), w)

    for s in S:
        w = ctx.where(b, s.span)
        cur = s.cur
        if s.kind == 'push':
            o = fields(s.point).get('offset')
            decide('push at %s|after the last point' % ('offset_start' if o == st else 'offset_end'),
                   elem_offset(an, cur, mk('sub', ('len', cur), ONE)), o, s.pc, 'the pushed point lies strictly after the last point', w)
        elif s.kind == 'insert':
            o = fields(s.point).get('offset')
            nm = 'offset_start' if o == st else 'offset_end'
            if o == st:
                decide('insert at %s|before its right neighbour' % nm, o, elem_offset(an, cur, s.k), s.pc,
                       'the inserted point lies strictly before the point it is inserted in front of', w)
                ctx.info(R, 'insert at %s|after its left neighbour' % nm, 'left neighbour = the point before the one the idx_start search stopped at: follows from C13-5 (not re-derived)', w)
            else:
                decide('insert at %s|after its left neighbour' % nm, elem_offset(an, cur, mk('sub', s.k, ONE)), o, s.pc,
                       'the restore point lies strictly after the point it is inserted behind', w)
                ctx.info(R, 'insert at %s|before its right neighbour' % nm, 'right neighbour = the point after the one the idx_end search stopped at: follows from C13-5 (not re-derived)', w)
        elif s.kind == 'store_offset':
            decide('offset of point %s|after its left neighbour' % _idx_name(an, s.k), elem_offset(an, cur, mk('sub', s.k, ONE)), s.val, s.pc,
                   'the moved point stays strictly after its left neighbour (it is the last point: C13-1 target clause)', w)
    ctx.floor('ordering obligations of insert_speed', n, 6)
