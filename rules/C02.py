"""C02 — the enforced speed-limit profile never exceeds any posted limit (DESIGN §5 C02)."""
import re
from sa.dsl import T, gamma, _t
from sa.terms import mk, ZERO, ONE, TRUE, show, walk, map_term, num
from .common import engine, inventory, prove, analysis_or_fail
from . import speedprofile as SP

LEVEL = 'other'
MANIFEST = {
    'category': 'other',
    'engine': 'svn',
    'technique': ('symbolic value numbering: spec-term equivalence for min_speed, aggregate handed to insert_speed by add_speeds '
                  '(offset shift, tail-end extension by train length, speed_max filter, parameter gating), seed of the profile, and '
                  'per mutation site of insert_speed an upper-bound obligation (<=) on the value left in force, proved with the '
                  'site\'s path condition as facts over a small vector theory'),
    'text': ('Decides necessary conditions, not the insertion algorithm: min_speed is min on magnitudes with sticky sign; every '
             'profile is seeded with the train\'s maximum speed; add_speeds hands insert_speed the link\'s restriction shifted by '
             'the link\'s start offset, extended by the train length unless it is a head-end set, only when the set\'s parameter '
             'conditions all apply; speed_set_applies is the conjunction of its parameter comparisons with the arm tables '
             'matching the variant names; and at every statement of insert_speed that changes the profile vector the value left in '
             'force on the affected interval is not above min(previous value, new restriction) inside the restriction and not '
             'above the previous value after its end. The two index searches are decided as far as their exit test, start and unit step go; sortedness of the stored profile across calls — hence the pointwise bound for arbitrary restriction sets as a whole — is not decided.'),
    'note': 'Speeds taken non-negative for the order proofs; extension link by link is C06-7 (speed points are among pass 1\'s vectors).',
}
EXPLANATION = 'min_speed spec, seed, add_speeds aggregate, speed_set_applies arm tables, per-site upper-bound obligations on insert_speed.'
RULES = ['C02-1.min_speed', 'C02-2.seed', 'C02-3.add_speeds', 'C02-4.applies', 'C02-5.sites', 'C02-6.search', 'C02-7.select', 'C02-8.base', 'C02-9.guards']
ASSUMPTIONS = ['speeds are non-negative in the order proofs', 'idx_start / idx_end are the positions their search loops are meant to find (not decided)']


def run(ctx):
    SP.site_rules(ctx, 'C02', 'le')
    SP.searches(ctx, 'C02')
    SP.min_speed_spec(ctx)
    SP.seed(ctx)
    SP.add_speeds(ctx)
    SP.applies(ctx)
    SP.select_set(ctx)
    # every restriction is placed relative to the start offset of its link: the link points of the path (cumulative link lengths,
    # clauses of C06-1) are what `offset_base` is read from
    from .common import RuleProxy
    from . import C06
    C06.run(RuleProxy(ctx, {'C06-1.linkpoints': 'C02-8.base'}))
    # the order proofs above take speeds as non-negative; flagged restrictions are stored with a negative sign and compared by magnitude
    # through min_speed only.  The guards that decide whether a point is inserted at all must therefore be the sign-agnostic `!=` tests
    # of the canonical-form clause (an ordering test on the raw values drops a stricter restriction nested in a flagged one): C13-8, shared
    SP.canonical(RuleProxy(ctx, {'C13-8.canonical': 'C02-9.guards'}))
