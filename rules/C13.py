"""C13 — the enforced speed-limit profile is exactly the tightest posted restriction (DESIGN §5 C13, §6)."""
from sa.dsl import T, _t
from sa.terms import mk, ZERO, ONE, show, walk, map_term, num
from .common import engine, inventory
from . import speedprofile as SP

LEVEL = 'other'
MANIFEST = {
    'category': 'other',
    'engine': 'svn',
    'technique': ('symbolic value numbering of InsertSpeed::insert_speed with a small vector theory (reads through push / insert / '
                  'remove / element stores become γ-terms): per mutation site, the value denoted on the affected interval is '
                  'compared (>=, with the site\'s path condition as facts) with the value the specification requires, and the '
                  'decisions that suppress a restore point are checked to read the pre-restriction value'),
    'text': ('Decides necessary conditions, not the insertion algorithm: at every statement of insert_speed that changes the '
             'profile vector, the value that ends up in force on the affected interval is not lower than min(previous value, new '
             'restriction) inside the restriction and not lower than the previous value after its end; a point is removed or '
             'merged only when its left neighbour already carries the value the interval must keep; the restore point after the '
             'end of a restriction carries, and its suppression is decided on, the value the profile had there before the '
             'restriction was applied. The two index searches are decided as far as their exit test, start and unit step go (given a sorted profile they find the first point at or after the start and the last point at or before the end); sortedness of the stored profile across calls, and hence the pointwise equality with the minimum as a whole, is not decided.'),
    'note': 'Speeds taken non-negative for the order proofs (is_sign_positive := true); the sign convention of min_speed is covered by C02-1.',
}
EXPLANATION = 'Per-site lower-bound obligations on insert_speed and pre-value provenance of the restore decision.'
RULES = ['C13-1.sites', 'C13-2.restore', 'C13-3.merge', 'C13-4.empty', 'C13-5.search', 'C13-6.add_speeds', 'C13-7.seed', 'C13-8.canonical', 'C13-9.gate', 'C13-10.sorted', 'C13-11.base', 'C13-12.upper']
ASSUMPTIONS = ['speeds are non-negative in the order proofs', 'idx_start / idx_end are the positions their search loops are meant to find (not decided)']


def run(ctx):
    SP.site_rules(ctx, 'C13', 'ge')
    SP.searches(ctx, 'C13')
    SP.empty_restriction_rule(ctx)
    SP.add_speeds(ctx, 'C13', 'ge')
    SP.seed(ctx, 'C13')
    SP.canonical(ctx)
    SP.sortedness(ctx)
    # which restrictions are posted for this train at all: the arm table of speed_set_applies, the choice of a link's speed set and
    # min_speed are equalities (direction-free), so a wrong gate lowers the profile as readily as it raises it (shared with C02)
    from .common import RuleProxy
    px = RuleProxy(ctx, {'C02-4.applies': 'C13-9.gate', 'C02-7.select': 'C13-9.gate', 'C02-1.min_speed': 'C13-9.gate'})
    SP.applies(px); SP.select_set(px); SP.min_speed_spec(px)
    from . import C06
    C06.run(RuleProxy(ctx, {'C06-1.linkpoints': 'C13-11.base'}))
    # "equals the minimum of all posted restrictions" is two-sided: a restriction that never reaches the profile (dropped by the
    # posting loop, skipped before its tail-end extension, ...) leaves the limit too HIGH, which is C02's direction; C13 therefore
    # takes over every clause of C02 as well
    from . import C02
    C02.run(RuleProxy(ctx, {k: 'C13-12.upper' for k in C02.RULES}))
