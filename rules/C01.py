"""C01 — energy ledger closes (DESIGN §5 C01).  All obligations are term identities at the Ok exit of the
*discovered* writers of the state fields involved."""
import re
from sa.dsl import T, gamma, select
from sa.terms import mk, ZERO, show, walk
from .common import (engine, inventory, StateView, locate, prove, POWERTRAIN_ASSUME, analysis_or_fail, guard_facts, pretty)

LEVEL = 'proof'
MANIFEST = {
    'category': 'proof',
    'engine': 'svn',
    'technique': 'symbolic value numbering over rustc MIR + polynomial term-identity prover',
    'text': ('Every ledger, accumulator, hand-off, SOC and roll-up relation of the statement is proved as a term identity at '
             'the Ok exit of each discovered writer of the powertrain state fields, for all inputs at once (all demands, maps, '
             'time steps, pre-states). Per-step closure for every component, locomotive type and the consist roll-up; cumulative '
             'closure follows by induction over steps from the accumulator relations and the writer inventory.'),
    'note': ('Assumes dt > 0 and efficiency values in (0,1]; identities are over the reals (float associativity out of scope). '
             'HybridLoco/DummyLoco are outside the statement. Trusted: rustc MIR dump, sa/ parser+engine, sympy normal forms. '
             'A behaviour-preserving rewrite that moves a relation into a loop or behind an unresolved call makes the proof fail closed.'),
}
EXPLANATION = ('Symbolic value numbering of the MIR of every discovered writer of the powertrain state fields; each '
               'ledger / accumulator / hand-off / SOC / roll-up relation is proved as a term identity over all inputs '
               '(γ-cofactors for direction of flow, η re-parametrised as 1/(1+τ)).')
RULES = ['C01-1.ledger', 'C01-2.accum', 'C01-3.handoff', 'C01-4.soc', 'C01-5.rollup']
ASSUMPTIONS = ['dt > 0', 'every efficiency value η in (0,1] (interp lemma: C08)', 'ratings, idle fuel, capacity >= 0',
               'identities are over the reals (floating-point associativity out of scope)']

# (state struct, ledger identities as (lhs field, [rhs fields summed], {field: sign}))
LEDGERS = {
    'FuelConverterState': [('pwr_fuel', ['pwr_brake', 'pwr_loss'])],
    'GeneratorState': [('pwr_mech_in', ['pwr_elec_prop_out', 'pwr_elec_aux', 'pwr_loss'])],
    'ElectricDrivetrainState': [('pwr_out_req', ['pwr_mech_prop_out', '-pwr_mech_dyn_brake']),
                                ('pwr_elec_prop_in', ['pwr_mech_prop_out', 'pwr_loss'])],
    'ReversibleEnergyStorageState': [('pwr_out_electrical', ['pwr_out_propulsion', 'pwr_aux']),
                                     ('pwr_out_chemical', ['pwr_out_electrical', 'pwr_loss'])],
}

# accumulator pairs (energy field, power field[, sign, split predicate]) — frozen table, DESIGN A.1 (28 pairs)
ACCUM = {
    'FuelConverterState': [('energy_brake', 'pwr_brake'), ('energy_fuel', 'pwr_fuel'), ('energy_loss', 'pwr_loss'),
                           ('energy_idle_fuel', 'pwr_idle_fuel')],
    'GeneratorState': [('energy_mech_in', 'pwr_mech_in'), ('energy_elec_prop_out', 'pwr_elec_prop_out'),
                       ('energy_elec_aux', 'pwr_elec_aux'), ('energy_loss', 'pwr_loss')],
    'ElectricDrivetrainState': [('energy_elec_prop_in', 'pwr_elec_prop_in'), ('energy_mech_prop_out', 'pwr_mech_prop_out'),
                                ('energy_mech_dyn_brake', 'pwr_mech_dyn_brake'), ('energy_elec_dyn_brake', 'pwr_elec_dyn_brake'),
                                ('energy_loss', 'pwr_loss')],
    'ReversibleEnergyStorageState': [('energy_out_electrical', 'pwr_out_electrical'), ('energy_out_propulsion', 'pwr_out_propulsion'),
                                     ('energy_aux', 'pwr_aux'), ('energy_loss', 'pwr_loss'), ('energy_out_chemical', 'pwr_out_chemical')],
    'LocomotiveState': [('energy_out', 'pwr_out'), ('energy_aux', 'pwr_aux')],
    'ConsistState': [('energy_out', 'pwr_out'), ('energy_out_pos', 'pwr_out', '+'), ('energy_out_neg', 'pwr_out', '-'),
                     ('energy_fuel', 'pwr_fuel'), ('energy_res', 'pwr_reves')],
    'TrainState': [('energy_whl_out', 'pwr_whl_out'), ('energy_whl_out_pos', 'pwr_whl_out', '+'),
                   ('energy_whl_out_neg', 'pwr_whl_out', '-')],
}


def step_size_term(an, sv):
    """the writer's step-size input: its single `Time` parameter, else the `dt` field of the state struct"""
    cands = [n for n, ty in an.body.params if ty.strip() == 'Time']
    if len(cands) == 1:
        return T(('pre', (('val', cands[0]),))), 'parameter %s' % an.names.get(cands[0], '_%d' % cands[0])
    return None, None


def discovered_writers(ctx, state, fields):
    inv = inventory(ctx)
    out = {}
    for f in fields:
        for b in inv.writers(state, f):
            if '{closure' in b.fid:
                continue
            if is_raw_setter(b):
                ctx.info('C01.exempt', b.fid, 'generated raw field setter (one parameter stored into one field)')
                continue
            out[b.fid] = b
    return list(out.values())


def is_raw_setter(b):
    return bool(re.search(r'::attr\(altrios_api\)::', b.fid)) or bool(re.search(r'::set_\w+_py$|::__\w+$', b.fid))


def run(ctx):
    prog = ctx.prog
    n_writers = 0
    n_pairs = 0
    # ---------------- C01-1 ledgers + C01-2 accumulators
    for state, ledgers in LEDGERS.items():
        fields = set()
        for lhs, rhs in ledgers:
            fields.add(lhs)
            fields.update(x.lstrip('-') for x in rhs)
        ws = discovered_writers(ctx, state, fields)
        ctx.analysed.setdefault('ledger_writers', {})[state] = [b.fid for b in ws]
        if not ws:
            ctx.unproved('C01-1.ledger', state, 'no writer of %s ledger fields found (anchor missing)' % state)
        for b in ws:
            n_writers += 1
            an = analysis_or_fail(ctx, 'C01-1.ledger', b)
            if an is None:
                continue
            pref = locate(ctx, b, state)
            if pref is None:
                ctx.unproved('C01-1.ledger', b.fid, 'cannot locate %s under parameter 1' % state, ctx.where(b))
                continue
            sv = StateView(an, pref)
            facts = guard_facts(an)
            for lhs, rhs in ledgers:
                r = T(ZERO)
                for x in rhs:
                    r = (r - sv.post(x[1:])) if x.startswith('-') else (r + sv.post(x))
                prove(ctx, 'C01-1.ledger', '%s|%s.%s' % (b.fid, state, lhs), an, 'eq', sv.post(lhs), r, facts=facts)
    for state, pairs in ACCUM.items():
        ws = discovered_writers(ctx, state, [p[0] for p in pairs])
        ctx.analysed.setdefault('accumulator_writers', {})[state] = [b.fid for b in ws]
        if not ws:
            ctx.unproved('C01-2.accum', state, 'no writer of the accumulators of %s found' % state)
        for b in ws:
            an = analysis_or_fail(ctx, 'C01-2.accum', b)
            if an is None:
                continue
            pref = locate(ctx, b, state)
            if pref is None:
                ctx.unproved('C01-2.accum', b.fid, 'cannot locate %s under parameter 1' % state, ctx.where(b))
                continue
            sv = StateView(an, pref)
            dt, dtname = step_size_term(an, sv)
            if dt is None:
                # train sims: step size is the state's own `dt` field (speed-limited) or a derived local (set-speed);
                # the relation is then checked in C11/C14 with that term
                if state == 'TrainState':
                    ctx.info('C01-2.accum', b.fid, 'train-level accumulators are decided by C11/C14 (step size is not a parameter)')
                    continue
                ctx.unproved('C01-2.accum', b.fid, 'writer has no unique Time parameter', ctx.where(b))
                continue
            # accumulator stores must not sit in a loop of the writer
            loop_blocks = set().union(*an.cfg.loops.values()) if an.cfg.loops else set()
            for p in pairs:
                en, pw = p[0], p[1]
                if not sv.written(en):
                    continue
                n_pairs += 1
                key = '%s|%s.%s' % (b.fid, state, en)
                in_loop = [bb for bb, path, _, _ in an.stores_log if path == sv.path(en) and bb in loop_blocks]
                if in_loop:
                    ctx.bad('C01-2.accum', key, 'accumulator is stored inside a loop (%s): not exactly once per call' % in_loop[:3],
                            ctx.where(b))
                    continue
                delta = sv.post(en) - sv.pre(en)
                if len(p) == 2:
                    prove(ctx, 'C01-2.accum', key, an, 'eq', delta, sv.post(pw) * dt, note='[dt = %s]' % dtname)
                else:
                    pwt = sv.post(pw)
                    if p[2] == '+':
                        ref = gamma(pwt.ge(0), pwt * dt, 0)
                    else:
                        ref = gamma(pwt.ge(0), 0, -(pwt * dt))
                    prove(ctx, 'C01-2.accum', key, an, 'eq', delta, ref, note='[dt = %s, split on pwr >= 0]' % dtname)
    ctx.floor('ledger+accumulator writers', n_writers, 4)
    ctx.floor('accumulator pairs checked', n_pairs, 25)

    # ---------------- C01-4 SOC
    for b in discovered_writers(ctx, 'ReversibleEnergyStorageState', ['soc']):
        an = analysis_or_fail(ctx, 'C01-4.soc', b)
        if an is None:
            continue
        pref = locate(ctx, b, 'ReversibleEnergyStorageState')
        own = locate(ctx, b, 'ReversibleEnergyStorage')
        if pref is None:
            ctx.unproved('C01-4.soc', b.fid, 'cannot locate state', ctx.where(b)); continue
        sv = StateView(an, pref)
        dt, dtname = step_size_term(an, sv)
        cap = T(('pre', (('obj', 1),) + tuple(pref[:-1]) + (('f', 'energy_capacity'),)))
        if dt is None:
            ctx.unproved('C01-4.soc', b.fid, 'no Time parameter', ctx.where(b)); continue
        prove(ctx, 'C01-4.soc', b.fid, an, 'eq', sv.post('soc'), sv.pre('soc') - sv.post('pwr_out_chemical') * dt / cap)

    # ---------------- C01-3 hand-offs
    handoffs(ctx)
    # ---------------- C01-5 roll-ups
    rollups(ctx)
    # the losses REPORTED for a locomotive / consist are the sums of its components' ledger losses (clause of C11-4, shared)
    from .common import RuleProxy
    from . import C11
    C11.getters(RuleProxy(ctx, {'C11-4.getters': 'C01-5.rollup'}, key_filter=lambda k: 'get_energy_loss' in k))


def handoffs(ctx):
    prog = ctx.prog
    inv = inventory(ctx)
    n = 0
    # the functions that drive both sides of each hand-off are discovered as the lowest common callers of the writers
    def common_callers(t1, f1, t2, f2):
        w1 = {b.fid for b in inv.writers(t1, f1)}
        w2 = {b.fid for b in inv.writers(t2, f2)}
        out = []
        for fid, lst in inv.calls().items():
            tg = set()
            for _, _, t in lst:
                tg.update(t)
            if tg & w1 and tg & w2:
                b = prog.by_id.get(fid)
                if b is not None and not b.test:
                    out.append(b)
        return out
    # ConventionalLoco-like: generator output = drivetrain input ; engine shaft = generator input ; aux gated by engine_on
    for b in common_callers('GeneratorState', 'pwr_elec_prop_out', 'ElectricDrivetrainState', 'pwr_elec_prop_in'):
        own = prog.typedef(dict(b.params).get(1, '').replace('&mut ', '').replace('&', '').strip())
        if own is None or own.name == 'HybridLoco':
            ctx.info('C01-3.handoff', b.fid, 'HybridLoco is outside the property statement')
            continue
        an = analysis_or_fail(ctx, 'C01-3.handoff', b)
        if an is None:
            continue
        g = locate(ctx, b, 'GeneratorState'); e = locate(ctx, b, 'ElectricDrivetrainState'); f = locate(ctx, b, 'FuelConverterState')
        if None in (g, e, f):
            ctx.unproved('C01-3.handoff', b.fid, 'cannot locate gen/edrv/fc state', ctx.where(b)); continue
        G, E, F = StateView(an, g), StateView(an, e), StateView(an, f)
        n += 1
        prove(ctx, 'C01-3.handoff', b.fid + '|gen.pwr_elec_prop_out=edrv.pwr_elec_prop_in', an, 'eq',
              G.post('pwr_elec_prop_out'), E.post('pwr_elec_prop_in'))
        prove(ctx, 'C01-3.handoff', b.fid + '|fc.pwr_brake=gen.pwr_mech_in', an, 'eq', F.post('pwr_brake'), G.post('pwr_mech_in'))
        try:
            eng_on = T(an.arg('engine_on')); aux = T(an.arg('pwr_aux'))
            prove(ctx, 'C01-3.handoff', b.fid + '|gen.pwr_elec_aux=gated aux', an, 'eq', G.post('pwr_elec_aux'),
                  gamma(eng_on, aux, 0))
        except KeyError:
            ctx.unproved('C01-3.handoff', b.fid + '|gen.pwr_elec_aux=gated aux', 'parameters engine_on / pwr_aux not found', ctx.where(b))
        dt_pass(ctx, an, b)
    for b in common_callers('ReversibleEnergyStorageState', 'pwr_out_propulsion', 'ElectricDrivetrainState', 'pwr_elec_prop_in'):
        own = prog.typedef(dict(b.params).get(1, '').replace('&mut ', '').replace('&', '').strip())
        if own is None or own.name == 'HybridLoco':
            continue
        an = analysis_or_fail(ctx, 'C01-3.handoff', b)
        if an is None:
            continue
        r = locate(ctx, b, 'ReversibleEnergyStorageState'); e = locate(ctx, b, 'ElectricDrivetrainState')
        if None in (r, e):
            ctx.unproved('C01-3.handoff', b.fid, 'cannot locate res/edrv state', ctx.where(b)); continue
        n += 1
        Rv, E = StateView(an, r), StateView(an, e)
        prove(ctx, 'C01-3.handoff', b.fid + '|res.pwr_out_propulsion=edrv.pwr_elec_prop_in', an, 'eq',
              Rv.post('pwr_out_propulsion'), E.post('pwr_elec_prop_in'))
        dt_pass(ctx, an, b)
    ctx.floor('loco-type hand-off functions', n, 2)
    loco_pwr_out_arms(ctx, 'C01-3.handoff')


def dt_pass(ctx, an, b):
    """the dt each component receives is the caller's dt term unchanged"""
    cands = [n for n, ty in b.params if ty.strip() == 'Time']
    if len(cands) != 1:
        return
    dt = ('pre', (('val', cands[0]),))
    for c in an.calls:
        tgs = c.targets or []
        for tg in tgs:
            cb = ctx.prog.by_id.get(tg)
            if cb is None:
                continue
            tparams = [i for i, (n, ty) in enumerate(cb.params) if ty.strip() == 'Time']
            if len(tparams) == 1 and tparams[0] < len(c.argvals):
                got = c.argvals[tparams[0]]
                ctx.check(got == dt, 'C01-3.dt', '%s -> %s' % (b.fid, tg),
                          'callee receives the caller\'s dt unchanged', 'callee receives %s instead of dt' % show(got, an.names)[:200],
                          ctx.where(b, c.span))


def rollups(ctx):
    """Consist roll-ups: pwr_fuel / pwr_reves are Σ over loco_vec of the arm tables; pwr_out is Σ of the vector that is
    zipped with loco_vec for the per-unit solve."""
    prog = ctx.prog
    inv = inventory(ctx)
    pt = prog.typedef('PowertrainType')
    vidx = {v['name']: v['idx'] for v in pt.variants}
    want = {
        'pwr_fuel': {'ConventionalLoco': ('fc', 'pwr_fuel'), 'HybridLoco': ('fc', 'pwr_fuel'), 'BatteryElectricLoco': None},
        'pwr_reves': {'ConventionalLoco': None, 'HybridLoco': ('res', 'pwr_out_chemical'), 'BatteryElectricLoco': ('res', 'pwr_out_chemical')},
    }
    n = 0
    for field, arms in want.items():
        for b in inv.writers('ConsistState', field):
            if is_raw_setter(b):
                continue
            an = analysis_or_fail(ctx, 'C01-5.rollup', b)
            if an is None:
                continue
            sv = StateView(an, locate(ctx, b, 'ConsistState') or (('f', 'state'),))
            t = sv.post(field).t
            key = '%s|ConsistState.%s' % (b.fid, field)
            if t[0] != 'Sum' or t[1][0] != 'seq':
                ctx.unproved('C01-5.rollup', key, 'value is not a Σ over a sequence: %s' % show(t, an.names)[:300], ctx.where(b)); continue
            srcs, item = t[1][1], t[1][2]
            lv = (('obj', 1), ('f', 'loco_vec'))
            if [s for s in srcs] != [('slice', lv)]:
                ctx.bad('C01-5.rollup', key, 'Σ does not range over exactly self.loco_vec: %s' % (srcs,), ctx.where(b)); continue
            n += 1
            for vname, spec in arms.items():
                arm = select(item, lambda d: d[0] == 'discr', vidx[vname])
                akey = key + '|' + vname
                if spec is None:
                    ctx.check(arm == ZERO, 'C01-5.rollup', akey, 'arm is 0', 'arm is %s, expected 0' % show(arm, an.names)[:200], ctx.where(b))
                else:
                    comp, fld = spec
                    # the roll-up runs after the per-unit solve loop: the element is read from the post-loop vector
                    ok = _is_elem_field(arm, vname, comp, fld)
                    ctx.check(ok, 'C01-5.rollup', akey, 'arm is loco.%s.state.%s of the same element' % (comp, fld),
                              'arm is %s, expected loco_vec[k].loco_type@%s.%s.state.%s' % (show(arm, an.names)[:300], vname, comp, fld), ctx.where(b))
    ctx.floor('consist roll-up sums', n, 2)


def _is_elem_field(t, variant, comp, fld):
    """t == <loco_vec value>[k0].loco_type@Variant.#0(.deref)?.comp.state.fld for the bound element k0"""
    want_tail = [('f', 'loco_type'), ('as', variant), ('f', '#0'), ('f', comp), ('f', 'state'), ('f', fld)]
    comps = []
    x = t
    while True:
        if x[0] == 'proj':
            comps.append(x[2]); x = x[1]
        elif x[0] == 'elem':
            idx = x[2]; base = x[1]
            comps.reverse()
            comps = [c for c in comps if c != ('f', '#0') or True]
            # tolerate a Box deref component for HybridLoco
            tail = [c for c in comps if c[0] != 'deref']
            if idx != ('bound', 0):
                return False
            return _tail_match(tail, want_tail) and _is_loco_vec_value(base)
        elif x[0] == 'pre':
            p = x[1]
            for i, c in enumerate(p):
                if c == ('idx', ('bound', 0)):
                    return list(p[:i]) == [('obj', 1), ('f', 'loco_vec')] and _tail_match(list(p[i + 1:]), want_tail)
            return False
        else:
            return False


def _tail_match(tail, want):
    tail = [c for c in tail if c[0] != 'ptr']
    if tail == want:
        return True
    # Box<HybridLoco>: an extra '#0' chain from Box internals may appear; accept if `want` is a subsequence
    it = iter(tail)
    return all(any(c == w for c in it) for w in want)


def _is_loco_vec_value(base):
    for x in walk(base):
        if x[0] == 'loopvar' and x[2] == (('obj', 1), ('f', 'loco_vec')):
            return True
        if x[0] == 'pre' and x[1] == (('obj', 1), ('f', 'loco_vec')):
            return True
    return False


def loco_pwr_out_arms(ctx, rule):
    """Locomotive: state.pwr_out = edrv.pwr_mech_prop_out - edrv.pwr_mech_dyn_brake for the electric-drive variants (the wheel
    power a locomotive reports is what its drivetrain delivered: traction minus dynamic braking)"""
    prog = ctx.prog
    inv = inventory(ctx)
    # Locomotive: state.pwr_out = edrv.pwr_mech_prop_out - edrv.pwr_mech_dyn_brake for the electric-drive variants
    nl = 0
    for b in inv.writers('LocomotiveState', 'pwr_out'):
        if is_raw_setter(b):
            continue
        an = analysis_or_fail(ctx, rule, b)
        if an is None:
            continue
        pt = prog.typedef('PowertrainType')
        sv = StateView(an, locate(ctx, b, 'LocomotiveState') or (('f', 'state'),))
        post = sv.post('pwr_out').t
        for var in pt.variants:
            if var['name'] in ('DummyLoco',):
                continue
            if var['name'] == 'HybridLoco':
                continue
            nl += 1
            idx = var['idx']
            arm = select(post, lambda d: d[0] == 'discr', idx)
            base = (('obj', 1), ('f', 'loco_type'), ('as', var['name']), ('f', '#0'), ('f', 'edrv'), ('f', 'state'))
            mech = select(an.load(base + (('f', 'pwr_mech_prop_out'),), an.exit_state), lambda d: d[0] == 'discr', idx)
            dyn = select(an.load(base + (('f', 'pwr_mech_dyn_brake'),), an.exit_state), lambda d: d[0] == 'discr', idx)
            prove(ctx, rule, '%s|pwr_out arm %s' % (b.fid, var['name']), an, 'eq', T(arm), T(mech) - T(dyn))
    ctx.floor('locomotive pwr_out arms', nl, 2)
