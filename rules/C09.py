"""C09 — accepted steps respect ratings, transient limits, ramp and SOC-dependent limits (DESIGN §5 C09)."""
import re
from sa.svn import Engine
from sa.dsl import T, gamma, select, NOT, _t
from sa.terms import mk, ZERO, ONE, show, walk, map_term, num, FALSE, TRUE
from .common import (inventory, StateView, locate, prove, POWERTRAIN_ASSUME, guard_facts, pretty)
from .C01 import is_raw_setter

LEVEL = 'other'
MANIFEST = {
    'category': 'other',
    'engine': 'svn+structure',
    'technique': 'guard inventory on Ok paths (dominating conditions as SVN terms) + spec-term equivalence of published limits',
    'text': ('For every function that accepts a step, the limit conditions the statement lists are shown to hold on every Ok '
             'path as guard terms (condition, polarity, gate) compared with reference terms built from the rating / published-'
             'limit fields and the function\'s own inputs; the published limits themselves (engine ramp, SOC derating, '
             'generator/drivetrain chains, consist sums) are proved equal to the documented formulas and bounded by the ratings. '
             'A deleted, inverted, retargeted (other field, stale state instead of the argument) or loosened (tolerance) guard is '
             'reported. Not decided: that SOC stays inside its window after the step (numeric one-step overshoot).'),
    'note': ('Necessary and sufficient for the listed inequalities on accepted steps up to the tolerance helpers almost_le/ge/eq, '
             'whose bodies are checked separately against their documented meaning. SOC-window clause excluded (see DESIGN §5 C09). '
             'Assumes pwr_out_max_init <= pwr_out_max, dt > 0, η in (0,1].'),
}
EXPLANATION = 'Guard inventory (ensure!/bail! conditions that dominate Ok exits) as SVN terms vs reference terms; spec-term equivalence for published limits.'
RULES = ['C09-0.tolerance', 'C09-1.guard', 'C09-2.published', 'C09-3.chain', 'C09-4.bound', 'C09-5.rampbase', 'C09-6.flags']
ASSUMPTIONS = ['dt > 0', 'efficiency values in (0,1]', 'pwr_out_max_init <= pwr_out_max', 'ratings > 0']

TOL = num('0.001')
_ENG = {}


def eng(ctx):
    k = id(ctx.prog)
    if k not in _ENG:
        e = Engine(ctx.prog)
        for b in ctx.prog.bodies:
            if b.kind == 'fn' and re.match(r'^(\w+::)*almost_(eq|le|ge|lt|gt)(_uom)?$', b.fid):
                e.no_inline.add(b.fid)
        _ENG[k] = e
    return _ENG[k]


def ana(ctx, rule, body):
    an = eng(ctx).analysis(body)
    if an.exit_state is None:
        ctx.unproved(rule, body.fid, 'no reachable Ok exit', ctx.where(body))
        return None
    return an


def almost(name, a, b, tol):
    return ('uf', name.split('::')[-1], _t(a), _t(b), tol)


def has_guard(an, holds, gate=None):
    """is there a guard whose condition term equals `holds` (up to the listed equivalences) under the given gate?
    gate: None = ungated; else a list of (term, polarity) that must be exactly the guard's gate decisions."""
    holds = _t(holds)
    for g in an.guards:
        if g.kind == 'assert':
            continue
        if not _same_bool(g.holds_term(), holds):
            continue
        if gate is None:
            if not g.gate:
                return g
        else:
            want = [(_t(c), p) for c, p in gate]
            got = [(c, o not in ('0',)) for c, o in g.gate]
            if len(want) == len(got) and all(_same_bool(a[0], b[0]) and a[1] == b[1] for a, b in zip(got, want)):
                return g
    return None


def _same_bool(a, b):
    if a == b:
        return True
    # a >= b  <=>  b <= a ; a > b <=> b < a
    flip = {'ge': 'le', 'le': 'ge', 'gt': 'lt', 'lt': 'gt', 'eq': 'eq', 'ne': 'ne'}
    if a[0] in flip and b[0] == flip[a[0]] and a[1] == b[2] and a[2] == b[1]:
        return True
    if a[0] == 'gamma' and b[0] == 'gamma':
        return _same_bool(a[1], b[1]) and _same_bool(a[2], b[2]) and _same_bool(a[3], b[3])
    # γ(c, true, d)  is  c || d
    return False


def OR(a, b):
    return T(mk('gamma', _t(a), TRUE, _t(b)))


def need(ctx, an, key, what, holds, gate=None):
    g = has_guard(an, holds, gate)
    gtxt = '' if gate is None else ' [only when %s]' % ' && '.join(('' if p else '!') + show(_t(c), an.names)[:60] for c, p in gate)
    if g is not None:
        ctx.ok('C09-1.guard', key, '%s: every Ok path satisfies %s%s' % (what, show(_t(holds), an.names)[:300], gtxt), ctx.where(an.body, g.span))
        ctx.sample({'rule': 'C09-1.guard', 'key': key, 'guard': show(_t(holds), an.names)[:300], 'gate': gtxt})
        return True
    have = ['%s%s' % (show(x.holds_term(), an.names)[:160], ' [gate %d]' % len(x.gate) if x.gate else '') for x in an.guards if x.kind != 'assert'][:12]
    ctx.bad('C09-1.guard', key, '%s: no guard %s%s dominates the Ok exits. Guards present: %s' % (what, show(_t(holds), an.names)[:300], gtxt, have),
            ctx.where(an.body))
    return False


def arg(an, name):
    return T(an.arg(name))


def run(ctx):
    prog = ctx.prog
    inv = inventory(ctx)
    n = 0
    tolerance_helpers(ctx)
    # limits are enforced only under `assert_limits`: the flag must reach every component unchanged
    from .common import flag_provenance
    flag_provenance(ctx, 'C09-6.flags', 'assert_limits', floor=5)
    # the limits a step is held to are the ones published IN that step: auxiliary load, then limits, then the solve
    from .common import step_protocol
    for root in ('LocomotiveSimulation::solve_step', 'ConsistSimulation::solve_step', 'SetSpeedTrainSim::solve_step', 'SpeedLimitTrainSim::solve_step'):
        step_protocol(ctx, 'C09-2.published', root, [('set_pwr_aux', 'set_cur_pwr_max_out'), ('set_cur_pwr_max_out', 'solve_energy_consumption')])
    # ------------------------------------------------------------------ FuelConverter
    for b in inv.writers('FuelConverterState', 'pwr_brake'):
        if is_raw_setter(b): continue
        an = ana(ctx, 'C09-1.guard', b)
        if an is None: continue
        n += 1
        sv = StateView(an, locate(ctx, b, 'FuelConverterState') or (('f', 'state'),))
        req = sv.post('pwr_brake')           # the accepted shaft power
        rating = T(('pre', (('obj', 1), ('f', 'pwr_out_max'))))
        al = T(an.arg('assert_limits'))
        k = b.fid + '|FuelConverter'
        need(ctx, an, k + '.req<=rating', 'engine shaft power within rating', almost('utils::almost_le_uom', req, rating, ('some', TOL)), gate=[(al, True)])
        need(ctx, an, k + '.req<=transient', 'engine shaft power within published transient limit',
             almost('utils::almost_le_uom', req, sv.pre('pwr_out_max'), ('some', TOL)), gate=[(al, True)])
        need(ctx, an, k + '.req>=0', 'engine shaft power non-negative', req.ge(0))
        # the value recorded as "previous shaft power" (the base the next transient limit ramps from, C09-2) is stored only
        # after it has passed the rating / transient / sign tests: a demand rejected by them must not become the ramp base
        gs = [has_guard(an, almost('utils::almost_le_uom', req, rating, ('some', TOL)), gate=[(al, True)]),
              has_guard(an, almost('utils::almost_le_uom', req, sv.pre('pwr_out_max'), ('some', TOL)), gate=[(al, True)]),
              has_guard(an, req.ge(0))]
        stores = [(bb, span) for bb, path, val, span in an.stores_log if path == sv.path('pwr_brake')]
        cfg = inv.cfg(b)
        early = [bb for bb, span in stores for g in gs if g is not None and g.block in cfg._reach_from(bb) and g.block != bb]
        ctx.check(bool(stores) and all(g is not None for g in gs) and not early, 'C09-5.rampbase', k + '.pwr_brake',
                  'the shaft power is recorded (as the base of the next transient limit) only after the rating, transient-limit and sign tests',
                  'state.pwr_brake is stored in %s, before a limit test can still reject the demand' % sorted(set(early)), ctx.where(b, stores[0][1] if stores else None))
    # ------------------------------------------------------------------ Generator
    for b in inv.writers('GeneratorState', 'pwr_elec_prop_out'):
        if is_raw_setter(b): continue
        an = ana(ctx, 'C09-1.guard', b)
        if an is None: continue
        n += 1
        sv = StateView(an, locate(ctx, b, 'GeneratorState') or (('f', 'state'),))
        prop, aux = sv.post('pwr_elec_prop_out'), sv.post('pwr_elec_aux')
        rating = T(('pre', (('obj', 1), ('f', 'pwr_out_max'))))
        k = b.fid + '|Generator'
        need(ctx, an, k + '.prop>=0', 'generator cannot regenerate', prop.ge(0))
        need(ctx, an, k + '.prop+aux<=rating', 'generator output within rating', (prop + aux).le(rating))
    # ------------------------------------------------------------------ ElectricDrivetrain
    for b in inv.writers('ElectricDrivetrainState', 'pwr_out_req'):
        if is_raw_setter(b): continue
        an = ana(ctx, 'C09-1.guard', b)
        if an is None: continue
        n += 1
        sv = StateView(an, locate(ctx, b, 'ElectricDrivetrainState') or (('f', 'state'),))
        req = sv.post('pwr_out_req')
        rating = T(('pre', (('obj', 1), ('f', 'pwr_out_max'))))
        k = b.fid + '|ElectricDrivetrain'
        need(ctx, an, k + '.|req|<=rating', 'drivetrain power within rating in both directions', req.abs().le(rating))
        # the part of a braking request that is regenerated is clamped at the published (mechanical) regeneration limit; the rest is
        # dynamic braking — never more regeneration than was published, whatever the efficiency
        prove(ctx, 'C09-4.bound', k + '.regen<=published', an, 'le', -sv.post('pwr_mech_prop_out'), sv.pre('pwr_mech_regen_max'),
              facts=[sv.pre('pwr_mech_regen_max').ge(0)], assume=POWERTRAIN_ASSUME, note='-pwr_mech_prop_out <= pwr_mech_regen_max')
        prove(ctx, 'C09-4.bound', k + '.regen clamp', an, 'eq', sv.post('pwr_mech_prop_out'), T(an.arg('pwr_out_req')).max(-sv.pre('pwr_mech_regen_max')),
              assume=POWERTRAIN_ASSUME, note='pwr_mech_prop_out = max(request, -published regeneration limit)')
    for b in inv.writers('ElectricDrivetrainState', 'pwr_mech_regen_max'):
        if is_raw_setter(b): continue
        an = ana(ctx, 'C09-1.guard', b)
        if an is None: continue
        sv = StateView(an, locate(ctx, b, 'ElectricDrivetrainState') or (('f', 'state'),))
        need(ctx, an, b.fid + '|ElectricDrivetrain.regen_max>=0', 'published regeneration limit non-negative', sv.post('pwr_mech_regen_max').ge(0))
    # ------------------------------------------------------------------ ReversibleEnergyStorage
    for b in inv.writers('ReversibleEnergyStorageState', 'pwr_out_electrical'):
        if is_raw_setter(b): continue
        an = ana(ctx, 'C09-1.guard', b)
        if an is None: continue
        n += 1
        sv = StateView(an, locate(ctx, b, 'ReversibleEnergyStorageState') or (('f', 'state'),))
        elec = sv.post('pwr_out_electrical'); prop = sv.post('pwr_out_propulsion')
        rating = T(('pre', (('obj', 1), ('f', 'pwr_out_max'))))
        k = b.fid + '|ReversibleEnergyStorage'
        dis = [(elec.ge(0), True)]
        chg = [(elec.ge(0), False)]
        need(ctx, an, k + '.discharge<=rating', 'battery discharge power within rating', almost('utils::almost_le_uom', elec, rating, ('some', TOL)), gate=dis)
        need(ctx, an, k + '.discharge<=soc limit', 'battery discharge power within published SOC-dependent limit',
             almost('utils::almost_le_uom', elec, sv.pre('pwr_disch_max'), ('some', TOL)), gate=dis)
        need(ctx, an, k + '.charge<=rating', 'battery charge power within rating', almost('utils::almost_ge_uom', elec, -rating, ('some', TOL)), gate=chg)
        need(ctx, an, k + '.charge<=soc limit', 'battery charge power within published SOC-dependent limit',
             almost('utils::almost_ge_uom', elec, -sv.pre('pwr_charge_max'), ('some', TOL)), gate=chg)
        need(ctx, an, k + '.no charge above max soc', 'no charging above max SOC', OR(sv.pre('soc').le(sv.pre('max_soc')), prop.ge(0)))
        need(ctx, an, k + '.no discharge below min soc', 'no discharging below min SOC', OR(sv.pre('soc').ge(sv.pre('min_soc')), prop.le(0)))
    # ------------------------------------------------------------------ Consist
    for b in inv.writers('ConsistState', 'pwr_out_req'):
        if is_raw_setter(b): continue
        an = ana(ctx, 'C09-1.guard', b)
        if an is None: continue
        n += 1
        sv = StateView(an, locate(ctx, b, 'ConsistState') or (('f', 'state'),))
        req = sv.post('pwr_out_req')
        al = T(('pre', (('obj', 1), ('f', 'assert_limits'))))
        k = b.fid + '|Consist'
        need(ctx, an, k + '.braking<=dyn brake max', 'braking demand within dynamic-brake capability', (-req).le(sv.pre('pwr_dyn_brake_max')), gate=[(al, True)])
        need(ctx, an, k + '.traction<=published', 'tractive demand within the published consist limit', req.le(sv.pre('pwr_out_max')), gate=[(al, True)])
    # ------------------------------------------------------------------ LocomotiveSimulation: achieved == requested
    for b in [x for x in [prog.by_id.get('LocomotiveSimulation::solve_step')] if x is not None]:
        an = ana(ctx, 'C09-1.guard', b)
        if an is None: continue
        n += 1
        found = None
        for g in an.guards:
            h = g.holds_term()
            if h[0] == 'uf' and h[1].split('::')[-1] == 'almost_eq_uom' and g.kind != 'assert':
                found = (g, h)
        if found is None:
            ctx.bad('C09-1.guard', b.fid + '|achieved=requested', 'no almost_eq(requested power, achieved power) guard on the Ok path', ctx.where(b))
        else:
            g, h = found
            a1, a2 = h[2], h[3]
            s1, s2 = show(a1, an.names), show(a2, an.names)
            ok = ('power_trace.pwr' in s1 and 'loco_unit' in s2 and 'pwr_out' in s2) or ('power_trace.pwr' in s2 and 'loco_unit' in s1 and 'pwr_out' in s1)
            ctx.check(ok, 'C09-1.guard', b.fid + '|achieved=requested', 'almost_eq(trace power, locomotive pwr_out) holds on every Ok path',
                      'almost_eq compares %s with %s' % (s1[:120], s2[:120]), ctx.where(b, g.span))
    ctx.floor('step-accepting functions with guard tables', n, 6)
    published(ctx)
    chains(ctx)


def tolerance_helpers(ctx):
    """almost_le(a,b,ε) == a < b(1+ε) || a < b+ε ; almost_ge mirrored; almost_eq relative-or-absolute, default ε = 1e-8"""
    from sa.svn import Engine
    e = Engine(ctx.prog)
    e.no_inline = set()
    specs = {
        'utils::almost_le': lambda a, b, eps: OR(a.lt(b * (1 + eps)), a.lt(b + eps)),
        'utils::almost_ge': lambda a, b, eps: OR(a.gt(b * (1 - eps)), a.gt(b - eps)),
    }
    for fid, spec in specs.items():
        b = ctx.prog.find_fn(fid)
        if b is None:
            ctx.unproved('C09-0.tolerance', fid, 'anchor function not found'); continue
        an = e.analysis(b)
        if an.exit_state is None:
            ctx.unproved('C09-0.tolerance', fid, 'no exit'); continue
        a = T(('pre', (('val', 1),))); bb = T(('pre', (('val', 2),)))
        eps = T(('uf', 'unwrap_or', ('pre', (('val', 3),)), num('1e-8')))
        want = spec(a, bb, eps).t
        got = an.ret()
        ctx.check(_same_bool(got, want), 'C09-0.tolerance', fid, 'body is %s' % show(want, an.names)[:200],
                  'body is %s, expected %s' % (show(got, an.names)[:300], show(want, an.names)[:300]), ctx.where(b))
    for fid in ('utils::almost_le_uom', 'utils::almost_ge_uom', 'utils::almost_eq_uom'):
        b = ctx.prog.find_fn(fid)
        if b is None:
            ctx.unproved('C09-0.tolerance', fid, 'anchor function not found'); continue
        an = e.analysis(b)
        base = fid.replace('_uom', '')
        # the uom wrapper forwards (a.value, b.value, tol) to the f64 helper: after inlining its term equals the helper's
        hb = ctx.prog.find_fn(base)
        if hb is None or an.exit_state is None:
            ctx.unproved('C09-0.tolerance', fid, 'helper not found'); continue
        ha = e.analysis(hb)

        def sub(x):
            if x[0] == 'pre' and x[1][0][0] == 'val' and x[1][0][1] in (1, 2):
                return ('pre', (('obj', x[1][0][1]),) + x[1][1:])
            return x
        want = map_term(ha.ret(), sub)
        ctx.check(an.ret() == want, 'C09-0.tolerance', fid, 'wrapper forwards both values and the tolerance to ' + base,
                  'wrapper term %s differs from helper term %s' % (show(an.ret())[:200], show(want)[:200]), ctx.where(b))


def published(ctx):
    prog = ctx.prog
    inv = inventory(ctx)
    A = POWERTRAIN_ASSUME + [(r'pwr_out_max_init$', 'nonneg')]
    # FC: ramp-limited transient limit
    n = 0
    for b in inv.writers('FuelConverterState', 'pwr_out_max'):
        if is_raw_setter(b): continue
        an = ana(ctx, 'C09-2.published', b)
        if an is None: continue
        n += 1
        sv = StateView(an, locate(ctx, b, 'FuelConverterState') or (('f', 'state'),))
        P = lambda f: T(('pre', (('obj', 1), ('f', f))))
        dt = None
        for pn, ty in b.params:
            if ty.strip() == 'Time':
                dt = T(('pre', (('val', pn),)))
        if dt is None:
            ctx.unproved('C09-2.published', b.fid, 'no Time parameter', ctx.where(b)); continue
        rating, lag, init = P('pwr_out_max'), P('pwr_ramp_lag'), P('pwr_out_max_init')
        floor = init.max(rating / 10)
        ref = (sv.pre('pwr_brake') + (rating / lag) * dt).min(rating).max(floor)
        k = b.fid + '|FuelConverterState.pwr_out_max'
        prove(ctx, 'C09-2.published', k, an, 'eq', sv.post('pwr_out_max'), ref, assume=A,
              note='transient limit = max(min(prev shaft power + rating/lag·dt, rating), max(init, rating/10))')
        need(ctx, an, b.fid + '|dt>0', 'time step positive', dt.gt(0))
        # never above rating (given init <= rating), never more than ramp·dt above the previous shaft power modulo the floor
        prove(ctx, 'C09-4.bound', k + '<=rating', an, 'le', sv.post('pwr_out_max'), rating, facts=[init.le(rating), dt.gt(0)], assume=A)
        prove(ctx, 'C09-4.bound', k + '<=ramp', an, 'le', sv.post('pwr_out_max'), (sv.pre('pwr_brake') + (rating / lag) * dt).max(floor),
              facts=[dt.gt(0)], assume=A)
    # RES: SOC-dependent limits
    for b in inv.writers('ReversibleEnergyStorageState', 'pwr_disch_max'):
        if is_raw_setter(b): continue
        an = ana(ctx, 'C09-2.published', b)
        if an is None: continue
        n += 1
        sv = StateView(an, locate(ctx, b, 'ReversibleEnergyStorageState') or (('f', 'state'),))
        P = lambda f: T(('pre', (('obj', 1), ('f', f))))
        rating = P('pwr_out_max')
        k = b.fid + '|ReversibleEnergyStorageState'
        soc = sv.pre('soc')
        dis = sv.post('pwr_disch_max').t
        chg = sv.post('pwr_charge_max').t
        okd = _is_interp(dis, soc.t, [sv.post('min_soc').t, sv.post('soc_lo_ramp_start').t], [ZERO, rating.t])
        okc = _is_interp(chg, soc.t, [sv.post('soc_hi_ramp_start').t, sv.post('max_soc').t], [rating.t, ZERO])
        ctx.check(okd, 'C09-2.published', k + '.pwr_disch_max', 'discharge limit = interp1d(soc, [min_soc, lo_ramp_start], [0, rating], no extrapolation)',
                  'discharge limit is %s' % show(dis, an.names)[:400], ctx.where(b))
        ctx.check(okc, 'C09-2.published', k + '.pwr_charge_max', 'charge limit = interp1d(soc, [hi_ramp_start, max_soc], [rating, 0], no extrapolation)',
                  'charge limit is %s' % show(chg, an.names)[:400], ctx.where(b))
        # the two derating ramps are siblings: when the ramp starts are not configured, both default to the same distance from
        # their end of the window (a ramp that is much steeper at one end lets one accepted step run through that end)
        widths = {}
        for bb, path, val, span in an.stores_log:
            if len(path) == 2 and path[0] == ('obj', 1) and path[1] in (('f', 'soc_lo_ramp_start'), ('f', 'soc_hi_ramp_start')) and val[0] == 'some':
                e = val[1]
                end = ('pre', (('obj', 1), ('f', 'min_soc' if 'lo' in path[1][1] else 'max_soc')))
                w_ = None
                if e[0] in ('add', 'sub') and len(e) == 3 and end in e[1:]:
                    oth = e[2] if e[1] == end else e[1]
                    if oth[0] == 'num':
                        w_ = abs(oth[1]) if e[0] == 'sub' or oth[1] >= 0 else abs(oth[1])
                        inward = (e[0] == 'add' and oth[1] > 0) == ('lo' in path[1][1]) if e[0] == 'add' else ('hi' in path[1][1] and e[1] == end and oth[1] > 0)
                        if not inward:
                            w_ = None
                widths[path[1][1]] = (w_, show(e, an.names)[:80], span)
        if widths:
            lo, hi = widths.get('soc_lo_ramp_start'), widths.get('soc_hi_ramp_start')
            okw = lo is not None and hi is not None and lo[0] is not None and lo[0] == hi[0]
            ctx.check(okw, 'C09-2.published', k + '.default ramps', 'unconfigured ramp starts default to the same distance inside the window at both ends (%s)' % (lo[0] if lo else None),
                      'default ramp starts: low end %s, high end %s' % (lo[1] if lo else None, hi[1] if hi else None), ctx.where(b, (lo or hi)[2]))
        try:
            aux = T(an.arg('pwr_aux'))
            prove(ctx, 'C09-2.published', k + '.pwr_prop_out_max', an, 'eq', sv.post('pwr_prop_out_max'), sv.post('pwr_disch_max') - aux, assume=A)
            prove(ctx, 'C09-2.published', k + '.pwr_regen_out_max', an, 'eq', sv.post('pwr_regen_out_max'), sv.post('pwr_charge_max') + aux, assume=A)
        except KeyError:
            ctx.unproved('C09-2.published', k, 'no pwr_aux parameter', ctx.where(b))
        # unbuffered SOC marks (what the battery-electric unit uses): None buffers leave the configured window
        none = ('none',)

        def nobuf(t):
            def f(x):
                if x[0] == 'pre' and x[1][0] == ('val', 3) or x[0] == 'pre' and x[1][0] == ('val', 4):
                    return none
                return x
            t = map_term(t, f)
            for _ in range(3):
                t = map_term(t, lambda x: an.resimplify(x, an.exit_state) if x[0] != 'uf' or x[1] != 'unwrap_or' else
                             (x[2][1] if x[2][0] in ('some',) else (x[3] if x[2][0] == 'none' else x)))
            return t
        mn = nobuf(sv.post('min_soc').t); mx = nobuf(sv.post('max_soc').t)
        prove(ctx, 'C09-2.published', k + '.min_soc(no buffer)', an, 'eq', T(mn), P('min_soc').min(P('max_soc')), assume=A)
        prove(ctx, 'C09-2.published', k + '.max_soc(no buffer)', an, 'eq', T(mx), P('max_soc').max(P('min_soc')), assume=A)
    # generator / drivetrain: min(in_max·η, rating) (− aux)
    for ty, fld, auxsub in (('GeneratorState', 'pwr_elec_out_max', False), ('ElectricDrivetrainState', 'pwr_mech_out_max', False),
                            ('ElectricDrivetrainState', 'pwr_mech_regen_max', False)):
        for b in inv.writers(ty, fld):
            if is_raw_setter(b): continue
            an = ana(ctx, 'C09-2.published', b)
            if an is None: continue
            n += 1
            sv = StateView(an, locate(ctx, b, ty) or (('f', 'state'),))
            rating = T(('pre', (('obj', 1), ('f', 'pwr_out_max'))))
            pin = None
            if len(b.params) >= 2:
                # the limit on the input side is the function's first argument after self, whatever it is called
                pin = T(('pre', (('val', b.params[1][0]),)))
            if pin is None:
                ctx.unproved('C09-2.published', b.fid, 'no input-limit parameter', ctx.where(b)); continue
            post = sv.post(fld).t
            eta = _find_eta(post)
            k = '%s|%s.%s' % (b.fid, ty, fld)
            if eta is None:
                ctx.unproved('C09-2.published', k, 'no interp1d efficiency in %s' % show(post, an.names)[:300], ctx.where(b)); continue
            prove(ctx, 'C09-2.published', k, an, 'eq', T(post), (pin * T(eta)).min(rating), assume=A, note='limit = min(in_max·η, rating)')
            prove(ctx, 'C09-4.bound', k + '<=rating', an, 'le', T(post), rating, assume=A)
            ex = eta
            okx = ex[0] == 'uf' and ex[1] == 'unwrap' and ex[2][0] == 'uf' and ex[2][1] == 'utils::interp1d' and ex[2][-1] == FALSE
            ctx.check(okx, 'C09-2.published', k + '.eta', 'efficiency from interp1d without extrapolation', 'efficiency term is %s' % show(ex, an.names)[:200], ctx.where(b))
            if ty == 'GeneratorState':
                aux = an.arg('pwr_aux')
                prove(ctx, 'C09-2.published', k.replace(fld, 'pwr_elec_prop_out_max'), an, 'eq', sv.post('pwr_elec_prop_out_max'),
                      T(post) - T(('uf', 'unwrap', aux)), assume=A, note='propulsion limit = output limit − aux')
    ctx.floor('published-limit writers', n, 4)


def _find_eta(t):
    for x in walk(t):
        if x[0] == 'uf' and x[1] == 'unwrap' and x[2][0] == 'uf' and x[2][1] == 'utils::interp1d':
            return x
    return None


def _is_interp(t, x, xs, ys):
    """t == unwrap(interp1d(x, [xs..], [ys..], false)) (the W·/get::<watt> factors are 1)"""
    if t[0] != 'uf' or t[1] != 'unwrap':
        return False
    c = t[2]
    if c[0] != 'uf' or c[1] != 'utils::interp1d' or len(c) != 6:
        return False
    return c[2] == x and c[3] == ('array',) + tuple(xs) and c[4] == ('array',) + tuple(ys) and c[5] == FALSE


def chains(ctx):
    """limit chains fc -> gen -> edrv and res -> edrv; Locomotive copies the drivetrain limits; consist sums"""
    prog = ctx.prog
    inv = inventory(ctx)
    n = 0

    def arg_of_call(an, callee_pat, argi):
        out = []
        for c in an.calls:
            if c.targets and any(re.search(callee_pat, t) for t in c.targets):
                out.append((c, c.argvals[argi] if argi < len(c.argvals) else None))
        return out
    for fid, typ in (('<ConventionalLoco as LocoTrait>::set_cur_pwr_max_out', 'conv'), ('<BatteryElectricLoco as LocoTrait>::set_cur_pwr_max_out', 'bel')):
        b = ctx.anchor('C09-3.chain', fid)
        if b is None: continue
        an = ana(ctx, 'C09-3.chain', b)
        if an is None: continue
        n += 1
        if typ == 'conv':
            # the generator is given the engine's just-published transient limit; the drivetrain the generator's propulsion limit
            gen = arg_of_call(an, r'<Generator as ElectricMachine>::set_cur_pwr_max_out', 1)
            ed = arg_of_call(an, r'<ElectricDrivetrain as ElectricMachine>::set_cur_pwr_max_out', 1)
            fcp = an.load((('obj', 1), ('f', 'fc'), ('f', 'state'), ('f', 'pwr_out_max')), an.exit_state)
            genp = an.load((('obj', 1), ('f', 'gen'), ('f', 'state'), ('f', 'pwr_elec_prop_out_max')), an.exit_state)
            ctx.check(len(gen) == 1 and gen[0][1] == fcp, 'C09-3.chain', fid + '|fc->gen', 'generator input limit is the engine limit published in this call',
                      'generator receives %s' % [show(x[1], an.names)[:200] for x in gen], ctx.where(b))
            ctx.check(len(ed) == 1 and ed[0][1] == genp, 'C09-3.chain', fid + '|gen->edrv', 'drivetrain input limit is the generator propulsion limit published in this call',
                      'drivetrain receives %s' % [show(x[1], an.names)[:200] for x in ed], ctx.where(b))
            # order: fc limit first (its value is what the generator sees)
            fcw = [c for c in an.calls if c.targets and 'FuelConverter::set_cur_pwr_out_max' in c.targets]
            ctx.check(len(fcw) == 1, 'C09-3.chain', fid + '|fc published', 'engine limit is published exactly once per call', 'calls: %d' % len(fcw), ctx.where(b))
        else:
            ed = arg_of_call(an, r'<ElectricDrivetrain as ElectricMachine>::set_cur_pwr_max_out', 1)
            rg = arg_of_call(an, r'ElectricDrivetrain::set_cur_pwr_regen_max', 1)
            pp = an.load((('obj', 1), ('f', 'res'), ('f', 'state'), ('f', 'pwr_prop_out_max')), an.exit_state)
            rr = an.load((('obj', 1), ('f', 'res'), ('f', 'state'), ('f', 'pwr_regen_out_max')), an.exit_state)
            ctx.check(len(ed) == 1 and ed[0][1] == pp, 'C09-3.chain', fid + '|res->edrv', 'drivetrain input limit is the battery propulsion limit published in this call',
                      'drivetrain receives %s' % [show(x[1], an.names)[:200] for x in ed], ctx.where(b))
            ctx.check(len(rg) == 1 and rg[0][1] == rr, 'C09-3.chain', fid + '|res->edrv regen', 'drivetrain regeneration limit is the battery regeneration limit published in this call',
                      'regen receives %s' % [show(x[1], an.names)[:200] for x in rg], ctx.where(b))
            bufs = arg_of_call(an, r'ReversibleEnergyStorage::set_cur_pwr_out_max', 2) + arg_of_call(an, r'ReversibleEnergyStorage::set_cur_pwr_out_max', 3)
            ctx.check(bool(bufs) and all(x[1] == ('none',) for x in bufs), 'C09-3.chain', fid + '|no buffers', 'battery-electric unit passes no SOC buffers',
                      'buffers: %s' % [show(x[1])[:60] for x in bufs], ctx.where(b))
    # Locomotive: state limits are the drivetrain's (per electric-drive arm)
    pt = prog.typedef('PowertrainType')
    for b in inv.writers('LocomotiveState', 'pwr_out_max'):
        if is_raw_setter(b): continue
        an = ana(ctx, 'C09-3.chain', b)
        if an is None: continue
        if locate(ctx, b, 'LocomotiveState') == ():
            # helper taking the state directly: copies the three limits from the drivetrain passed next to it
            n += 1
            for fld, src in (('pwr_out_max', 'pwr_mech_out_max'), ('pwr_regen_max', 'pwr_mech_regen_max'), ('pwr_rate_out_max', 'pwr_rate_out_max')):
                post = an.load((('obj', 1), ('f', fld)), an.exit_state)
                want = ('pre', (('obj', 2), ('f', 'state'), ('f', src)))
                ctx.check(post == want, 'C09-3.chain', '%s|%s' % (b.fid, fld), 'locomotive %s is the drivetrain\'s published %s' % (fld, src),
                          'locomotive %s is %s' % (fld, show(post, an.names)[:200]), ctx.where(b))
            continue
        n += 1
        post = an.load((('obj', 1), ('f', 'state'), ('f', 'pwr_out_max')), an.exit_state)
        for var in pt.variants:
            if var['name'] in ('DummyLoco', 'HybridLoco'):
                continue
            arm = select(post, lambda d: d[0] == 'discr', var['idx'])
            base = (('obj', 1), ('f', 'loco_type'), ('as', var['name']), ('f', '#0'), ('f', 'edrv'), ('f', 'state'), ('f', 'pwr_mech_out_max'))
            want = select(an.load(base, an.exit_state), lambda d: d[0] == 'discr', var['idx'])
            ctx.check(arm == want, 'C09-3.chain', '%s|loco limit arm %s' % (b.fid, var['name']),
                      'locomotive traction limit is that unit\'s drivetrain limit published in this call',
                      'arm is %s, drivetrain limit is %s' % (show(arm, an.names)[:200], show(want, an.names)[:200]), ctx.where(b))
    # Consist: limits are Σ over units
    for b in inv.writers('ConsistState', 'pwr_out_max'):
        if is_raw_setter(b): continue
        an = ana(ctx, 'C09-3.chain', b)
        if an is None: continue
        n += 1
        sv = StateView(an, locate(ctx, b, 'ConsistState') or (('f', 'state'),))
        from .C20 import fold_parts, item_root, whole
        for fld, unit in (('pwr_out_max', 'pwr_out_max'), ('pwr_regen_max', 'pwr_regen_max'), ('pwr_rate_out_max', 'pwr_rate_out_max')):
            t = sv.post(fld).t
            ok = _is_fold_sum(t, unit)
            why = ''
            if ok:
                fp, why = fold_parts(ctx, t)
                ok = fp is not None
                if ok:
                    srcs, init, cb, ca, c = fp
                    ok = whole(srcs, (('obj', 1), ('f', 'loco_vec'))) and init == ZERO and c[0] == 'pre' and item_root(c[1]) and c[1][1:] == (('f', 'state'), ('f', unit))
                    why = 'each unit contributes %s' % show(c, ca.names)[:120]
            ctx.check(ok, 'C09-3.chain', '%s|Σ %s' % (b.fid, fld), 'consist %s is the sum over loco_vec of loco.state.%s' % (fld, unit),
                      'consist %s is %s%s' % (fld, show(t, an.names)[:200], (' — ' + why) if why else ''), ctx.where(b))
        # what the battery-equipped units can deliver on their own: per powertrain type
        t = sv.post('pwr_out_max_reves').t
        okr = False
        txt = show(t, an.names)[:300]
        if t[0] == 'Sum' and t[1][0] == 'seq' and [tuple(x) for x in t[1][1]] == [('slice', (('obj', 1), ('f', 'loco_vec')))]:
            item = t[1][2]
            pt = ctx.prog.typedef('PowertrainType')
            vidx = {v['name']: v['idx'] for v in pt.variants}
            from sa.dsl import select as _sel
            arms = {v: _sel(item, lambda d: d[0] == 'discr', i_) for v, i_ in vidx.items()}
            def is_unit_max(x):
                if x[0] == 'pre':
                    return x[1][-2:] == (('f', 'state'), ('f', 'pwr_out_max')) and ('f', 'loco_vec') in x[1]
                return x[0] == 'proj' and x[2] == ('f', 'pwr_out_max') and x[1][0] == 'proj' and x[1][2] == ('f', 'state') and x[1][1][0] == 'elem' \
                    and "('f', 'loco_vec')" in repr(x[1][1][1]) and x[1][1][2][0] == 'bound'
            okr = arms.get('ConventionalLoco') == ZERO and is_unit_max(arms.get('HybridLoco', ZERO)) and is_unit_max(arms.get('BatteryElectricLoco', ZERO))
            txt = {v: show(a, an.names)[:60] for v, a in arms.items()}
        ctx.check(okr, 'C09-3.chain', '%s|Σ pwr_out_max_reves' % b.fid, 'battery capability of the consist = Σ over every unit of: 0 for a conventional unit, the unit\'s published limit for hybrid and battery-electric units',
                  'pwr_out_max_reves is %s' % (txt,), ctx.where(b))
        prove(ctx, 'C09-3.chain', b.fid + '|non_reves', an, 'eq', sv.post('pwr_out_max_non_reves'), sv.post('pwr_out_max') - sv.post('pwr_out_max_reves'), assume=[])
    ctx.floor('limit chain functions', n, 4)


def _is_fold_sum(t, unit):
    """iter.fold(seq[slice(self.loco_vec) | k -> <elem k>], 0, closure acc + loco.state.<unit>)"""
    if t[0] != 'uf' or t[1] != 'iter.fold' or len(t) < 5:
        return False
    seq, init, clos = t[2], t[3], t[4]
    if init != ZERO or seq[0] != 'seq':
        return False
    if [s[0] for s in seq[1]] != ['slice'] or seq[1][0][1][-1] != ('f', 'loco_vec'):
        return False
    return clos[0] == 'closure'
