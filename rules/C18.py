"""C18 — determinism and schedule independence (DESIGN §5 C18): effect inventories over the whole crate."""
import re, collections
from sa.program import strip_generics
from sa.cfg import CFG
from .common import engine, inventory

LEVEL = 'other'
MANIFEST = {
    'category': 'other',
    'engine': 'structure',
    'technique': 'effect analysis over resolved call sites: hash-order iteration inventory with classified consumers, ambient-nondeterminism / statics inventory, sibling agreement of the parallel and serial closures',
    'text': ('Every iteration over a std hash container with the default (randomly seeded) hasher anywhere in the non-test crate is '
             'enumerated and must be one of the reviewed sites whose consumer is order-insensitive (key-equality find, commutative '
             'integer fold, collection into another hash set, emptiness test, or text on an error path); no call to clocks, '
             'environment, randomness, thread identity, temp files or process state exists in non-test code; there is no static '
             'mutable / interior-mutable / thread-local state; the closure run per element by the parallel batch walk performs the '
             'same call sequence as the serial one (modulo logging), captures nothing and touches only its own element. A new '
             'iteration site, ambient call, static or closure difference is reported with its function.'),
    'note': ('Rust\'s Send/Sync typing already excludes data races; these facts add value-level independence. Not decided: which '
             'elements have been advanced when one element fails under try_for_each short-circuiting (schedule-dependent by '
             'construction; the failing element\'s error is reported, the others\' inputs are untouched), and platform floating-point '
             'determinism. Containers keyed by NoHashHasher (IntSet / IntMap) iterate in a seed-independent order and are listed.'),
}
EXPLANATION = 'Whole-crate inventories (hash iteration, ambient state, statics) + closure sibling comparison for the rayon batch walk.'
RULES = ['C18-1.hashorder', 'C18-2.ambient', 'C18-3.statics', 'C18-4.parallel']
ASSUMPTIONS = ['IEEE-754 operations are deterministic on the platform', 'rayon delivers each element to the closure exactly once']

ITER_METHODS = {'iter', 'iter_mut', 'keys', 'values', 'values_mut', 'into_iter', 'drain', 'difference', 'union', 'intersection',
                'into_keys', 'into_values', 'retain', 'symmetric_difference', 'extract_if'}
HASH = re.compile(r'\b(HashMap|HashSet|hash_map|hash_set)\b')

# reviewed sites: (function id, method) -> (count, consumer class, reason).  Confirmed by reading; DESIGN §5 C18-1.
REVIEWED = {
    ('LocoParams::from_hash', 'keys'): (1, 'diagnostic', 'argument of the error text of the failing ensure!; block cannot reach an Ok exit'),
    ('<HashMap<TrainType,SpeedSet> as ObjState>::validate', 'values'): (1, 'validation-order',
        'collected into a Vec that is only validated element by element; order affects the order of error messages only'),
    ('extract_speed_set', 'iter'): (1, 'key-equality-find', 'find(|(k, _)| k == train_type): at most one key is equal, the result does not depend on order'),
    ('extract_speed_set::{closure#1}', 'keys'): (1, 'diagnostic', 'closure passed to with_context: runs on the error path only, feeds the message'),
    ('TrainConfig::cars_total', 'values'): (1, 'commutative-integer-fold', 'fold(0, |acc, n| *n + acc) over u32 counts: exact and commutative'),
    ('TrainSimBuilder::check_rv_keys', 'keys'): (1, 'collect-into-hash-set', 'keys().cloned() collected into a HashSet'),
    ('TrainSimBuilder::check_rv_keys', 'difference'): (2, 'emptiness+diagnostic', 'collected into a Vec used for is_empty() and, on the error path, for the message'),
    ('TrainSimBuilder::make_speed_limit_train_sim::{closure#1}', 'keys'): (1, 'diagnostic', 'with_context closure (error path only)'),
    ('TrainSimBuilder::make_speed_limit_train_sim::{closure#2}', 'keys'): (1, 'diagnostic', 'with_context closure (error path only)'),
    ('TrainSimBuilder::make_speed_limit_train_sim_and_parts::{closure#1}', 'keys'): (1, 'diagnostic', 'with_context closure (error path only)'),
    ('TrainSimBuilder::make_speed_limit_train_sim_and_parts::{closure#2}', 'keys'): (1, 'diagnostic', 'with_context closure (error path only)'),
}

AMBIENT = re.compile(r'(\bstd::time\b|\bInstant\b|\bSystemTime\b|\bstd::env\b|\brand::|\bgetrandom\b|thread::current|thread_rng|RandomState::new|'
                     r'\btempfile\b|project_root|\bstd::process\b|available_parallelism|ThreadId|num_cpus|\bas usize \(PointerExposeProvenance\))')


def hash_sites(prog):
    out = collections.defaultdict(list)
    nohash = []
    for b in prog.bodies:
        if b.kind != 'fn' or b.test:
            continue
        if re.search(r'derive\((Serialize|Deserialize|Debug|Clone|PartialEq)\)', b.fid or ''):
            continue
        for bn in b.order:
            t = b.blocks[bn].term
            if t.kind != 'call' or not HASH.search(t.callee):
                continue
            last = strip_generics(t.callee).split('::')[-1]
            if last not in ITER_METHODS:
                # implicit iteration: a randomly seeded hash container handed, as the generic argument, to an order-preserving
                # consumer (`vec.extend(hash_set)`, `Vec::from_iter(hash_map)`, `iter.chain(hash_set)`): the into_iter() happens inside std
                m_ = re.search(r'::(extend|from_iter|chain|zip|extend_one)::<(.*)>$', t.callee)
                if m_ and HASH.search(m_.group(2)) and 'NoHashHasher' not in m_.group(2) and 'BuildHasherDefault' not in m_.group(2):
                    self_ty = t.callee[:t.callee.rfind('::' + m_.group(1) + '::<')]
                    self_head = re.sub(r'^<', '', self_ty).split(' as ')[0]
                    if not HASH.search(self_head.split('<')[0]):
                        out[(b.fid, 'implicit ' + m_.group(1))].append((b, bn, t))
                continue
            if 'NoHashHasher' in t.callee or 'BuildHasherDefault' in t.callee:
                nohash.append((b, bn, last, t))
                continue
            out[(b.fid, last)].append((b, bn, t))
    return out, nohash


def run(ctx):
    prog = ctx.prog
    sites, nohash = hash_sites(prog)
    total = sum(len(v) for v in sites.values())
    ctx.analysed['hash_iteration_sites'] = {('%s|%s' % k): len(v) for k, v in sites.items()}
    ctx.analysed['seed_independent_hash_iterations'] = ['%s|%s' % (b.fid, m) for b, bn, m, t in nohash]
    for key, lst in sorted(sites.items()):
        fid, meth = key
        b = lst[0][0]
        if key not in REVIEWED:
            ctx.bad('C18-1.hashorder', '%s|%s' % key,
                    'unreviewed iteration over a randomly seeded hash container (%d site(s)): the visiting order differs between runs; '
                    'its consumer must be order-insensitive and listed' % len(lst), ctx.where(b, lst[0][2].span))
            continue
        cnt, cls, reason = REVIEWED[key]
        if len(lst) != cnt:
            ctx.bad('C18-1.hashorder', '%s|%s' % key, '%d iteration sites, %d reviewed' % (len(lst), cnt), ctx.where(b, lst[0][2].span))
            continue
        ok, why = confirm(prog, b, lst, cls)
        ctx.check(ok, 'C18-1.hashorder', '%s|%s' % key, '%s: %s' % (cls, reason), 'consumer no longer matches the reviewed class %s: %s' % (cls, why),
                  ctx.where(b, lst[0][2].span))
    for key in REVIEWED:
        if key not in sites:
            ctx.info('C18-1.hashorder', '%s|%s' % key, 'reviewed site no longer present')
    ctx.floor('hash iteration sites enumerated', total, 8)
    # every IntSet / IntMap iteration is listed (seed independent)
    for b, bn, m, t in nohash:
        ctx.info('C18-1.hashorder', '%s|%s (NoHashHasher)' % (b.fid, m), 'identity-hashed container: iteration order is a function of the insertion history only')
    ambient(ctx)
    statics(ctx)
    parallel(ctx)


_ENG = {}


def _engine(prog):
    from sa.svn import Engine
    if id(prog) not in _ENG:
        _ENG[id(prog)] = Engine(prog)
    return _ENG[id(prog)]


def confirm(prog, b, lst, cls):
    """cheap structural confirmation of the reviewed consumer class"""
    cfg = CFG(b)
    if cls == 'diagnostic':
        if '{closure' in b.fid:
            # closure handed to with_context / ok_or_else / map_err: look at the parent's call that takes it
            parent = prog.by_id.get(b.closure_of)
            if parent is None:
                return False, 'parent not found'
            m = re.search(r'\{closure@[^}]*\}', b.params[0][1]) if b.params else None
            users = [t.callee for _, t in CFG(parent).call_sites() if m and m.group(0) in t.callee]
            ok = bool(users) and all(re.search(r'::(with_context|ok_or_else|map_err|unwrap_or_else|context)\b', strip_generics(u)) for u in users)
            return ok, 'closure is used by %s' % [strip_generics(u)[-40:] for u in users]
        ok = all(bn in cfg.err_only for _, bn, _ in lst)
        return ok, 'site can reach an Ok exit'
    # follow the iterator through the next calls in the same function
    chain = []
    for _, bn, t in lst:
        chain.append(call_chain(b, cfg, bn, t))
    flat = [' -> '.join(c) for c in chain]
    if cls == 'key-equality-find':
        if not all('find' in c for c in chain):
            return False, flat
        # the predicate must be a single equality between the key component of the item and a value that does not depend
        # on the item: then at most one entry can match (keys are unique) and the result is independent of the order
        from sa.svn import Engine
        from sa.terms import walk, show
        eng = _engine(prog)
        preds = []
        for _, bn, t in lst:
            for cl in prog.closures_of(b.fid):
                m = re.search(r'\{closure@[^}]*\}', cl.params[0][1]) if cl.params else None
                if m and any(m.group(0) in tt.callee and strip_generics(tt.callee).split('::')[-1] == 'find' for _, tt in cfg.call_sites()):
                    preds.append(cl)
        if not preds:
            return False, 'predicate closure of find() not found'
        for cl in preds:
            an = eng.analysis(cl)
            r = an.ret() if an.exit_state is not None else None
            item = ('obj', cl.params[1][0]) if len(cl.params) > 1 else None
            ok = r is not None and r[0] == 'eq' and len(r) == 3
            if ok:
                sides = [any(x[0] == 'pre' and x[1][0] == item for x in walk(sd)) for sd in (r[1], r[2])]
                key_side = r[1] if sides[0] else r[2]
                ok = sides.count(True) == 1 and key_side[0] == 'pre' and key_side[1][:2] == (item, ('f', '#0'))
            if not ok:
                return False, 'find() predicate is %s: not a single equality on the key, so more than one entry may match and the first in hash order wins' % (show(r, an.names)[:120] if r else None)
        return True, flat
    if cls == 'commutative-integer-fold':
        ok = all(('fold' in c or 'sum' in c) for c in chain) and all(re.search(r'HashMap::<[^>]*, (u8|u16|u32|u64|usize|i32|i64)>', t.callee) for _, _, t in lst)
        return ok, flat
    if cls == 'collect-into-hash-set':
        return all(any('HashSet' in x or 'from_iter' in x for x in c) for c in chain), flat
    if cls == 'emptiness+diagnostic':
        return all('collect' in c for c in chain), flat
    if cls == 'validation-order':
        return all('collect' in c for c in chain), flat
    return False, 'unknown class'


def call_chain(b, cfg, bn, t):
    """method names of the calls that consume the value produced at (bn, t), transitively, inside this function"""
    out = []
    cur_local = t.dest.local if t.dest is not None and not t.dest.proj else None
    seen = set()
    work = [t.targets.get('return')]
    steps = 0
    while work and steps < 40 and cur_local is not None:
        x = work.pop(0)
        if x is None or x in seen or x not in b.blocks:
            continue
        seen.add(x)
        steps += 1
        blk = b.blocks[x]
        # moves of the value between locals
        for s in blk.stmts:
            if s.kind == 'assign' and s.rv[0] == 'use' and s.rv[1][0] in ('move', 'copy') and not s.rv[1][1].proj and s.rv[1][1].local == cur_local and not s.lhs.proj:
                cur_local = s.lhs.local
            if s.kind == 'assign' and s.rv[0] == 'ref' and not s.rv[2].proj and s.rv[2].local == cur_local and not s.lhs.proj:
                cur_local = s.lhs.local
        tt = blk.term
        if tt.kind == 'call' and any(a[0] in ('move', 'copy') and not a[1].proj and a[1].local == cur_local for a in tt.args):
            name = strip_generics(tt.callee).split('::')[-1]
            out.append(name if name not in ('from_iter',) else 'from_iter:' + ('HashSet' if 'HashSet' in tt.callee else 'other'))
            if 'HashSet' in tt.callee:
                out.append('HashSet')
            if tt.dest is not None and not tt.dest.proj:
                cur_local = tt.dest.local
            else:
                break
        work.extend(cfg.succ.get(x, []))
    return out


def ambient(ctx):
    prog = ctx.prog
    bad = []
    n = 0
    for b in prog.bodies:
        if b.kind != 'fn' or b.test:
            continue
        n += 1
        for bn in b.order:
            t = b.blocks[bn].term
            if t.kind == 'call' and AMBIENT.search(t.callee):
                bad.append((b, t))
            for s in b.blocks[bn].stmts:
                if s.kind == 'assign' and s.rv[0] == 'cast' and 'PointerExposeProvenance' in s.rv[1]:
                    bad.append((b, s))
    for b, t in bad:
        ctx.bad('C18-2.ambient', '%s|%s' % (b.fid, strip_generics(getattr(t, 'callee', 'pointer-to-integer cast'))[-60:]),
                'non-test code consults ambient state (clock / environment / randomness / thread identity / temp files / pointer value)',
                ctx.where(b, t.span))
    if not bad:
        ctx.ok('C18-2.ambient', 'inventory', 'no call to clocks, environment, randomness, thread identity, temp files or process state in %d non-test bodies' % n)
    ctx.floor('non-test bodies scanned', n, 1500)


def statics(ctx):
    prog = ctx.prog
    st = [r for r in prog.ast if r['kind'] == 'static' and not r['ctx']['test']]
    tl = [m for m in prog.macros if m['name'].split('::')[-1] in ('thread_local', 'lazy_static') and not m['ctx']['test']]
    cells = []
    for r in st:
        if r['mutable'] or re.search(r'\b(Cell|RefCell|Mutex|RwLock|Atomic\w+|OnceCell|OnceLock|Lazy)\b', r['ty']):
            cells.append(r)
    for r in cells:
        ctx.bad('C18-3.statics', 'static %s' % r['name'], 'mutable / interior-mutable static state is shared between runs and threads (%s)' % r['ty'],
                '%s:%s' % (r['ctx']['file'], r['pos'][0]))
    for m in tl:
        ctx.bad('C18-3.statics', '%s! in %s' % (m['name'], m['ctx']['file']), 'thread-local / lazily initialised global state', '%s:%s' % (m['ctx']['file'], m['pos'][0]))
    # statics in MIR (incl. macro generated)
    mir_st = [b for b in prog.bodies if b.kind == 'static' and not b.test]
    mutst = [b for b in mir_st if re.search(r'\b(Cell|RefCell|Mutex|RwLock|Atomic|OnceCell|OnceLock|Lazy)\b', b.ret or '')]
    for b in mutst:
        ctx.bad('C18-3.statics', 'static %s' % b.path, 'interior-mutable static in the compiled crate (%s)' % b.ret)
    if not cells and not tl and not mutst:
        ctx.ok('C18-3.statics', 'inventory', 'no static mut, interior-mutable static, thread_local! or lazy_static! in non-test code (%d immutable statics)' % len(st))


# functions reviewed for their use of rayon: what runs in parallel there is a per-element step on disjoint elements, no reduction
REVIEWED_PARALLEL = {'LocomotiveSimulationVec::walk'}
PAR_CALLEE = re.compile(r'rayon::|ParallelIterator|IntoParallel|ParallelBridge|\bpar_(iter|iter_mut|bridge|chunks|chunks_mut|sort\w*|extend)\b|into_par_iter')
PAR_REDUCTION = re.compile(r'(ParallelIterator|IndexedParallelIterator)>::(sum|product|reduce|reduce_with|fold|fold_with|try_reduce\w*|try_fold\w*|min_by\w*|max_by\w*|min|max|find_any|position_any|any|all)\b')


def parallel_inventory(ctx):
    """every use of a parallel iterator in the crate sits in a reviewed function, and none of them reduces: a parallel sum /
    fold / reduce of floating-point values follows the pool's split tree, so its rounding — and everything computed from it —
    depends on the number of workers and on work stealing; the `_any` searches return whichever match a worker finds first"""
    R = 'C18-4.parallel'
    prog = ctx.prog
    sites = 0
    for b in prog.bodies:
        if b.test:
            continue
        owner = b.closure_of or b.fid
        owner = re.sub(r'::\{closure#\d+\}.*$', '', owner)
        hits = [(bn, t) for bn, t in CFG(b).call_sites() if PAR_CALLEE.search(t.callee)]
        if not hits:
            continue
        sites += len(hits)
        red = [t for bn, t in hits if PAR_REDUCTION.search(t.callee)]
        for t in red:
            ctx.bad(R, '%s|parallel reduction' % owner, 'a parallel iterator is reduced with `%s`: the result depends on how the pool splits the work'
                    % PAR_REDUCTION.search(t.callee).group(2), ctx.where(b, t.span))
        if owner not in REVIEWED_PARALLEL:
            ctx.bad(R, '%s|unreviewed parallelism' % owner, 'parallel iterator used outside the reviewed functions %s: %s' % (sorted(REVIEWED_PARALLEL),
                    sorted({strip_generics(t.callee).split('::')[-1] for bn, t in hits})), ctx.where(b, hits[0][1].span))
    ctx.check(sites >= 1, R, 'parallel call sites', '%d parallel-iterator call sites, all inside %s, none a reduction' % (sites, sorted(REVIEWED_PARALLEL)),
              'no parallel-iterator call site found at all (the inventory pattern no longer matches)')


def parallel(ctx):
    parallel_inventory(ctx)
    prog = ctx.prog
    fid = 'LocomotiveSimulationVec::walk'
    b = ctx.anchor('C18-4.parallel', fid)
    if b is None:
        return
    cfg = CFG(b)
    par = [t for _, t in cfg.call_sites() if re.search(r'par_iter_mut|rayon', t.callee)]
    ctx.check(bool(par), 'C18-4.parallel', fid + '|parallel path present', 'parallel path uses rayon par_iter_mut', 'no rayon call found', ctx.where(b))
    # the two try_for_each calls and their closures
    tfe = [t for _, t in cfg.call_sites() if strip_generics(t.callee).split('::')[-1] == 'try_for_each']
    if len(tfe) != 2:
        ctx.bad('C18-4.parallel', fid + '|two paths', 'expected one parallel and one serial try_for_each, found %d' % len(tfe), ctx.where(b)); return
    clos = []
    for t in tfe:
        m = re.search(r'\{closure@[^}]*\}', t.callee)
        body = None
        for cb in prog.closures_of(fid):
            if m and cb.params and m.group(0) in cb.params[0][1]:
                body = cb
        clos.append((t, body, 'rayon' in t.callee or 'par_iter' in t.callee or 'ParallelIterator' in t.callee))
    if any(c[1] is None for c in clos):
        ctx.unproved('C18-4.parallel', fid + '|closures', 'closure bodies not found', ctx.where(b)); return
    seqs = []
    for t, body, is_par in clos:
        seq = []
        for bn, tt in CFG(body).call_sites():
            name = strip_generics(tt.callee)
            if re.search(r'^(log::|core::fmt|std::fmt|format$|must_use|max_level)|fmt::rt', name) or re.search(r'\bLevel as PartialOrd|LevelFilter', tt.callee):
                continue
            name = re.sub(r'\{closure@[^}]*\}', '{closure}', name)
            seq.append(name)
        seqs.append(seq)
    ctx.check(seqs[0] == seqs[1], 'C18-4.parallel', fid + '|same call sequence', 'parallel and serial closures perform the same calls (modulo logging): %s' % seqs[0],
              'parallel closure calls %s, serial closure calls %s' % (seqs[0], seqs[1]), ctx.where(b))
    # captures nothing: the closure environment parameter is never projected into
    for t, body, is_par in clos:
        uses_env = False
        for bn in body.order:
            for s in body.blocks[bn].stmts:
                if re.search(r'\(\*_1\)\.\d+|\(_1\.\d+:', s.raw):
                    uses_env = True
            if re.search(r'\(\*_1\)\.\d+|\(_1\.\d+:', body.blocks[bn].term.raw):
                uses_env = True
        caps = re.search(r'\{closure@[^}]*\} \{', ' '.join(s.raw for bn in b.order for s in b.blocks[bn].stmts if 'closure@' in s.raw))
        ctx.check(not uses_env, 'C18-4.parallel', '%s|%s closure captures nothing' % (fid, 'parallel' if is_par else 'serial'),
                  'closure reads nothing from its environment: it works on its own (index, element) argument only',
                  'closure uses captured state', ctx.where(body))
    # nothing shared is reachable from the per-element walk: covered by C18-3 (no statics) + &mut exclusivity of the element
    ew = prog.by_id.get('LocomotiveSimulation::walk')
    ctx.check(ew is not None and ew.params and ew.params[0][1].startswith('&mut'), 'C18-4.parallel', 'LocomotiveSimulation::walk|exclusive',
              'the per-element walk takes &mut self only (exclusive access to its own element)', 'signature changed', ctx.where(ew) if ew else None)
