"""C08 — second law; a switched-off engine burns nothing (DESIGN §5 C08)."""
import re
from sa.dsl import T, gamma, select, NOT
from sa.terms import mk, ZERO, ONE, show, walk, map_term, num, FALSE
from sa.prove import cofactor
from .common import (engine, inventory, StateView, locate, prove, POWERTRAIN_ASSUME, analysis_or_fail, guard_facts, pretty)
from .C01 import discovered_writers, step_size_term, is_raw_setter

LEVEL = 'proof'
MANIFEST = {
    'category': 'proof',
    'engine': 'svn',
    'technique': 'symbolic value numbering over rustc MIR + sign/identity term prover with gamma-cofactors',
    'text': ('Efficiency relations (divide by η with the flow, multiply against it), non-negative loss, |out| <= |in| in each '
             'direction, dynamic-brake sign, monotone cumulative energies and the engine-off clauses are proved as term '
             'identities / sign facts at the Ok exit of each discovered component writer, per γ-cofactor of the direction of '
             'flow, for all inputs. The clamped-interpolation lemma (result between the two bracketing map values, or their '
             'mean) is proved on interp1d\'s own MIR with the search index havoc\'d; every powertrain interp1d call site is '
             'shown to pass extrapolate = false.'),
    'note': ('Assumes efficiency-map values in (0,1], strictly increasing map abscissae, dt > 0, idle fuel / aux load / ratings '
             '>= 0. interp3d convexity relies on find_interp_indices\' post-condition, recorded as an assumption. Reals, not floats.'),
}
EXPLANATION = 'SVN terms of the component writers; sign obligations per cofactor of flow direction under η = 1/(1+τ), τ >= 0.'
RULES = ['C08-1.effrel', 'C08-2.loss', 'C08-3.outin', 'C08-4.dynbrake', 'C08-5.monotone', 'C08-6.interp', 'C08-7.engineoff', 'C08-8.flags']
ASSUMPTIONS = ['efficiency map values in (0,1]', 'map abscissae strictly increasing', 'dt > 0', 'pwr_idle_fuel, pwr_aux, ratings >= 0',
               'interp3d: find_interp_indices returns bracketing indices (assumption, not proved)']

ASSUME = POWERTRAIN_ASSUME + [(r'(^|\.)pwr_aux(_req|_offset)?$', 'nonneg'), (r'pwr_aux_traction_coeff$', 'nonneg')]


def run(ctx):
    prog = ctx.prog
    inv = inventory(ctx)
    n = 0
    # ------------------------------------------------------------ FuelConverter
    for b in discovered_writers(ctx, 'FuelConverterState', ['pwr_fuel', 'pwr_loss']):
        an = analysis_or_fail(ctx, 'C08', b)
        if an is None: continue
        sv = StateView(an, locate(ctx, b, 'FuelConverterState') or (('f', 'state'),))
        facts = guard_facts(an)
        eta = sv.post('eta'); n += 1
        k = b.fid + '|FuelConverterState'
        prove(ctx, 'C08-1.effrel', k + '.pwr_fuel', an, 'eq', sv.post('pwr_fuel'), sv.post('pwr_brake') / eta + sv.post('pwr_idle_fuel'),
              facts=facts, assume=ASSUME, note='fuel = brake/η + engine-gated idle fuel')
        prove(ctx, 'C08-2.loss', k + '.pwr_loss', an, 'ge0', sv.post('pwr_loss'), facts=facts, assume=ASSUME)
        prove(ctx, 'C08-3.outin', k + '.brake<=fuel', an, 'le', sv.post('pwr_brake'), sv.post('pwr_fuel'), facts=facts, assume=ASSUME)
        for en in ('energy_fuel', 'energy_loss'):
            prove(ctx, 'C08-5.monotone', k + '.' + en, an, 'ge0', sv.post(en) - sv.pre(en), facts=facts, assume=ASSUME)
        # engine off: no fuel, no idle fuel
        try:
            eng = T(an.arg('engine_on'))
            off = [NOT(eng)] + facts
            prove(ctx, 'C08-7.engineoff', k + '.pwr_fuel', an, 'eq', sv.post('pwr_fuel'), 0, facts=off, assume=ASSUME, note='[engine_on = false]')
            prove(ctx, 'C08-7.engineoff', k + '.pwr_idle_fuel', an, 'eq', sv.post('pwr_idle_fuel'), 0, facts=off, assume=ASSUME, note='[engine_on = false]')
        except KeyError:
            ctx.unproved('C08-7.engineoff', k, 'writer has no engine_on parameter', ctx.where(b))
    # ------------------------------------------------------------ Generator
    for b in discovered_writers(ctx, 'GeneratorState', ['pwr_mech_in', 'pwr_loss']):
        an = analysis_or_fail(ctx, 'C08', b)
        if an is None: continue
        sv = StateView(an, locate(ctx, b, 'GeneratorState') or (('f', 'state'),))
        facts = guard_facts(an); eta = sv.post('eta'); n += 1
        k = b.fid + '|GeneratorState'
        out = sv.post('pwr_elec_prop_out') + sv.post('pwr_elec_aux')
        prove(ctx, 'C08-1.effrel', k + '.pwr_mech_in', an, 'eq', sv.post('pwr_mech_in'), out / eta, facts=facts, assume=ASSUME,
              note='mech_in = (prop + aux)/η')
        prove(ctx, 'C08-2.loss', k + '.pwr_loss', an, 'ge0', sv.post('pwr_loss'), facts=facts, assume=ASSUME)
        prove(ctx, 'C08-3.outin', k + '.out<=in', an, 'le', out, sv.post('pwr_mech_in'), facts=facts, assume=ASSUME)
        prove(ctx, 'C08-5.monotone', k + '.energy_loss', an, 'ge0', sv.post('energy_loss') - sv.pre('energy_loss'), facts=facts, assume=ASSUME)
    # ------------------------------------------------------------ ElectricDrivetrain
    for b in discovered_writers(ctx, 'ElectricDrivetrainState', ['pwr_elec_prop_in', 'pwr_loss', 'pwr_mech_dyn_brake']):
        an = analysis_or_fail(ctx, 'C08', b)
        if an is None: continue
        sv = StateView(an, locate(ctx, b, 'ElectricDrivetrainState') or (('f', 'state'),))
        facts = guard_facts(an); eta = sv.post('eta'); n += 1
        k = b.fid + '|ElectricDrivetrainState'
        req = sv.post('pwr_out_req'); mech = sv.post('pwr_mech_prop_out'); elec = sv.post('pwr_elec_prop_in')
        prove(ctx, 'C08-1.effrel', k + '.pwr_elec_prop_in', an, 'eq', elec, gamma(req.gt(0), mech / eta, mech * eta), facts=facts, assume=ASSUME,
              note='traction: elec = mech/η ; regeneration: elec = mech·η')
        prove(ctx, 'C08-2.loss', k + '.pwr_loss', an, 'ge0', sv.post('pwr_loss'), facts=facts, assume=ASSUME)
        prove(ctx, 'C08-3.outin', k + '.traction mech<=elec', an, 'le', mech, elec, facts=[req.gt(0)] + facts, assume=ASSUME, note='[req > 0]')
        prove(ctx, 'C08-3.outin', k + '.regen |elec|<=|mech|', an, 'le', -elec, -mech, facts=[req.le(0)] + facts, assume=ASSUME, note='[req <= 0]')
        prove(ctx, 'C08-4.dynbrake', k + '.dyn_brake>=0', an, 'ge0', sv.post('pwr_mech_dyn_brake'), facts=facts, assume=ASSUME)
        prove(ctx, 'C08-4.dynbrake', k + '.dyn_brake=0 unless braking', an, 'eq', sv.post('pwr_mech_dyn_brake'), 0, facts=[req.ge(0)] + facts,
              assume=ASSUME, note='[req >= 0]')
        # every other dynamic-braking power the state reports (the electrical side): same two clauses, and it is what the
        # mechanical dynamic-braking power becomes after the drivetrain's efficiency (never more than went in)
        dyn_p = [f for f in state_fields(ctx, 'ElectricDrivetrainState') if f.startswith('pwr_') and 'dyn_brake' in f and f != 'pwr_mech_dyn_brake']
        dyn_e = [f for f in state_fields(ctx, 'ElectricDrivetrainState') if f.startswith('energy_') and 'dyn_brake' in f and f != 'energy_mech_dyn_brake']
        for f_ in dyn_p:
            prove(ctx, 'C08-4.dynbrake', k + '.%s>=0' % f_, an, 'ge0', sv.post(f_), facts=facts, assume=ASSUME)
            prove(ctx, 'C08-4.dynbrake', k + '.%s=0 unless braking' % f_, an, 'eq', sv.post(f_), 0, facts=[req.ge(0)] + facts, assume=ASSUME, note='[req >= 0]')
            prove(ctx, 'C08-3.outin', k + '.%s<=mech dyn brake' % f_, an, 'le', sv.post(f_), sv.post('pwr_mech_dyn_brake'), facts=facts, assume=ASSUME)
        for en in ['energy_loss', 'energy_mech_dyn_brake'] + dyn_e:
            prove(ctx, 'C08-5.monotone', k + '.' + en, an, 'ge0', sv.post(en) - sv.pre(en), facts=facts, assume=ASSUME)
    # ------------------------------------------------------------ ReversibleEnergyStorage
    for b in discovered_writers(ctx, 'ReversibleEnergyStorageState', ['pwr_out_chemical', 'pwr_loss']):
        an = analysis_or_fail(ctx, 'C08', b)
        if an is None: continue
        sv = StateView(an, locate(ctx, b, 'ReversibleEnergyStorageState') or (('f', 'state'),))
        facts = guard_facts(an); eta = sv.post('eta'); n += 1
        k = b.fid + '|ReversibleEnergyStorageState'
        elec = sv.post('pwr_out_electrical'); chem = sv.post('pwr_out_chemical')
        prove(ctx, 'C08-1.effrel', k + '.pwr_out_chemical', an, 'eq', chem, gamma(elec.gt(0), elec / eta, elec * eta), facts=facts, assume=ASSUME,
              note='discharge: chem = elec/η ; charge: chem = elec·η')
        prove(ctx, 'C08-2.loss', k + '.pwr_loss', an, 'ge0', sv.post('pwr_loss'), facts=facts, assume=ASSUME)
        prove(ctx, 'C08-3.outin', k + '.discharge elec<=chem', an, 'le', elec, chem, facts=[elec.gt(0)] + facts, assume=ASSUME, note='[elec > 0]')
        prove(ctx, 'C08-3.outin', k + '.charge |chem|<=|elec|', an, 'le', -chem, -elec, facts=[elec.le(0)] + facts, assume=ASSUME, note='[elec <= 0]')
        prove(ctx, 'C08-5.monotone', k + '.energy_loss', an, 'ge0', sv.post('energy_loss') - sv.pre('energy_loss'), facts=facts, assume=ASSUME)
    ctx.floor('component writers', n, 4)

    # ------------------------------------------------------------ engine off: auxiliary power
    na = 0
    for b in inv.writers('LocomotiveState', 'pwr_aux'):
        if is_raw_setter(b): continue
        an = analysis_or_fail(ctx, 'C08-7.engineoff', b)
        if an is None: continue
        sv = StateView(an, locate(ctx, b, 'LocomotiveState') or (('f', 'state'),))
        try:
            eng = an.arg('engine_on')
        except KeyError:
            ctx.unproved('C08-7.engineoff', b.fid + '|pwr_aux', 'writer of pwr_aux has no engine_on parameter', ctx.where(b)); continue
        na += 1
        post = sv.post('pwr_aux').t
        # engine_on: Option<bool> = Some(false)
        def subst(x):
            if x == eng:
                return ('some', FALSE)
            return x
        off = map_term(post, subst)
        off = an.eng.analysis(b).resimplify(off, an.exit_state) if False else _resimplify_all(an, off)
        prove(ctx, 'C08-7.engineoff', b.fid + '|LocomotiveState.pwr_aux', an, 'eq', T(off), 0, assume=ASSUME, note='[engine_on = Some(false)]')
    ctx.floor('pwr_aux writers', na, 1)

    # ------------------------------------------------------------ interpolation stays in the map's range
    interp_rules(ctx)
    # the engine-off clauses are about the component's `engine_on` argument: the command must reach it unchanged
    from .common import flag_provenance
    flag_provenance(ctx, 'C08-8.flags', 'engine_on', floor=15)


def state_fields(ctx, tname):
    out = []
    for td in ctx.prog.types.get(tname, []):
        if not td.test:
            out = [f['name'] for f in td.fields if f.get('name')]
    return out


def _resimplify_all(an, t):
    def f(x):
        return an.resimplify(x, an.exit_state)
    for _ in range(3):
        t2 = map_term(t, f)
        if t2 == t:
            break
        t = t2
    return t


def interp_rules(ctx):
    prog = ctx.prog
    eng = engine(ctx)
    inv = inventory(ctx)
    # (a) every interp1d call site in the powertrain passes extrapolate = false
    POWERTRAIN = re.compile(r'consist/locomotive/powertrain/')
    nsites = 0
    for fid, lst in inv.calls().items():
        b = prog.by_id.get(fid)
        if b is None or b.test or not (b.file and POWERTRAIN.search(b.file)):
            continue
        for bn, t, tg in lst:
            if t is None or 'utils::interp1d' not in tg:
                continue
            nsites += 1
            a = t.args[3] if len(t.args) > 3 else None
            ok = a is not None and a[0] == 'const' and a[1] == 'false'
            ctx.check(ok, 'C08-6.interp', '%s|interp1d site %d' % (fid, sum(1 for r in ctx.results if r.rule == 'C08-6.interp' and r.key.startswith(fid + '|'))),
                      'extrapolate argument is the constant false', 'extrapolate argument is %s (must be the constant false)' % (a,),
                      ctx.where(b, t.span))
    ctx.floor('powertrain interp1d call sites', nsites, 8)
    # (b) lemma on interp1d's own body
    b = ctx.anchor('C08-6.interp', 'utils::interp1d')
    if b is None:
        return
    saved = set(eng.no_inline)
    an = analysis_or_fail(ctx, 'C08-6.interp', b)
    if an is None:
        return
    r = an.ret()
    ex = an.arg('extrapolate')
    r = cofactor(r, ex, False)
    if r[0] != 'gamma' or r[2][0] != 'ok' or r[3][0] != 'ok':
        ctx.unproved('C08-6.interp', 'utils::interp1d|shape', 'return term is not γ(all equal, Ok(mean), Ok(interp)): %s' % show(r, an.names)[:300], ctx.where(b))
        return
    mean, val = r[2][1], r[3][1]
    # mean branch: Σ y / len(y)
    okmean = mean[0] == 'div' and mean[1][0] == 'Sum' and mean[2][0] == 'len'
    ctx.check(okmean, 'C08-6.interp', 'utils::interp1d|mean', 'degenerate map: result is Σ y_data / len(y_data)',
              'degenerate branch returns %s' % show(mean, an.names)[:200], ctx.where(b))
    # interpolation branch: find the bracketing index term I (y[I] and y[I+1] both occur)
    idxs = []
    for x in walk(val):
        if x[0] == 'pre' and x[1][0] == ('obj', 3):
            for c in x[1][1:]:
                if c[0] == 'idx' and c[1] not in idxs:
                    idxs.append(c[1])
    I = None
    for i in idxs:
        if mk('add', i, ONE) in idxs:
            I = i
    if I is None or len(idxs) != 2:
        ctx.unproved('C08-6.interp', 'utils::interp1d|bracket', 'cannot identify the bracketing index pair in %s' % [show(i, an.names)[:80] for i in idxs], ctx.where(b))
        return
    isym = ('sym', 'i')

    def rep(x):
        return isym if x == I else x
    v2 = map_term(val, rep)
    yl = T(('pre', (('obj', 3), ('idx', isym)))); yr = T(('pre', (('obj', 3), ('idx', mk('add', isym, ONE)))))
    xl = T(('pre', (('obj', 2), ('idx', isym)))); xr = T(('pre', (('obj', 2), ('idx', mk('add', isym, ONE)))))
    R = T(v2)
    # (R - yl)(R - yr) <= 0  <=>  R lies between the two bracketing values, for any index i, given xl < xr
    prove(ctx, 'C08-6.interp', 'utils::interp1d|between', an, 'ge0', -((R - yl) * (R - yr)), facts=[xl.lt(xr)], assume=[],
          note='[extrapolate = false] result lies between y[i] and y[i+1] for every i with x[i] < x[i+1]')
    # (c) interp3d: each weight is compute_interp_diff = γ(lo == hi, 0, (v-lo)/(hi-lo))
    cb = ctx.anchor('C08-6.interp', 'compute_interp_diff')
    if cb is not None:
        ca = analysis_or_fail(ctx, 'C08-6.interp', cb)
        if ca is not None:
            rt = ca.ret()
            p = [T(('pre', (('obj', i),))) for i in (1, 2, 3)]
            prove(ctx, 'C08-6.interp', 'compute_interp_diff|weight', ca, 'eq', T(rt), gamma(p[1].eq(p[2]), 0, (p[0] - p[1]) / (p[2] - p[1])),
                  assume=[], note='interp3d weight')
