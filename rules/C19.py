"""C19 — histories and step counters stay aligned through the whole object tree (DESIGN §5 C19)."""
import re
from sa.dsl import T, gamma, select, specialize, _t
from sa.terms import mk, ZERO, ONE, show, walk, map_term, num, show_path
from sa.cfg import CFG
from .common import (engine, inventory, StateView, locate, prove, analysis_or_fail, pretty)

LEVEL = 'proof'
MANIFEST = {
    'category': 'proof',
    'engine': 'svn+structure',
    'technique': 'type-tree enumeration of counters/intervals/histories + SVN exit terms per enum arm + CFG dominance + who-may-call inventory',
    'text': ('The object tree of every simulation kind is enumerated from the type graph (structs, enum variants, Box, Vec). For every '
             'step function, every step counter in its tree is shown to be pre + 1 at exit (per powertrain variant; Vec children by one '
             'call in one loop over the vector); in the simulation roots solve_step? dominates save_state which dominates every '
             'increment, so a failed step records and increments nothing; every save_state pushes exactly its own state exactly once '
             'under the gate save_interval = Some(n) and i mod n = 0 and reaches every stateful child once; only save_state functions '
             'call a HistoryVec push (None => histories stay empty); set_save_interval writes the argument into every save_interval '
             'field of its tree on every path, constructors end in it; generated push/pop/len touch every field.'),
    'note': ('With these facts the length formula of the statement follows by induction over steps. The loop bodies over loco_vec are '
             'analysed once (one call per element per iteration); that the loop visits every element is Rust\'s iter_mut semantics.'),
}
EXPLANATION = 'Counter / interval / history inventories over the type tree, decided on SVN exit terms and CFG dominance.'
RULES = ['C19-1.counters', 'C19-2.order', 'C19-3.save', 'C19-4.interval', 'C19-5.historyvec', 'C19-6.drivers']
ASSUMPTIONS = ['Vec::iter_mut visits every element exactly once (language semantics)']

ROOTS = ['LocomotiveSimulation', 'ConsistSimulation', 'SetSpeedTrainSim', 'SpeedLimitTrainSim']


# ------------------------------------------------------------------ type tree
def base_type(ty):
    t = ty.replace(' ', '')
    kind = 'plain'
    m = re.match(r'^(?:std::boxed::)?Box<(.*)>$', t)
    if m:
        t = m.group(1); kind = 'box'
    m = re.match(r'^(?:std::vec::)?Vec<(.*)>$', t)
    if m:
        return m.group(1).split('::')[-1], 'vec'
    m = re.match(r'^Option<(.*)>$', t)
    if m:
        return m.group(1).split('::')[-1], 'option'
    return t.split('::')[-1], kind


class Tree:
    def __init__(self, prog):
        self.prog = prog
        self.memo = {}

    def td(self, name):
        return self.prog.typedef(name)

    def paths(self, tname, want, depth=0, stop_vec=True):
        """[(path components from an object of type tname, enum constraints {pathprefix: variant}, vec_prefix or None)] to
        every field satisfying want(owner TypeDef, field record)"""
        key = (tname, id(want), stop_vec)
        td = self.td(tname)
        out = []
        if td is None or depth > 8:
            return out
        if td.kind == 'struct':
            for f in td.fields:
                if f['name'] is None:
                    continue
                if want(td, f):
                    out.append(((('f', f['name']),), {}, None))
                bt, k = base_type(f['ty'])
                if bt == tname or self.td(bt) is None:
                    continue
                if k == 'vec':
                    if not stop_vec:
                        for p, cons, vp in self.paths(bt, want, depth + 1, stop_vec):
                            out.append(((('f', f['name']), ('vec',)) + p, cons, (('f', f['name']),)))
                    else:
                        sub = self.paths(bt, want, depth + 1, stop_vec)
                        if sub:
                            out.append(((('f', f['name']), ('vec',)), {}, (('f', f['name']),)))
                    continue
                for p, cons, vp in self.paths(bt, want, depth + 1, stop_vec):
                    pre = (('f', f['name']),)
                    out.append((pre + p, {pre + kk: v for kk, v in cons.items()}, (pre + vp) if vp else None))
        else:
            for v in td.variants:
                if len(v['fields']) != 1:
                    continue
                bt, k = base_type(v['fields'][0]['ty'])
                if self.td(bt) is None:
                    continue
                for p, cons, vp in self.paths(bt, want, depth + 1, stop_vec):
                    pre = (('as', v['name']), ('f', '#0'))
                    c2 = {pre + kk: vv for kk, vv in cons.items()}
                    c2[()] = (td.name, v['name'], v['idx'])
                    out.append((pre + p, c2, (pre + vp) if vp else None))
        return out


def is_counter(td, f):
    return f['name'] == 'i' and f['ty'].replace(' ', '') == 'usize' and (td.name.endswith('State') or td.name.endswith('Simulation'))


def is_interval(td, f):
    return f['name'] == 'save_interval'


def arm_select(term, an, root_path, cons):
    """select the enum arms named by `cons` ({prefix: (Enum, Variant, idx)}) in `term`"""
    t = term
    for pre, (en, vn, idx) in sorted(cons.items(), key=lambda kv: len(kv[0])):
        scrut = ('pre', root_path + pre)
        t = specialize(t, scrut, idx, None)
    return t


def step_fns(prog, tname):
    out = []
    for fid in ('%s::derive(HistoryMethods)::step' % tname, '<%s as LocoTrait>::step' % tname, '%s::step' % tname,
                '<Box<%s> as LocoTrait>::step' % tname):
        b = prog.by_id.get(fid)
        if b is not None:
            out.append(b)
    return out


def fns_named(prog, tname, meth):
    out = []
    for fid in ('%s::derive(HistoryMethods)::%s' % (tname, meth), '<%s as LocoTrait>::%s' % (tname, meth), '%s::%s' % (tname, meth),
                '<Box<%s> as LocoTrait>::%s' % (tname, meth)):
        b = prog.by_id.get(fid)
        if b is not None:
            out.append(b)
    return out


def run(ctx):
    prog = ctx.prog
    tree = Tree(prog)
    eng = engine(ctx)
    # all types that contain a counter somewhere in their tree
    stateful = []
    for name, tds in prog.types.items():
        for td in tds:
            if td.test:
                continue
            if tree.paths(td.name, is_counter):
                stateful.append(td.name)
    stateful = sorted(set(stateful))
    ctx.analysed['types_with_counters'] = stateful
    counters(ctx, tree, eng, stateful)
    order(ctx, eng)
    save(ctx, tree, eng, stateful)
    interval(ctx, tree, eng, stateful)
    historyvec(ctx, eng)
    defaults(ctx, eng)
    drivers(ctx)


# ------------------------------------------------------------------ C19-1
def counters(ctx, tree, eng, stateful):
    prog = ctx.prog
    n_fn = 0
    n_ctr = 0
    for tname in stateful:
        for b in step_fns(prog, tname):
            an = analysis_or_fail(ctx, 'C19-1.counters', b)
            if an is None:
                continue
            n_fn += 1
            root = (('obj', 1),)
            for p, cons, vp in tree.paths(tname, is_counter):
                if vp is not None and len(vp) > 1:
                    # the vector lives in a nested object: that object's own step must be called exactly once, outside loops
                    owner = root + vp[:-1]
                    sites = [c for c in an.calls if c.targets and any(t.endswith('::step') for t in c.targets) and c.argvals and
                             c.argvals[0][0] == 'ref' and c.argvals[0][1] == owner]
                    key = '%s|%s.step()' % (b.fid, show_path(vp[:-1]))
                    ctx.check(len(sites) == 1 and not sites[0].in_loop, 'C19-1.counters', key, 'the owner of the vector is stepped exactly once',
                              '%d step call sites on %s' % (len(sites), show_path(vp[:-1])), ctx.where(b))
                    continue
                if vp is not None:
                    # Vec child: exactly one call of the element type's step, in a loop over iter_mut of that vector
                    vpath = root + vp
                    sites = [c for c in an.calls if c.targets and any(t.endswith('::step') for t in c.targets) and c.in_loop and
                             c.argvals and _recv_under(c.argvals[0], vpath)]
                    key = '%s|%s[*]' % (b.fid, show_path(vp))
                    whole = len(sites) == 1 and all(_is_iter_decision(d) for d in sites[0].pc) and len(sites[0].pc) == 1
                    ctx.check(whole, 'C19-1.counters', key, 'one step call per element, in one plain loop over the whole vector (no filter / skip / condition)',
                              '%d step call sites on elements of %s; gate %s' % (len(sites), show_path(vp), [(show(x)[:80], o) for x, o in (sites[0].pc if sites else [])]), ctx.where(b))
                    continue
                n_ctr += 1
                full = root + p
                post = arm_select(an.load(full, an.exit_state), an, root, cons)
                pre = ('pre', full)
                arm = ','.join(v[1] for v in cons.values())
                key = '%s|%s%s' % (b.fid, show_path(p), ' [%s]' % arm if arm else '')
                prove(ctx, 'C19-1.counters', key, an, 'eq', T(post), T(pre) + 1, assume=[], note='counter advances by exactly one per step')
    ctx.floor('step functions analysed', n_fn, 15)
    ctx.floor('counter paths checked', n_ctr, 30)


def _recv_under(arg, vpath):
    if arg[0] != 'ref':
        return False
    p = arg[1]
    return len(p) > len(vpath) and p[:len(vpath)] == vpath and p[len(vpath)][0] == 'idx'


# ------------------------------------------------------------------ C19-2
def order(ctx, eng):
    prog = ctx.prog
    n = 0
    for r in ROOTS:
        b = prog.by_id.get(r + '::step')
        if b is None:
            ctx.unproved('C19-2.order', r + '::step', 'anchor not found'); continue
        n += 1
        cfg = CFG(b)
        solve = [bn for bn, t in cfg.call_sites() if _tg(prog, t, r + '::solve_step')]
        save = [bn for bn, t in cfg.call_sites() if _tg(prog, t, r + '::save_state')]
        steps = [bn for bn, t in cfg.call_sites() if any(x.fid.endswith('::step') for x in prog.resolve(t.callee))]
        inc = []
        for bn in cfg.reach:
            for s in b.blocks[bn].stmts:
                if s.kind == 'assign' and s.lhs.proj and s.lhs.local == 1 or (s.kind == 'assign' and s.lhs.proj and s.lhs.proj[0] == ('deref',)):
                    raw = s.raw
                    if re.search(r'\.\d+: usize\) = move \(_\d+\.0: usize\)', raw):
                        inc.append(bn)
        key = r + '::step'
        if len(solve) != 1 or len(save) != 1:
            ctx.bad('C19-2.order', key, 'expected one solve_step and one save_state call, found %d / %d' % (len(solve), len(save)), ctx.where(b)); continue
        so, sa = solve[0], save[0]
        ok1 = cfg.dominates(so, sa) and sa in cfg.ok_region
        ok2 = all(cfg.dominates(sa, x) for x in steps + inc) and bool(steps + inc)
        ok3 = cfg.every_ok_path_passes([sa]) and all(cfg.every_ok_path_passes([x]) for x in steps + inc)
        # the save is on the Continue side of solve_step's `?`
        ok4 = sa not in cfg.err_only
        ctx.check(ok1 and ok4, 'C19-2.order', key + '|solve before save', 'solve_step (and its ?) dominates save_state', 'save_state is not dominated by solve_step', ctx.where(b))
        ctx.check(ok2, 'C19-2.order', key + '|save before increments', 'save_state dominates every counter increment and child step (%d sites)' % len(steps + inc),
                  'an increment / child step is not dominated by save_state', ctx.where(b))
        ctx.check(ok3, 'C19-2.order', key + '|every Ok path', 'every Ok path passes through save_state and every increment', 'some Ok path skips save_state or an increment', ctx.where(b))
    ctx.floor('simulation roots', n, 4)
    # walks: save_state once before the loop
    for fid in ('LocomotiveSimulation::walk', 'ConsistSimulation::walk', 'SetSpeedTrainSim::walk'):
        b = prog.by_id.get(fid)
        if b is None:
            ctx.unproved('C19-2.order', fid, 'anchor not found'); continue
        cfg = CFG(b)
        r = fid.split('::')[0]
        save = [bn for bn, t in cfg.call_sites() if _tg(prog, t, r + '::save_state')]
        loops = cfg.loops
        ok = len(save) == 1 and not cfg.in_loop(save[0]) and all(cfg.dominates(save[0], h) for h in loops) and bool(loops)
        ctx.check(ok, 'C19-2.order', fid + '|initial save', 'the initial state is saved exactly once, before the stepping loop',
                  'save_state call sites: %s, loops: %s' % (save, list(loops)), ctx.where(b))


def _tg(prog, t, fid):
    return any(x.fid == fid for x in prog.resolve(t.callee))


# ------------------------------------------------------------------ C19-3
def save(ctx, tree, eng, stateful):
    prog = ctx.prog
    inv = inventory(ctx)
    n = 0
    for tname in stateful:
        td = prog.typedef(tname)
        if td is None or td.kind != 'struct':
            continue
        has_hist = td.field('history') is not None and td.field('state') is not None
        for b in fns_named(prog, tname, 'save_state'):
            an = analysis_or_fail(ctx, 'C19-3.save', b)
            if an is None:
                continue
            n += 1
            if _delegates(prog, b, tname, 'save_state'):
                inner = '%s::derive(HistoryMethods)::save_state' % tname
                sites = [c for c in an.calls if c.targets and inner in c.targets]
                ok = len(sites) == 1 and not sites[0].in_loop and not sites[0].pc
                ctx.check(ok, 'C19-3.save', b.fid + '|delegates', 'trait method forwards once, unconditionally, to the generated save_state',
                          '%d forwarding calls' % len(sites), ctx.where(b))
                continue
            pushes = [c for c in an.calls if c.targets and any(re.search(r'HistoryVec::derive\(HistoryVec\)::push$', t) for t in c.targets)]
            own = [c for c in pushes if c.argvals and c.argvals[0] == ('ref', (('obj', 1), ('f', 'history')), 'mut')]
            key = b.fid
            if has_hist and not _delegates(prog, b, tname, 'save_state'):
                ok = len(own) == 1 and len(pushes) == 1 and not own[0].in_loop
                ctx.check(ok, 'C19-3.save', key + '|one push', 'pushes its own state exactly once',
                          '%d pushes into self.history, %d pushes in total' % (len(own), len(pushes)), ctx.where(b))
                if own:
                    c = own[0]
                    val = c.argvals[1]
                    want = an.load((('obj', 1), ('f', 'state')), an.block_in.get(c.block) or an.exit_state)
                    ctx.check(val == ('pre', (('obj', 1), ('f', 'state'))) or val == want, 'C19-3.save', key + '|pushed value', 'the pushed value is the current self.state',
                              'pushed value is %s' % show(val, an.names)[:200], ctx.where(b, c.span))
                    ctx.check(_gate_ok(c.pc), 'C19-3.save', key + '|gate', 'push is gated by save_interval = Some(n) and state.i mod n = 0',
                              'push gate is %s' % [(show(x, an.names)[:80], o) for x, o in c.pc], ctx.where(b, c.span))
            # stateful children are reached exactly once
            for f in td.fields:
                bt, k = base_type(f['ty'])
                if bt not in stateful or f['name'] in ('state',):
                    continue
                tdc = prog.typedef(bt)
                if tdc is not None and tdc.kind == 'struct' and tdc.name.endswith('State'):
                    continue
                sites = [c for c in an.calls if c.targets and any(t.endswith('::save_state') for t in c.targets) and c.argvals and
                         _recv_is(c.argvals[0], (('obj', 1), ('f', f['name'])), k == 'vec')]
                ok = len(sites) == 1 and (sites[0].in_loop == (k == 'vec'))
                gate_ok = bool(sites) and (not [d for d in sites[0].pc if not _is_iter_decision(d)] or _gate_ok([d for d in sites[0].pc if not _is_iter_decision(d)]))
                ctx.check(ok and gate_ok, 'C19-3.save', '%s|child %s' % (key, f['name']), 'child %s is saved exactly once per save (same gate or ungated)' % f['name'],
                          '%d save_state call sites on self.%s; gate %s' % (len(sites), f['name'], [(show(x)[:60], o) for x, o in (sites[0].pc if sites else [])]), ctx.where(b))
    ctx.floor('save_state functions analysed', n, 12)
    # enum dispatchers: one arm per variant calling the payload's method
    for meth in ('save_state', 'step'):
        b = prog.by_id.get('<PowertrainType as LocoTrait>::' + meth)
        if b is None:
            ctx.unproved('C19-3.save', '<PowertrainType as LocoTrait>::' + meth, 'anchor not found'); continue
        an = analysis_or_fail(ctx, 'C19-3.save', b)
        if an is None:
            continue
        pt = prog.typedef('PowertrainType')
        for v in pt.variants:
            sites = [c for c in an.calls if c.targets and any(t.endswith('::' + meth) for t in c.targets) and c.argvals and
                     c.argvals[0][0] == 'ref' and c.argvals[0][1][:3] == (('obj', 1), ('as', v['name']), ('f', '#0'))]
            ctx.check(len(sites) == 1, 'C19-3.save', '<PowertrainType as LocoTrait>::%s|%s' % (meth, v['name']), 'variant forwards to its payload exactly once',
                      '%d forwarding calls' % len(sites), ctx.where(b))
    # who may call push: only save_state functions
    bad = []
    npush = 0
    for fid, b in prog.by_id.items():
        if re.search(r'HistoryVec::derive\(HistoryVec\)::push$', fid):
            npush += 1
            for caller in inv.callers(fid):
                cb = prog.by_id.get(caller)
                if cb is None or cb.test:
                    continue
                if not caller.endswith('::save_state'):
                    bad.append((caller, fid))
    ctx.check(not bad, 'C19-3.save', 'who-may-call HistoryVec::push', 'only save_state functions push into a history (%d generated push functions)' % npush,
              'push called outside save_state: %s' % bad[:5])
    ctx.floor('generated HistoryVec::push functions', npush, 9)


def _delegates(prog, b, tname, meth):
    """a trait wrapper whose only job is to call the type's own (derived/inherent) method"""
    if ' as LocoTrait>' not in b.fid:
        return False
    inner = prog.by_id.get('%s::derive(HistoryMethods)::%s' % (tname, meth))
    return inner is not None


def _recv_is(arg, path, vec):
    if arg[0] != 'ref':
        return False
    p = arg[1]
    if vec:
        return len(p) == len(path) + 1 and p[:len(path)] == path and p[-1][0] == 'idx'
    return p == path


def _is_iter_decision(d):
    """the decision "the collection has another element" of a plain loop — not one behind filter / skip / take_while / ..."""
    from .common import plain_iteration
    return plain_iteration(d[0])


def _gate_ok(pc):
    """[(discr(save_interval), Some), ((state.i % interval) == 0, true)]"""
    pc = [d for d in pc if not _is_iter_decision(d)]
    if len(pc) != 2:
        return False
    (c1, o1), (c2, o2) = pc
    s1 = show(c1)
    if not (c1[0] == 'discr' and s1.endswith('save_interval)') and o1 in ('1',)):
        return False
    ok2 = c2[0] == 'eq' and c2[2] == ZERO and c2[1][0] == 'rem' and show(c2[1][1]).endswith('state.i') and 'save_interval@Some' in show(c2[1][2]) \
        and o2 not in ('0',)
    return ok2


# ------------------------------------------------------------------ C19-4
def interval(ctx, tree, eng, stateful):
    prog = ctx.prog
    n = 0
    for tname in sorted(set(stateful) | set(ROOTS)):
        b = prog.by_id.get(tname + '::set_save_interval')
        if b is None:
            continue
        an = analysis_or_fail(ctx, 'C19-4.interval', b)
        if an is None:
            continue
        n += 1
        try:
            arg = an.arg('save_interval')
        except KeyError:
            ctx.unproved('C19-4.interval', b.fid, 'no save_interval parameter', ctx.where(b)); continue
        root = (('obj', 1),)
        for p, cons, vp in tree.paths(tname, is_interval):
            if vp is not None and len(vp) > 1:
                owner = root + vp[:-1]
                sites = [c for c in an.calls if c.targets and any(t.endswith('::set_save_interval') for t in c.targets) and c.argvals and
                         c.argvals[0][0] == 'ref' and c.argvals[0][1] == owner]
                ok = len(sites) == 1 and sites[0].argvals[1] == arg and not sites[0].pc and not sites[0].in_loop
                ctx.check(ok, 'C19-4.interval', '%s|%s.set_save_interval' % (b.fid, show_path(vp[:-1])),
                          'the owner of the vector receives the argument through its own set_save_interval, unconditionally',
                          '%d call sites; gate %s' % (len(sites), [(show(x)[:60], o) for x, o in (sites[0].pc if sites else [])]), ctx.where(b))
                continue
            if vp is not None:
                vpath = root + vp
                sites = [c for c in an.calls if c.targets and any(t.endswith('::set_save_interval') for t in c.targets) and c.in_loop and
                         c.argvals and _recv_under(c.argvals[0], vpath)]
                ok = len(sites) == 1 and sites[0].argvals[1] == arg and not [d for d in sites[0].pc if not _is_iter_decision(d)]
                ctx.check(ok, 'C19-4.interval', '%s|%s[*]' % (b.fid, show_path(vp)), 'every element receives the argument through its own set_save_interval, unconditionally',
                          '%d call sites; argument %s; gate %s' % (len(sites), show(sites[0].argvals[1], an.names)[:80] if sites else None,
                                                                  [(show(x)[:60], o) for x, o in (sites[0].pc if sites else [])]), ctx.where(b))
                continue
            full = root + p
            post = arm_select(an.load(full, an.exit_state), an, root, cons)
            arm = ','.join(v[1] for v in cons.values())
            key = '%s|%s%s' % (b.fid, show_path(p), ' [%s]' % arm if arm else '')
            ctx.check(post == arg, 'C19-4.interval', key, 'field receives the argument on every path',
                      'field is %s at exit' % show(post, an.names)[:200], ctx.where(b))
    ctx.floor('set_save_interval functions', n, 6)
    # constructors that take a save_interval end in the propagating call (or store it when there is nothing nested)
    for fid in ('SpeedLimitTrainSim::new', 'SetSpeedTrainSim::new', 'ConsistSimulation::new', 'LocomotiveSimulation::new', 'Consist::new'):
        b = prog.by_id.get(fid)
        if b is None:
            continue
        an = analysis_or_fail(ctx, 'C19-4.interval', b)
        if an is None:
            continue
        try:
            arg = an.arg('save_interval')
        except KeyError:
            continue
        sites = [c for c in an.calls if c.targets and any(t.endswith('::set_save_interval') for t in c.targets)]
        cfg = an.cfg
        ok = len(sites) >= 1 and any(c.argvals[-1] == arg and cfg.every_ok_path_passes([c.block]) for c in sites)
        ctx.check(ok, 'C19-4.interval', fid + '|propagates', 'constructor calls set_save_interval(save_interval) on every path',
                  'set_save_interval calls: %s' % [(c.block, show(c.argvals[-1], an.names)[:60]) for c in sites], ctx.where(b))


# ------------------------------------------------------------------ C19-5
def historyvec(ctx, eng):
    prog = ctx.prog
    n = 0
    for fid, b in sorted(prog.by_id.items()):
        m = re.match(r'(\w+)HistoryVec::derive\(HistoryVec\)::push$', fid)
        if not m:
            continue
        td = prog.typedef(m.group(1))
        if td is None:
            ctx.unproved('C19-5.historyvec', fid, 'state struct not found'); continue
        an = analysis_or_fail(ctx, 'C19-5.historyvec', b)
        if an is None:
            continue
        n += 1
        missing = []
        for f in td.fields:
            post = an.exit_state.store.get((('obj', 1), ('f', f['name'])))
            want = ('push', ('pre', (('obj', 1), ('f', f['name']))), ('pre', (('val', 2), ('f', f['name']))))
            if post != want:
                missing.append(f['name'])
        ctx.check(not missing, 'C19-5.historyvec', fid, 'push appends every one of the %d state fields exactly once' % len(td.fields),
                  'fields not pushed exactly once: %s' % missing, ctx.where(b))
        lb = prog.by_id.get(fid.replace('::push', '::len'))
        if lb is not None:
            la = eng.analysis(lb)
            if la.exit_state is not None:
                r = la.ret()
                ok = r[0] == 'len' and r[1][0] == 'pre' and r[1][1][0] == ('obj', 1) and len(r[1][1]) == 2
                ctx.check(ok, 'C19-5.historyvec', fid.replace('::push', '::len'), 'len is the length of one of the field vectors', 'len is %s' % show(r)[:100], ctx.where(lb))
    ctx.floor('HistoryVec push functions', n, 9)


def defaults(ctx, eng):
    """all state structs start their counter at the same constant"""
    prog = ctx.prog
    vals = {}
    for fid, b in prog.by_id.items():
        m = re.match(r'<(\w+State) as Default>::default$', fid)
        if not m:
            continue
        td = prog.typedef(m.group(1))
        if td is None or td.field('i') is None:
            continue
        an = eng.analysis(b)
        if an.exit_state is None:
            continue
        r = an.ret()
        v = None
        if r[0] == 'agg':
            v = dict(r[2]).get('i')
        vals[m.group(1)] = v
    distinct = {show(v) for v in vals.values()}
    ctx.check(len(distinct) == 1 and len(vals) >= 7, 'C19-1.counters', 'Default counters', 'all %d state structs start i at %s' % (len(vals), list(distinct)[:1]),
              'initial counters differ: %s' % {k: show(v) for k, v in vals.items()})


# ------------------------------------------------------------------ C19-6
def drivers(ctx):
    """C19-6.drivers: one history entry per step, whichever entry point drives the run.  For each simulation root type,
    every method that (directly or through other such methods) calls the root's `save_state` or `step` is a driver; `step`
    itself saves once per step (C19-2).  In a driver, a save event — a direct `save_state` call, or a call to a driver that
    begins with one, like `walk` — may only be the first event: nothing (no step, no other save, no driver call, and not the
    event itself through a loop) may be able to precede it on any path.  Otherwise the hand-over between two drivers writes a
    second entry for the same step."""
    R = 'C19-6.drivers'
    prog = ctx.prog
    n_roots = 0
    n_drivers = 0
    for r in ROOTS:
        S_fid, T_fid = r + '::save_state', r + '::step'
        if S_fid not in prog.by_id or T_fid not in prog.by_id:
            ctx.unproved(R, r, 'save_state / step of the root not found (anchor)'); continue
        n_roots += 1
        methods = [b for b in prog.bodies if b.kind == 'fn' and not b.test and b.fid.startswith(r + '::')
                   and b.fid not in (S_fid, T_fid, r + '::solve_step')]
        cfgs = {b.fid: CFG(b) for b in methods}
        kind = {}          # fid -> 'S' (begins with / contains a save event) | 'T' (steps only)
        events = {}
        changed = True
        while changed:
            changed = False
            for b in methods:
                ev = []
                for bn, t in cfgs[b.fid].call_sites():
                    tg = [x.fid for x in prog.resolve(t.callee)]
                    if S_fid in tg:
                        ev.append((bn, 'S', 'save_state', t))
                    elif T_fid in tg:
                        ev.append((bn, 'T', 'step', t))
                    else:
                        for x in tg:
                            if x in kind and x != b.fid:
                                ev.append((bn, kind[x], x, t)); break
                if ev:
                    k = 'S' if any(e[1] == 'S' for e in ev) else 'T'
                    if kind.get(b.fid) != k or events.get(b.fid) != ev:
                        kind[b.fid] = k; events[b.fid] = ev; changed = True
        for fid in sorted(events):
            b = prog.by_id[fid]
            cfg = cfgs[fid]
            n_drivers += 1
            bad = []
            for bn, k, what, t in events[fid]:
                if k != 'S':
                    continue
                for bn2, k2, what2, t2 in events[fid]:
                    after = set()
                    for sc in cfg.succ.get(bn2, []):
                        after |= cfg._reach_from(sc)
                    if bn in after:
                        bad.append('%s can follow %s' % (what if what == 'save_state' else what + ' (saves first)', what2))
            ctx.check(not bad, R, fid, 'saves at most once, before anything else (%s)' % ', '.join('%s' % e[2].split('::')[-1] for e in events[fid]),
                      'a second history entry can be written for one step: %s' % '; '.join(sorted(set(bad))), ctx.where(b))
    ctx.floor('simulation roots with drivers', n_roots, 4)
    ctx.floor('driver methods', n_drivers, 6)
