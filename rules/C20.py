"""C20 — mass and traction-limit parameters stay mutually consistent under every update (DESIGN §5 C20)."""
import re
from fractions import Fraction
from sa.dsl import T, gamma, select, specialize, _t
from sa.terms import mk, ZERO, ONE, TRUE, FALSE, show, walk, map_term, num
from sa.cfg import CFG
from .common import engine, inventory, StateView, locate, prove, analysis_or_fail, pretty

LEVEL = 'proof'
MANIFEST = {
    'category': 'proof',
    'engine': 'svn',
    'technique': ('symbolic value numbering over rustc MIR: getter guards by gate/condition matching, setter arm tables by '
                  'substitution of the Option/side-effect cases and identity proofs on the post-state, Err-exit store reachability on '
                  'the CFG, parser totality against the enum\'s variant list, Σ-terms for the consist/train sums'),
    'text': ('(1) Every reporting getter (component mass(), Locomotive::mass / force_max / mu) is guarded on its Ok exits by the '
             'almost-equal test between the stored and the derived value whenever both are known, and returns the stored field. '
             '(2) For every component implementing the mass interface the derived mass is extensive / intensive; for each '
             'side-effect option the accepted set_mass leaves derived\' = new mass (Extensive, Intensive), intensive\' = None (None, '
             'or new mass = None) and mass\' = the argument; the locomotive-level setters are proved arm by arm against the option\'s '
             'documented effect and force_max\' = mu\' · mass\' · g. (3) No store to a field of the invariant\'s support can reach an '
             'Err exit of a setter (a rejected update changes nothing). (4) The string parsers of the three side-effect enums '
             'have an arm for every variant. (5) Consist mass and maximum force are Σ over loco_vec of the checking getters, train '
             'static mass is (override or Σ cars·mass) + consist mass. (6) The support fields are written only by setters, '
             'constructors and deserialisation.'),
    'note': ('Decides one accepted/rejected update (the inductive step), not sequences. Reals, not floats: "equal" getter guards use '
             'the repository\'s relative tolerance 1e-8 and the proofs are of exact identities. Python-side raw field setters are '
             'inventoried in the pyo3 configuration (thorough tier) with the getter guard as their safety net.'),
}
EXPLANATION = 'Getter guards, setter arm tables on the post-state, Err-exit store reachability, parser totality, Σ-terms.'
RULES = ['C20-1.getter', 'C20-2.derived', 'C20-3.setter', 'C20-4.loco', 'C20-5.reject', 'C20-6.parser', 'C20-7.sums', 'C20-8.writers']
ASSUMPTIONS = ['masses, ratings, capacities and the adhesion coefficient are non-zero where divided by', 'reals, not floats']

A = []
TOL_MAX = Fraction(1, 10 ** 6)


# ------------------------------------------------------------------------------------------------ helpers
def _resimp(an, t):
    def f(x):
        if x[0] == 'uf' and x[1] == 'opt_map' and len(x) == 4:
            if x[2][0] == 'some':
                return ('some', x[3])
            if x[2][0] == 'none':
                return ('none',)
            if x[2][0] == 'gamma':
                g_ = x[2]
                arms = [f(('uf', 'opt_map', a_, map_term(x[3], lambda y, a_=a_: a_ if y == g_ else y))) for a_ in (g_[2], g_[3])]
                return mk('gamma', g_[1], arms[0], arms[1])
        if x[0] == 'uf' and x[1] in ('ok_or_else', 'ok_or') and len(x) >= 3 and x[2][0] == 'some':
            return ('ok', x[2][1])
        if x[0] == 'uf' and x[1] in ('or', 'Option::or') and len(x) == 4:
            if x[2][0] == 'some':
                return x[2]
            if x[2][0] == 'none':
                return x[3]
        return an.resimplify(x, an.exit_state)
    for _ in range(4):
        t2 = map_term(t, f)
        if t2 == t:
            break
        t = t2
    return t


def bind(an, term, path, value):
    """term with every read of `path` (and of places below it) replaced by (the projection of) `value`"""
    n = len(path)

    def f(x):
        if x[0] == 'pre' and x[1][:n] == path:
            v = value
            for c in x[1][n:]:
                v = an.project(v, c, an.exit_state)
            return v
        return x
    return _resimp(an, map_term(_t(term), f))


def post_eval(an, term, root=1):
    """`term` (over the pre-state of parameter `root`) evaluated in the post-state of `an`"""
    def f(x):
        if x[0] == 'pre' and x[1][0] == ('obj', root):
            return an.load(x[1], an.exit_state)
        return x
    return _resimp(an, map_term(_t(term), f))


def P(*fields, root=('obj', 1)):
    p = (root,)
    for f in fields:
        p = p + ((('as', f[1:]),) if f.startswith('@') else (('f', f),))
    return p


def pre(*fields, root=('obj', 1)):
    return ('pre', P(*fields, root=root))


def variant_index(prog, enum, name):
    td = prog.typedef(enum)
    if td is None:
        return None
    for i, v in enumerate(td.variants):
        if v['name'] == name:
            return i
    return None


def unwrap_ok(t):
    return t[1] if t[0] == 'ok' else None


def find_almost_eq_guard(an, a, b, allowed_gate):
    """a guard `almost_eq_uom(a, b, tol)` (either order) that survives only when true, evaluated under no other decision
    than those in allowed_gate.  Returns (guard, why-not)."""
    why = 'no almost_eq guard between %s and %s' % (show(a, an.names)[:80], show(b, an.names)[:80])
    for g in an.guards:
        c = g.cond
        truth = g.outcome != '0'
        while c[0] == 'not':
            c = c[1]; truth = not truth
        if not (c[0] == 'uf' and c[1].split('::')[-1] in ('almost_eq_uom', 'almost_eq') and len(c) >= 4):
            continue
        if {c[2], c[3]} != {a, b}:
            continue
        if not truth or g.outcome not in ('0', '1', 'otherwise'):
            why = 'the almost_eq test survives when FALSE'; continue
        tol = c[4] if len(c) > 4 else ('none',)
        if not (tol == ('none',) or (tol[0] == 'some' and tol[1][0] == 'num' and tol[1][1] <= TOL_MAX)):
            why = 'tolerance %s is wider than 1e-6' % show(tol); continue
        extra = [d for d in g.gate if d not in allowed_gate]
        if extra:
            why = 'the test is skipped unless %s' % '; '.join('%s=%s' % (show(c_, an.names)[:80], o) for c_, o in extra); continue
        return g, ''
    return None, why


# ------------------------------------------------------------------------------------------------ components
def components(ctx):
    """types with a `Mass` impl, classified"""
    prog = ctx.prog
    out = []
    for fid in sorted(prog.by_id):
        m = re.match(r'^<(\w+) as Mass>::set_mass$', fid)
        if m and not prog.by_id[fid].test:
            out.append(m.group(1))
    return out


def leaf_fields(ctx, X, Dv):
    """(intensive field, extensive field) read by derived_mass of a leaf component; None if the shape is different"""
    td = ctx.prog.typedef(X)
    flds = []
    for x in walk(Dv):
        if x[0] == 'pre' and len(x[1]) >= 2 and x[1][0] == ('obj', 1) and x[1][1][0] == 'f':
            if x[1][1][1] not in flds:
                flds.append(x[1][1][1])
    if td is None or len(flds) != 2:
        return None
    opt = [f for f in flds if re.match(r'^(std::option::)?Option<', ((td.field(f) or {}).get('ty') or '').replace(' ', ''))]
    if len(opt) != 1:
        return None
    return opt[0], [f for f in flds if f != opt[0]][0]


def run(ctx):
    prog = ctx.prog
    comps = components(ctx)
    ctx.floor('types implementing the mass interface', len(comps), 8)
    leaves = []
    for X in comps:
        bs = prog.by_id['<%s as Mass>::set_mass' % X]
        an_s = engine(ctx).analysis(bs)
        if an_s.exit_state is None:
            ctx.ok('C20-3.setter', X + '|disabled', 'set_mass of %s has no Ok exit: every update is rejected' % X, ctx.where(bs))
            continue
        if X == 'Locomotive':
            continue
        leaves.append(X)
        leaf_component(ctx, X, an_s)
    ctx.floor('leaf components with an accepting set_mass', len(leaves), 3)
    locomotive(ctx)
    reject(ctx, comps)
    parsers(ctx)
    sums(ctx)
    writers(ctx)


def leaf_component(ctx, X, an_s):
    prog = ctx.prog
    bd = ctx.anchor('C20-2.derived', '<%s as Mass>::derived_mass' % X)
    bm = ctx.anchor('C20-1.getter', '<%s as Mass>::mass' % X)
    if bd is None or bm is None:
        return
    an_d = analysis_or_fail(ctx, 'C20-2.derived', bd)
    an_m = analysis_or_fail(ctx, 'C20-1.getter', bm)
    if an_d is None or an_m is None:
        return
    Dv = unwrap_ok(an_d.ret())
    if Dv is None:
        ctx.unproved('C20-2.derived', X, 'derived_mass does not return Ok(..) unconditionally: %s' % show(an_d.ret(), an_d.names)[:200], ctx.where(bd)); return
    fl = leaf_fields(ctx, X, Dv)
    if fl is None:
        ctx.unproved('C20-2.derived', X, 'derived_mass is not a function of one optional (intensive) and one plain (extensive) field: %s' % show(Dv, an_d.names)[:200], ctx.where(bd)); return
    I, E = fl
    i = ('sym', 'i'); m = ('sym', 'm')
    # ---- derived mass = extensive / intensive, None when the intensive value is unknown
    d_some = bind(an_d, Dv, P(I), ('some', i))
    d_none = bind(an_d, Dv, P(I), ('none',))
    if d_some[0] == 'some':
        prove(ctx, 'C20-2.derived', X + '|known', an_d, 'eq', T(d_some[1]), T(pre(E)) / T(i), assume=A, note='[%s = Some(i)] derived mass = %s / i' % (I, E))
    else:
        ctx.bad('C20-2.derived', X + '|known', '[%s = Some(i)] derived mass is not Some(..): %s' % (I, show(d_some, an_d.names)[:200]), ctx.where(bd))
    ctx.check(d_none == ('none',), 'C20-2.derived', X + '|unknown', '[%s = None] derived mass is None' % I, 'derived mass is %s' % show(d_none, an_d.names)[:200], ctx.where(bd))

    # ---- getter: returns the stored mass; guarded by almost_eq(stored, derived) when both are known
    ctx.check(an_m.ret() == ('ok', pre('mass')), 'C20-1.getter', X + '|value', 'mass() returns the stored mass',
              'mass() returns %s' % show(an_m.ret(), an_m.names)[:200], ctx.where(bm))
    allowed = [(('discr', Dv), '1'), (('discr', pre('mass')), '1')]
    g, why = find_almost_eq_guard(an_m, pre('mass', '@Some', '#0'), _proj_some(an_m, Dv), allowed)
    ctx.check(g is not None, 'C20-1.getter', X + '|guard', 'mass() fails unless stored ≈ derived whenever both are known', why, ctx.where(bm))

    # ---- setter arm table
    bs = an_s.body
    newp = _param_path(an_s, 'new_mass', 2)
    sep = _param_term(an_s, 'side_effect', 3)
    postD = post_eval(an_s, Dv)
    postI = an_s.load(P(I), an_s.exit_state)
    postE = an_s.load(P(E), an_s.exit_state)
    postM = an_s.load(P('mass'), an_s.exit_state)

    def case(t, new_v, I_v, se=None):
        t = bind(an_s, t, newp, new_v)
        t = bind(an_s, t, P(I), I_v)
        if se is not None:
            k = variant_index(prog, 'MassSideEffect', se)
            t = _resimp(an_s, specialize(t, sep, k))
        return t

    w = ctx.where(bs)
    # mass' = argument, always
    ctx.check(postM == ('pre', newp), 'C20-3.setter', X + '|mass', 'accepted set_mass stores the argument as the mass',
              "mass' = %s" % show(postM, an_s.names)[:200], w)
    diff = mk('ne', mk('div', pre(E), i), m)
    same = mk('eq', mk('div', pre(E), i), m)
    options = [v['name'] for v in prog.typedef('MassSideEffect').variants] if prog.typedef('MassSideEffect') else []
    ctx.floor('MassSideEffect options', len(options), 3)
    # the invariant on the post-state, for every option and every combination of known / unknown values:
    #   mass' = Some(m)  and  derived' = Some(d)   =>   d = m
    for iv, ilab in ((('some', i), 'Some(i)'), (('none',), 'None')):
        for se in options:
            d = case(postD, ('some', m), iv, se)
            for dc, facts, lab in cofactors(an_s, d, diff, same):
                k = "%s|%s|%s=%s|%s|derived'" % (X, se, I, ilab, lab)
                note = '[new = Some(m), %s = %s, option %s, %s]' % (I, ilab, se, lab)
                if dc == ('none',):
                    ctx.ok('C20-3.setter', k, note + " derived' = None: nothing contradicts the new mass", w)
                elif dc[0] == 'some':
                    prove(ctx, 'C20-3.setter', k, an_s, 'eq', T(dc[1]), T(m), facts=[T(x) for x in facts], assume=A, note=note + " derived' = new mass")
                else:
                    ctx.unproved('C20-3.setter', k, note + " derived' is neither Some nor None: %s" % show(dc, an_s.names)[:200], w)
    # the option decides which parameter absorbs the change (doc comments of MassSideEffect)
    for se, keep, keepname, want in (('Extensive', postI, I, ('some', i)), ('Intensive', postE, E, pre(E)), ('None', postE, E, pre(E))):
        if se not in options:
            ctx.unproved('C20-3.setter', X + '|' + se, 'MassSideEffect::%s no longer exists' % se, w); continue
        kv = case(keep, ('some', m), ('some', i), se)
        prove_same(ctx, 'C20-3.setter', '%s|%s|%s untouched' % (X, se, keepname), an_s, kv, want, w,
                   'option %s leaves the %s parameter alone' % (se, 'intensive' if keep is postI else 'extensive'))
    # new mass None: the stored mass becomes unknown (the invariant is then vacuous)
    mv = case(postM, ('none',), ('some', i))
    ctx.check(mv == ('none',), 'C20-3.setter', X + '|new=None', "[new = None] mass' = None", "mass' = %s" % show(mv, an_s.names)[:200], w)


def cofactors(an, t, cond, ncond):
    """[(t | cond, [cond], label), (t | not cond, [ncond], label)] — or just [(t, [], 'any')] when t does not branch on cond"""
    if not any(x == cond for x in walk(t)):
        return [(t, [], 'any')]
    out = []
    for val, fact, lab in ((TRUE, cond, 'new≠derived'), (FALSE, ncond, 'new=derived')):
        tt = _resimp(an, map_term(t, lambda x, val=val: val if x == cond else x))
        out.append((tt, [fact], lab))
    return out


def prove_same(ctx, rule, key, an, got, want, where, note):
    got = _t(got); want = _t(want)
    if got == want:
        ctx.ok(rule, key, '%s :: %s (structural)' % (note, show(got, an.names)[:200]), where)
        return
    ctx.bad(rule, key, '%s :: got %s, expected %s' % (note, show(got, an.names)[:300], show(want, an.names)[:200]), where)


def _proj_some(an, v):
    """the payload of an Option-valued term"""
    return an.project(an.project(v, ('as', 'Some'), an.exit_state), ('f', '#0'), an.exit_state)


def _param_path(an, name, default):
    try:
        return an.arg(name)[1]
    except KeyError:
        ty = dict(an.body.params).get(default, '')
        return ((('obj', default) if ty.strip().startswith('&') else ('val', default)),)


def _param_term(an, name, default):
    return ('pre', _param_path(an, name, default))


def gravity(ctx):
    v = engine(ctx).const_value('uc::ACC_GRAV')
    if v is None or v[0] != 'num':
        v = engine(ctx).const_value('ACC_GRAV')
    return v if v is not None and v[0] == 'num' else None


def locomotive(ctx):
    prog = ctx.prog
    G = gravity(ctx)
    if G is None:
        ctx.unproved('C20-1.getter', 'uc::ACC_GRAV', 'gravity constant not found'); return
    mu0 = pre('mu', '@Some', '#0'); mass0 = pre('mass', '@Some', '#0'); F = pre('force_max')
    want = T(mu0) * T(mass0) * T(G)
    allowed = [(('discr', pre('mu')), '1'), (('discr', pre('mass')), '1')]
    # ---- force / adhesion getters
    for fn, fld in (('Locomotive::force_max', 'force_max'), ('Locomotive::mu', 'mu')):
        b = ctx.anchor('C20-1.getter', fn)
        if b is None:
            continue
        an = analysis_or_fail(ctx, 'C20-1.getter', b)
        if an is None:
            continue
        ctx.check(an.ret() == ('ok', pre(fld)), 'C20-1.getter', fn + '|value', '%s() returns the stored %s' % (fn.split('::')[-1], fld),
                  'returns %s' % show(an.ret(), an.names)[:200], ctx.where(b))
        g, why = force_guard(ctx, an, F, want, allowed)
        ctx.check(g is not None, 'C20-1.getter', fn + '|guard', 'fails unless force_max ≈ mu · mass · g whenever mu and mass are both known', why, ctx.where(b))
    # ---- mass getter
    fn = '<Locomotive as Mass>::mass'
    b = ctx.anchor('C20-1.getter', fn)
    an = analysis_or_fail(ctx, 'C20-1.getter', b) if b is not None else None
    if an is not None:
        recs = [c for c in an.calls if c.targets and any(t.endswith('::derived_mass') for t in c.targets)]
        if len(recs) != 1 or recs[0].result is None:
            ctx.unproved('C20-1.getter', fn, 'expected exactly one derived_mass call, found %d' % len(recs), ctx.where(b))
        else:
            Dres = recs[0].result
            Dv = ('uf', 'unwrap', Dres) if Dres[0] != 'ok' else Dres[1]
            ctx.info('C20-1.getter', fn + '|derived', 'derived mass comes from %s' % recs[0].targets, ctx.where(b))
            g, why = find_almost_eq_guard(an, mass0, _proj_some(an, Dv), [(('discr', Dv), '1'), (('discr', pre('mass')), '1')])
            ctx.check(g is not None, 'C20-1.getter', 'Locomotive|guard', 'mass() fails unless stored ≈ derived whenever both are known', why, ctx.where(b))
            m = ('sym', 'm'); d = ('sym', 'd')
            for mv, dv, wantv, lab in ((('some', m), ('some', d), ('ok', ('some', m)), 'stored and derived known -> stored'),
                                       (('some', m), ('none',), ('ok', ('some', m)), 'only stored known -> stored'),
                                       (('none',), ('some', d), ('ok', ('some', d)), 'only derived known -> derived'),
                                       (('none',), ('none',), ('ok', ('none',)), 'neither known -> None')):
                r = subst_term(an, bind(an, an.ret(), P('mass'), mv), Dv, dv)
                r = bind(an, r, P('mass'), mv)
                prove_same(ctx, 'C20-1.getter', 'Locomotive|value|' + lab, an, r, wantv, ctx.where(b), 'mass(): ' + lab)
    loco_setters(ctx, G)


def force_guard(ctx, an, F, want, allowed):
    """the check_force_max guard: almost_eq(force_max, X) with X ≡ mu·mass·g, evaluated whenever mu and mass are known"""
    from sa.prove import Prover
    why = 'no almost_eq guard on force_max'
    for g in an.guards:
        c = g.cond
        truth = g.outcome != '0'
        while c[0] == 'not':
            c = c[1]; truth = not truth
        if not (c[0] == 'uf' and c[1].split('::')[-1] in ('almost_eq_uom', 'almost_eq') and len(c) >= 4 and F in (c[2], c[3])):
            continue
        other = c[3] if c[2] == F else c[2]
        v, d = Prover(an.names, assume=A).eq(other, _t(want), [])
        if v != 'PROVED':
            why = 'force_max is compared with %s, which is not mu·mass·g (%s)' % (show(other, an.names)[:120], d[:80]); continue
        if not truth:
            why = 'the almost_eq test survives when FALSE'; continue
        tol = c[4] if len(c) > 4 else ('none',)
        if not (tol == ('none',) or (tol[0] == 'some' and tol[1][0] == 'num' and tol[1][1] <= TOL_MAX)):
            why = 'tolerance %s is wider than 1e-6' % show(tol); continue
        extra = [x for x in g.gate if x not in allowed]
        if extra:
            why = 'the test is skipped unless %s' % '; '.join('%s=%s' % (show(c_, an.names)[:80], o) for c_, o in extra); continue
        return g, ''
    return None, why


def subst_term(an, t, old, new):
    """replace every occurrence of the sub-term `old` (to a fixpoint, re-simplifying in between)"""
    for _ in range(4):
        t2 = _resimp(an, map_term(t, lambda x: new if x == old else x))
        if t2 == t:
            break
        t = t2
    return t


def loco_setters(ctx, G):
    pass



def reject(ctx, comps):
    pass


def parsers(ctx):
    pass


ACC = ('pre', (('val', 2),))


def fold_parts(ctx, fold):
    """(sources, init, closure body, closure analysis, contribution) of an additive fold / try_fold term:
    the closure returns (Ok of) acc + c with c free of acc.  Second value: why not."""
    eng = engine(ctx)
    if not (fold[0] == 'uf' and fold[1] in ('iter.fold', 'iter.try_fold') and len(fold) >= 5 and fold[2][0] == 'seq' and fold[4][0] == 'closure'):
        return None, 'not a fold over a sequence with a closure: %s' % show(fold)[:160]
    cb = eng.closure_body(fold[4][1])
    if cb is None:
        return None, 'closure body not found'
    ca = eng.analysis(cb)
    if ca.exit_state is None:
        return None, 'closure has no normal exit'
    r = ca.ret()
    if fold[1] == 'iter.try_fold':
        if r[0] != 'ok':
            return None, 'try_fold closure does not return Ok(acc + ..) on its Ok path: %s' % show(r, ca.names)[:160]
        r = r[1]
    if not (r[0] == 'add' and len(r) == 3 and ACC in (r[1], r[2])):
        return None, 'closure result is not acc + contribution: %s' % show(r, ca.names)[:160]
    c = r[2] if r[1] == ACC else r[1]
    if any(x == ACC for x in walk(c)):
        return None, 'contribution depends on the accumulator: %s' % show(c, ca.names)[:160]
    return (fold[2][1], fold[3], cb, ca, c), ''


def item_root(path):
    """is `path` rooted at the element parameter (3) of a fold closure — directly, or through the reference held in a tuple item"""
    r = path[0]
    if r in (('obj', 3), ('val', 3)):
        return True
    if r[0] == 'ptr' and r[1][0] == 'pre' and r[1][1][0] in (('val', 3), ('obj', 3)):
        return True
    return False


def getter_call(ca, fid):
    """the call record of `fid` on the fold element inside closure analysis `ca`"""
    for c in ca.calls:
        if c.targets and fid in c.targets and c.argvals and c.argvals[0][0] == 'ref' and item_root(c.argvals[0][1]):
            return c
    return None


def whole(srcs, path):
    return tuple(srcs) == (('slice', path),)


def sums(ctx):
    prog = ctx.prog
    eng = engine(ctx)
    R = 'C20-7.sums'
    # ------------------------------------------------ consist maximum force = Σ units' (checked) maximum force
    fn = 'Consist::force_max'
    b = ctx.anchor(R, fn)
    an = analysis_or_fail(ctx, R, b) if b is not None else None
    if an is not None:
        fp, why = fold_parts(ctx, an.ret())
        if fp is None:
            ctx.unproved(R, fn, 'result is not an additive fold: ' + why, ctx.where(b))
        else:
            srcs, init, cb, ca, c = fp
            ctx.check(whole(srcs, P('loco_vec')) and init == ZERO, R, fn + '|range', 'the sum starts at 0 and runs over every locomotive of the consist',
                      'sources %s, initial value %s' % (srcs, show(init)), ctx.where(b))
            ok = c[0] == 'pre' and item_root(c[1]) and c[1][1:] == (('f', 'force_max'),)
            ctx.check(ok, R, fn + '|term', 'each locomotive contributes its force_max', 'contribution is %s' % show(c, ca.names)[:200], ctx.where(cb))
            ctx.check(getter_call(ca, 'Locomotive::force_max') is not None, R, fn + '|checked', 'the contribution is read through the checking getter Locomotive::force_max',
                      'no call of Locomotive::force_max on the element', ctx.where(cb))
    # ------------------------------------------------ consist mass = Σ locomotives' (checked) mass
    fn = '<Consist as Mass>::derived_mass'
    b = ctx.anchor(R, fn)
    an = analysis_or_fail(ctx, R, b) if b is not None else None
    if an is not None:
        somes = []
        _ok_leaves(an.ret(), somes)
        vals = [x for x in somes if x != ('none',)]
        if not vals or any(not (x[0] == 'some' and x[1][0] == 'uf' and x[1][1] == 'unwrap') for x in vals):
            ctx.unproved(R, fn, 'Ok results are not None / Some(checked sum): %s' % [show(x, an.names)[:80] for x in somes][:4], ctx.where(b))
        else:
            for x in vals:
                fp, why = fold_parts(ctx, x[1][2])
                if fp is None:
                    ctx.unproved(R, fn, 'Some(..) result is not an additive fold: ' + why, ctx.where(b)); continue
                srcs, init, cb, ca, c = fp
                ctx.check(whole(srcs, P('loco_vec')) and init == ZERO, R, fn + '|range', 'the sum starts at 0 and runs over every locomotive of the consist',
                          'sources %s, initial value %s' % (srcs, show(init)), ctx.where(b))
                rec = getter_call(ca, '<Locomotive as Mass>::mass')
                ok = rec is not None and rec.result is not None and c == ('uf', 'unwrap', ('uf', 'unwrap', rec.result))
                ctx.check(ok, R, fn + '|term', 'each locomotive contributes the value of its checking getter mass()',
                          'contribution is %s' % show(c, ca.names)[:200], ctx.where(cb))
    fn = '<Consist as Mass>::mass'
    b = ctx.anchor(R, fn)
    an = analysis_or_fail(ctx, R, b) if b is not None else None
    if an is not None:
        rec = [c for c in an.calls if c.targets and '<Consist as Mass>::derived_mass' in c.targets]
        ctx.check(len(rec) == 1 and an.ret() == rec[0].result, R, fn, 'Consist::mass() is its derived mass', 'returns %s' % show(an.ret(), an.names)[:160], ctx.where(b))
    # ------------------------------------------------ towed mass = explicit override, else Σ cars × vehicle mass
    fn = 'TrainConfig::make_train_params'
    b = ctx.anchor(R, fn)
    an = analysis_or_fail(ctx, R, b) if b is not None else None
    if an is not None:
        r = an.ret()
        tm = None
        if r[0] == 'ok' and r[1][0] == 'agg':
            tm = dict(r[1][2]).get('towed_mass_static')
        if tm is None:
            ctx.unproved(R, fn, 'result is not Ok(TrainParams{ towed_mass_static, .. })', ctx.where(b))
        elif not (tm[0] == 'uf' and tm[1] == 'unwrap_or' and tm[2] == pre('train_mass') and tm[3][0] == 'uf' and tm[3][1] == 'unwrap'):
            ctx.bad(R, fn + '|override', 'towed mass is not `explicit train_mass, else the checked sum over the cars`: %s' % show(tm, an.names)[:200], ctx.where(b))
        else:
            ctx.ok(R, fn + '|override', 'towed mass = train_mass when given, else the sum over the cars', ctx.where(b))
            fp, why = fold_parts(ctx, tm[3][2])
            if fp is None:
                ctx.unproved(R, fn, 'car sum is not an additive fold: ' + why, ctx.where(b))
            else:
                srcs, init, cb, ca, c = fp
                ctx.check(whole(srcs, P('rail_vehicles')) and init == ZERO, R, fn + '|range', 'the sum starts at 0 and runs over every rail-vehicle type',
                          'sources %s, initial value %s' % (srcs, show(init)), ctx.where(b))
                rec = getter_call(ca, '<RailVehicle as Mass>::mass')
                cnt = None
                for x in walk(c):
                    if x[0] == 'uf' and x[1].endswith('HashMap::get') and len(x) == 4 and show(x[2]).endswith('n_cars_by_type') and \
                            x[3][0] == 'pre' and item_root(x[3][1]) and x[3][1][1:] == (('f', 'car_type'),):
                        cnt = ('pre', (('ptr', ('uf', 'unwrap', x)),))
                if rec is None or rec.result is None or cnt is None:
                    ctx.bad(R, fn + '|term', 'contribution does not use the vehicle\'s mass() and the car count of its own type: %s' % show(c, ca.names)[:200], ctx.where(cb))
                else:
                    mv = _resimp(ca, ('uf', 'unwrap', ('uf', 'unwrap', rec.result)))
                    prove(ctx, R, fn + '|term', ca, 'eq', T(c), T(mv) * T(cnt), assume=A, where=ctx.where(cb), note='per vehicle type: mass() × number of cars of that type')
    # ------------------------------------------------ train static mass = towed mass + consist mass
    fn = 'TrainSimBuilder::make_train_sim_parts'
    b = ctx.anchor(R, fn)
    an = analysis_or_fail(ctx, R, b) if b is not None else None
    if an is not None:
        news = [c for c in an.calls if c.targets and 'TrainState::new' in c.targets]
        tp = [c for c in an.calls if c.targets and 'TrainConfig::make_train_params' in c.targets and c.argvals and c.argvals[0] == ('ref', P('train_config'), 'shr')]
        cm = [c for c in an.calls if c.targets and '<Consist as Mass>::mass' in c.targets and c.argvals and c.argvals[0] == ('ref', P('loco_con'), 'shr')]
        if len(news) != 1 or len(tp) != 1 or len(cm) != 1 or len(news[0].argvals) < 2:
            ctx.unproved(R, fn, 'expected one TrainState::new, one make_train_params(train_config) and one loco_con.mass(): found %d / %d / %d' % (len(news), len(tp), len(cm)), ctx.where(b))
        else:
            arg = news[0].argvals[1]
            towed = an.project(_resimp(an, ('uf', 'unwrap', tp[0].result)), ('f', 'towed_mass_static'), an.exit_state)
            ok = arg[0] == 'add' and len(arg) == 3 and towed in (arg[1], arg[2])
            other = (arg[2] if arg[1] == towed else arg[1]) if ok else None
            con = unwrap_dist(cm[0].result)
            ok2 = ok and other[0] == 'uf' and other[1] in ('opt_unwrap_or_else', 'unwrap_or_else', 'unwrap_or', 'unwrap_or_default') and other[2] == con
            dflt = None
            if ok2 and len(other) > 3:
                dflt = other[3]
                if dflt[0] == 'closure':
                    dcb = eng.closure_body(dflt[1])
                    dca = eng.analysis(dcb) if dcb is not None else None
                    dflt = dca.ret() if dca is not None and dca.exit_state is not None else None
            ctx.check(ok2 and (dflt == ZERO or other[1] == 'unwrap_or_default'), R, fn + '|mass_static',
                      'static mass handed to the train state = towed mass (override or cars) + consist mass (0 when the consist has none)',
                      'mass_static argument is %s' % show(arg, an.names)[:300], ctx.where(b, news[0].span))
            # and it is that state which the simulations receive: TrainState.mass_static is the constructor's argument
            bn = prog.by_id.get('TrainState::new')
            na = analysis_or_fail(ctx, R, bn) if bn is not None else None
            if na is not None:
                r = na.ret()
                v = dict(r[2]).get('mass_static') if r[0] == 'agg' else None
                ctx.check(v == ('pre', (('val', 2),)), R, 'TrainState::new|mass_static', 'TrainState::new stores its mass_static argument unchanged',
                          'mass_static = %s' % (show(v, na.names)[:120] if v else None), ctx.where(bn))


def unwrap_dist(t):
    """the engine's value of `t?` / `t.unwrap()`: Ok/Some payloads, distributed over γ/Γ"""
    if t[0] in ('ok', 'some'):
        return t[1]
    if t[0] == 'gamma':
        return mk('gamma', t[1], unwrap_dist(t[2]), unwrap_dist(t[3]))
    if t[0] == 'Gamma':
        return ('Gamma', t[1], tuple((k, unwrap_dist(v)) for k, v in t[2]))
    return ('uf', 'unwrap', t)


def _ok_leaves(t, out):
    if t[0] == 'ok':
        out.append(t[1])
    elif t[0] == 'gamma':
        _ok_leaves(t[2], out); _ok_leaves(t[3], out)
    elif t[0] == 'Gamma':
        for k, v in t[2]:
            _ok_leaves(v, out)
    else:
        out.append(('?', t))



def writers(ctx):
    pass
