"""C20 — mass and traction-limit parameters stay mutually consistent under every update (DESIGN §5 C20)."""
import re
from fractions import Fraction
from sa.dsl import T, gamma, select, specialize, _t
from sa.terms import mk, ZERO, ONE, TRUE, FALSE, show, walk, map_term, num
from sa.cfg import CFG
from .common import engine, inventory, StateView, locate, prove, analysis_or_fail, pretty

LEVEL = 'other'
MANIFEST = {
    'category': 'other',
    'engine': 'svn',
    'technique': ('symbolic value numbering over rustc MIR: getter guards by gate/condition matching, setter arm tables by '
                  'substitution of the Option/side-effect cases and identity proofs on the post-state, Err-exit store reachability on '
                  'the CFG, parser totality against the enum\'s variant list, Σ-terms for the consist/train sums'),
    'text': ('(1) Every reporting getter (component mass(), Locomotive::mass / force_max / mu) is guarded on its Ok exits by the '
             'almost-equal test between the stored and the derived value whenever both are known, and returns the stored field. '
             '(2) For every component implementing the mass interface the derived mass is extensive / intensive; for each '
             'side-effect option the accepted set_mass leaves derived\' = new mass (Extensive, Intensive), intensive\' = None (None, '
             'or new mass = None) and mass\' = the argument; the locomotive-level setters are proved arm by arm against the option\'s '
             'documented effect and force_max\' = mu\' · mass\' · g. (3) No store to a field of the invariant\'s support can reach an '
             'Err exit of a setter (a rejected update changes nothing). (4) The string parsers of the three side-effect enums '
             'have an arm for every variant. (5) Consist mass and maximum force are Σ over loco_vec of the checking getters, train '
             'static mass is (override or Σ cars·mass) + consist mass. (6) The support fields are written only by setters, '
             'constructors and deserialisation.'),
    'note': ('Decides one accepted/rejected update (the inductive step), not sequences. Reals, not floats: "equal" getter guards use '
             'the repository\'s relative tolerance 1e-8 and the proofs are of exact identities. Python-side raw field setters are '
             'inventoried in the pyo3 configuration (thorough tier) with the getter guard as their safety net.'),
}
EXPLANATION = 'Getter guards, setter arm tables on the post-state, Err-exit store reachability, parser totality, Σ-terms.'
RULES = ['C20-1.getter', 'C20-2.derived', 'C20-3.setter', 'C20-4.loco', 'C20-5.reject', 'C20-6.parser', 'C20-7.sums', 'C20-8.writers']
ASSUMPTIONS = ['masses, ratings, capacities and the adhesion coefficient are non-zero where divided by', 'reals, not floats']

A = []
TOL_MAX = Fraction(1, 10 ** 6)


# ------------------------------------------------------------------------------------------------ helpers
def _resimp(an, t):
    def f(x):
        if x[0] == 'uf' and x[1] == 'opt_map' and len(x) == 4:
            if x[2][0] == 'some':
                return ('some', x[3])
            if x[2][0] == 'none':
                return ('none',)
            if x[2][0] == 'gamma':
                g_ = x[2]
                arms = [f(('uf', 'opt_map', a_, map_term(x[3], lambda y, a_=a_: a_ if y == g_ else y))) for a_ in (g_[2], g_[3])]
                return mk('gamma', g_[1], arms[0], arms[1])
        if x[0] == 'uf' and x[1] in ('ok_or_else', 'ok_or') and len(x) >= 3 and x[2][0] == 'some':
            return ('ok', x[2][1])
        if x[0] == 'uf' and x[1] in ('or', 'Option::or') and len(x) == 4:
            if x[2][0] == 'some':
                return x[2]
            if x[2][0] == 'none':
                return x[3]
        return an.resimplify(x, an.exit_state)
    for _ in range(4):
        t2 = map_term(t, f)
        if t2 == t:
            break
        t = t2
    return t


def bind(an, term, path, value):
    """term with every read of `path` (and of places below it) replaced by (the projection of) `value`"""
    n = len(path)

    def f(x):
        if x[0] == 'pre' and x[1][:n] == path:
            v = value
            for c in x[1][n:]:
                v = an.project(v, c, an.exit_state)
            return v
        return x
    return _resimp(an, map_term(_t(term), f))


def post_eval(an, term, root=1):
    """`term` (over the pre-state of parameter `root`) evaluated in the post-state of `an`"""
    def f(x):
        if x[0] == 'pre' and x[1][0] == ('obj', root):
            return an.load(x[1], an.exit_state)
        return x
    return _resimp(an, map_term(_t(term), f))


def P(*fields, root=('obj', 1)):
    p = (root,)
    for f in fields:
        p = p + ((('as', f[1:]),) if f.startswith('@') else (('f', f),))
    return p


def pre(*fields, root=('obj', 1)):
    return ('pre', P(*fields, root=root))


def variant_index(prog, enum, name):
    td = prog.typedef(enum)
    if td is None:
        return None
    for i, v in enumerate(td.variants):
        if v['name'] == name:
            return i
    return None


def unwrap_ok(t):
    return t[1] if t[0] == 'ok' else None


def find_almost_eq_guard(an, a, b, allowed_gate):
    """a guard `almost_eq_uom(a, b, tol)` (either order) that survives only when true, evaluated under no other decision
    than those in allowed_gate.  Returns (guard, why-not)."""
    why = 'no almost_eq guard between %s and %s' % (show(a, an.names)[:80], show(b, an.names)[:80])
    for g in an.guards:
        c = g.cond
        truth = g.outcome != '0'
        while c[0] == 'not':
            c = c[1]; truth = not truth
        if not (c[0] == 'uf' and c[1].split('::')[-1] in ('almost_eq_uom', 'almost_eq') and len(c) >= 4):
            continue
        if {c[2], c[3]} != {a, b}:
            continue
        if not truth or g.outcome not in ('0', '1', 'otherwise'):
            why = 'the almost_eq test survives when FALSE'; continue
        tol = c[4] if len(c) > 4 else ('none',)
        if not (tol == ('none',) or (tol[0] == 'some' and tol[1][0] == 'num' and tol[1][1] <= TOL_MAX)):
            why = 'tolerance %s is wider than 1e-6' % show(tol); continue
        extra = [d for d in g.gate if d not in allowed_gate]
        if extra:
            why = 'the test is skipped unless %s' % '; '.join('%s=%s' % (show(c_, an.names)[:80], o) for c_, o in extra); continue
        return g, ''
    return None, why


# ------------------------------------------------------------------------------------------------ components
def components(ctx):
    """types with a `Mass` impl, classified"""
    prog = ctx.prog
    out = []
    for fid in sorted(prog.by_id):
        m = re.match(r'^<(\w+) as Mass>::set_mass$', fid)
        if m and not prog.by_id[fid].test:
            out.append(m.group(1))
    return out


def leaf_fields(ctx, X, Dv):
    """(intensive field, extensive field) read by derived_mass of a leaf component; None if the shape is different"""
    td = ctx.prog.typedef(X)
    flds = []
    for x in walk(Dv):
        if x[0] == 'pre' and len(x[1]) >= 2 and x[1][0] == ('obj', 1) and x[1][1][0] == 'f':
            if x[1][1][1] not in flds:
                flds.append(x[1][1][1])
    if td is None or len(flds) != 2:
        return None
    opt = [f for f in flds if re.match(r'^(std::option::)?Option<', ((td.field(f) or {}).get('ty') or '').replace(' ', ''))]
    if len(opt) != 1:
        return None
    return opt[0], [f for f in flds if f != opt[0]][0]


def run(ctx):
    prog = ctx.prog
    comps = components(ctx)
    ctx.floor('types implementing the mass interface', len(comps), 8)
    leaves = []
    for X in comps:
        bs = prog.by_id['<%s as Mass>::set_mass' % X]
        an_s = engine(ctx).analysis(bs)
        if an_s.exit_state is None:
            ctx.ok('C20-3.setter', X + '|disabled', 'set_mass of %s has no Ok exit: every update is rejected' % X, ctx.where(bs))
            continue
        if X == 'Locomotive':
            continue
        leaves.append(X)
        leaf_component(ctx, X, an_s)
    ctx.floor('leaf components with an accepting set_mass', len(leaves), 3)
    locomotive(ctx)
    reject(ctx, comps)
    parsers(ctx)
    sums(ctx)
    writers(ctx)


def leaf_component(ctx, X, an_s):
    prog = ctx.prog
    bd = ctx.anchor('C20-2.derived', '<%s as Mass>::derived_mass' % X)
    bm = ctx.anchor('C20-1.getter', '<%s as Mass>::mass' % X)
    if bd is None or bm is None:
        return
    an_d = analysis_or_fail(ctx, 'C20-2.derived', bd)
    an_m = analysis_or_fail(ctx, 'C20-1.getter', bm)
    if an_d is None or an_m is None:
        return
    Dv = unwrap_ok(an_d.ret())
    if Dv is None:
        ctx.unproved('C20-2.derived', X, 'derived_mass does not return Ok(..) unconditionally: %s' % show(an_d.ret(), an_d.names)[:200], ctx.where(bd)); return
    fl = leaf_fields(ctx, X, Dv)
    if fl is None:
        ctx.unproved('C20-2.derived', X, 'derived_mass is not a function of one optional (intensive) and one plain (extensive) field: %s' % show(Dv, an_d.names)[:200], ctx.where(bd)); return
    I, E = fl
    i = ('sym', 'i'); m = ('sym', 'm')
    # ---- derived mass = extensive / intensive, None when the intensive value is unknown
    d_some = bind(an_d, Dv, P(I), ('some', i))
    d_none = bind(an_d, Dv, P(I), ('none',))
    if d_some[0] == 'some':
        prove(ctx, 'C20-2.derived', X + '|known', an_d, 'eq', T(d_some[1]), T(pre(E)) / T(i), assume=A, note='[%s = Some(i)] derived mass = %s / i' % (I, E))
    else:
        ctx.bad('C20-2.derived', X + '|known', '[%s = Some(i)] derived mass is not Some(..): %s' % (I, show(d_some, an_d.names)[:200]), ctx.where(bd))
    ctx.check(d_none == ('none',), 'C20-2.derived', X + '|unknown', '[%s = None] derived mass is None' % I, 'derived mass is %s' % show(d_none, an_d.names)[:200], ctx.where(bd))

    # ---- getter: returns the stored mass; guarded by almost_eq(stored, derived) when both are known
    ctx.check(an_m.ret() == ('ok', pre('mass')), 'C20-1.getter', X + '|value', 'mass() returns the stored mass',
              'mass() returns %s' % show(an_m.ret(), an_m.names)[:200], ctx.where(bm))
    allowed = [(('discr', Dv), '1'), (('discr', pre('mass')), '1')]
    g, why = find_almost_eq_guard(an_m, pre('mass', '@Some', '#0'), _proj_some(an_m, Dv), allowed)
    ctx.check(g is not None, 'C20-1.getter', X + '|guard', 'mass() fails unless stored ≈ derived whenever both are known', why, ctx.where(bm))

    # ---- setter arm table
    bs = an_s.body
    newp = _param_path(an_s, 'new_mass', 2)
    sep = _param_term(an_s, 'side_effect', 3)
    postD = post_eval(an_s, Dv)
    postI = an_s.load(P(I), an_s.exit_state)
    postE = an_s.load(P(E), an_s.exit_state)
    postM = an_s.load(P('mass'), an_s.exit_state)

    def case(t, new_v, I_v, se=None):
        t = bind(an_s, t, newp, new_v)
        t = bind(an_s, t, P(I), I_v)
        if se is not None:
            k = variant_index(prog, 'MassSideEffect', se)
            t = _resimp(an_s, specialize(t, sep, k))
        return t

    w = ctx.where(bs)
    # mass' = argument, always
    ctx.check(postM == ('pre', newp), 'C20-3.setter', X + '|mass', 'accepted set_mass stores the argument as the mass',
              "mass' = %s" % show(postM, an_s.names)[:200], w)
    diff = mk('ne', mk('div', pre(E), i), m)
    same = mk('eq', mk('div', pre(E), i), m)
    options = [v['name'] for v in prog.typedef('MassSideEffect').variants] if prog.typedef('MassSideEffect') else []
    ctx.floor('MassSideEffect options', len(options), 3)
    # the invariant on the post-state, for every option and every combination of known / unknown values:
    #   mass' = Some(m)  and  derived' = Some(d)   =>   d = m
    for iv, ilab in ((('some', i), 'Some(i)'), (('none',), 'None')):
        for se in options:
            d = case(postD, ('some', m), iv, se)
            for dc, facts, lab in cofactors(an_s, d, diff, same):
                k = "%s|%s|%s=%s|%s|derived'" % (X, se, I, ilab, lab)
                note = '[new = Some(m), %s = %s, option %s, %s]' % (I, ilab, se, lab)
                if dc == ('none',):
                    ctx.ok('C20-3.setter', k, note + " derived' = None: nothing contradicts the new mass", w)
                elif dc[0] == 'some':
                    prove(ctx, 'C20-3.setter', k, an_s, 'eq', T(dc[1]), T(m), facts=[T(x) for x in facts], assume=A, note=note + " derived' = new mass")
                else:
                    ctx.unproved('C20-3.setter', k, note + " derived' is neither Some nor None: %s" % show(dc, an_s.names)[:200], w)
    # the option decides which parameter absorbs the change (doc comments of MassSideEffect)
    for se, keep, keepname, want in (('Extensive', postI, I, ('some', i)), ('Intensive', postE, E, pre(E)), ('None', postE, E, pre(E))):
        if se not in options:
            ctx.unproved('C20-3.setter', X + '|' + se, 'MassSideEffect::%s no longer exists' % se, w); continue
        kv = case(keep, ('some', m), ('some', i), se)
        prove_same(ctx, 'C20-3.setter', '%s|%s|%s untouched' % (X, se, keepname), an_s, kv, want, w,
                   'option %s leaves the %s parameter alone' % (se, 'intensive' if keep is postI else 'extensive'))
    # new mass None: the stored mass becomes unknown (the invariant is then vacuous)
    mv = case(postM, ('none',), ('some', i))
    ctx.check(mv == ('none',), 'C20-3.setter', X + '|new=None', "[new = None] mass' = None", "mass' = %s" % show(mv, an_s.names)[:200], w)


def cofactors(an, t, cond, ncond):
    """[(t | cond, [cond], label), (t | not cond, [ncond], label)] — or just [(t, [], 'any')] when t does not branch on cond"""
    if not any(x == cond for x in walk(t)):
        return [(t, [], 'any')]
    out = []
    for val, fact, lab in ((TRUE, cond, 'new≠derived'), (FALSE, ncond, 'new=derived')):
        tt = _resimp(an, map_term(t, lambda x, val=val: val if x == cond else x))
        out.append((tt, [fact], lab))
    return out


def prove_same(ctx, rule, key, an, got, want, where, note):
    got = _t(got); want = _t(want)
    if got == want:
        ctx.ok(rule, key, '%s :: %s (structural)' % (note, show(got, an.names)[:200]), where)
        return True
    ctx.bad(rule, key, '%s :: got %s, expected %s' % (note, show(got, an.names)[:300], show(want, an.names)[:200]), where)
    return False


def _proj_some(an, v):
    """the payload of an Option-valued term"""
    return an.project(an.project(v, ('as', 'Some'), an.exit_state), ('f', '#0'), an.exit_state)


def _param_path(an, name, default):
    try:
        return an.arg(name)[1]
    except KeyError:
        ty = dict(an.body.params).get(default, '')
        return ((('obj', default) if ty.strip().startswith('&') else ('val', default)),)


def _param_term(an, name, default):
    return ('pre', _param_path(an, name, default))


def gravity(ctx):
    v = engine(ctx).const_value('uc::ACC_GRAV')
    if v is None or v[0] != 'num':
        v = engine(ctx).const_value('ACC_GRAV')
    return v if v is not None and v[0] == 'num' else None


def locomotive(ctx):
    prog = ctx.prog
    G = gravity(ctx)
    if G is None:
        ctx.unproved('C20-1.getter', 'uc::ACC_GRAV', 'gravity constant not found'); return
    mu0 = pre('mu', '@Some', '#0'); mass0 = pre('mass', '@Some', '#0'); F = pre('force_max')
    want = T(mu0) * T(mass0) * T(G)
    allowed = [(('discr', pre('mu')), '1'), (('discr', pre('mass')), '1')]
    # ---- force / adhesion getters
    for fn, fld in (('Locomotive::force_max', 'force_max'), ('Locomotive::mu', 'mu')):
        b = ctx.anchor('C20-1.getter', fn)
        if b is None:
            continue
        an = analysis_or_fail(ctx, 'C20-1.getter', b)
        if an is None:
            continue
        ctx.check(an.ret() == ('ok', pre(fld)), 'C20-1.getter', fn + '|value', '%s() returns the stored %s' % (fn.split('::')[-1], fld),
                  'returns %s' % show(an.ret(), an.names)[:200], ctx.where(b))
        g, why = force_guard(ctx, an, F, want, allowed)
        ctx.check(g is not None, 'C20-1.getter', fn + '|guard', 'fails unless force_max ≈ mu · mass · g whenever mu and mass are both known', why, ctx.where(b))
    # ---- mass getter
    fn = '<Locomotive as Mass>::mass'
    b = ctx.anchor('C20-1.getter', fn)
    an = analysis_or_fail(ctx, 'C20-1.getter', b) if b is not None else None
    if an is not None:
        recs = [c for c in an.calls if c.targets and any(t.endswith('::derived_mass') for t in c.targets)]
        if len(recs) != 1 or recs[0].result is None:
            ctx.unproved('C20-1.getter', fn, 'expected exactly one derived_mass call, found %d' % len(recs), ctx.where(b))
        else:
            Dres = recs[0].result
            Dv = ('uf', 'unwrap', Dres) if Dres[0] != 'ok' else Dres[1]
            ctx.info('C20-1.getter', fn + '|derived', 'derived mass comes from %s' % recs[0].targets, ctx.where(b))
            g, why = find_almost_eq_guard(an, mass0, _proj_some(an, Dv), [(('discr', Dv), '1'), (('discr', pre('mass')), '1')])
            ctx.check(g is not None, 'C20-1.getter', 'Locomotive|guard', 'mass() fails unless stored ≈ derived whenever both are known', why, ctx.where(b))
            m = ('sym', 'm'); d = ('sym', 'd')
            for mv, dv, wantv, lab in ((('some', m), ('some', d), ('ok', ('some', m)), 'stored and derived known -> stored'),
                                       (('some', m), ('none',), ('ok', ('some', m)), 'only stored known -> stored'),
                                       (('none',), ('some', d), ('ok', ('some', d)), 'only derived known -> derived'),
                                       (('none',), ('none',), ('ok', ('none',)), 'neither known -> None')):
                r = subst_term(an, bind(an, an.ret(), P('mass'), mv), Dv, dv)
                r = bind(an, r, P('mass'), mv)
                prove_same(ctx, 'C20-1.getter', 'Locomotive|value|' + lab, an, r, wantv, ctx.where(b), 'mass(): ' + lab)
    loco_setters(ctx, G)


def force_guard(ctx, an, F, want, allowed):
    """the check_force_max guard: almost_eq(force_max, X) with X ≡ mu·mass·g, evaluated whenever mu and mass are known"""
    from sa.prove import Prover
    why = 'no almost_eq guard on force_max'
    for g in an.guards:
        c = g.cond
        truth = g.outcome != '0'
        while c[0] == 'not':
            c = c[1]; truth = not truth
        if not (c[0] == 'uf' and c[1].split('::')[-1] in ('almost_eq_uom', 'almost_eq') and len(c) >= 4 and F in (c[2], c[3])):
            continue
        other = c[3] if c[2] == F else c[2]
        v, d = Prover(an.names, assume=A).eq(other, _t(want), [])
        if v != 'PROVED':
            why = 'force_max is compared with %s, which is not mu·mass·g (%s)' % (show(other, an.names)[:120], d[:80]); continue
        if not truth:
            why = 'the almost_eq test survives when FALSE'; continue
        tol = c[4] if len(c) > 4 else ('none',)
        if not (tol == ('none',) or (tol[0] == 'some' and tol[1][0] == 'num' and tol[1][1] <= TOL_MAX)):
            why = 'tolerance %s is wider than 1e-6' % show(tol); continue
        extra = [x for x in g.gate if x not in allowed]
        if extra:
            why = 'the test is skipped unless %s' % '; '.join('%s=%s' % (show(c_, an.names)[:80], o) for c_, o in extra); continue
        return g, ''
    return None, why


def subst_term(an, t, old, new):
    """replace every occurrence of the sub-term `old` (to a fixpoint, re-simplifying in between)"""
    for _ in range(4):
        t2 = _resimp(an, map_term(t, lambda x: new if x == old else x))
        if t2 == t:
            break
        t = t2
    return t


def eval_guards(an, f):
    """is the Ok path feasible after the substitution f (term -> term)?  Returns (feasible?, violated guard text).
    A guard whose gate decisions all evaluate to their recorded outcome and whose condition evaluates to the rejected
    constant makes the case infeasible (the update is rejected there)."""
    def const(t):
        if t[0] == 'bool':
            return t[1]
        if t[0] == 'num':
            return t[1] != 0
        return None
    for g in an.guards:
        if g.kind == 'assert':
            continue
        live = True
        for c, o in g.gate:
            if c[0] == 'pathset':
                live = None; break
            v = const(f(c))
            if v is None:
                live = None; break
            if v != (o != '0'):
                live = False; break
        if live is not True:
            continue
        if g.outcome not in ('0', '1', 'otherwise'):
            continue
        v = const(f(g.cond))
        if v is not None and v != (g.outcome != '0'):
            return False, show(g.cond, an.names)[:120]
    return True, ''


def loco_setters(ctx, G):
    """arm tables of the locomotive-level setters: on every accepted update
         (mu' known and mass' known)  =>  force_max' = mu' · mass' · g
       and the option leaves alone what its doc comment says it leaves alone."""
    prog = ctx.prog
    R = 'C20-4.loco'
    u = ('sym', 'u'); x = ('sym', 'x')
    # documented effect per option: fields that must keep their value (doc comments of the enums)
    KEEP = {
        ('Locomotive::set_force_max', 'Mass'): ['mu'], ('Locomotive::set_force_max', 'UpdateMu'): ['mass'],
        ('Locomotive::set_force_max', 'SetMuToNone'): ['mass'], ('Locomotive::set_force_max', 'SetMassToNone'): ['mu'],
        ('Locomotive::set_force_max', 'SetMassAndMuToNone'): [],
        ('Locomotive::set_mu', 'Mass'): [], ('Locomotive::set_mu', 'ForceMax'): ['mass'], ('Locomotive::set_mu', 'SetMassToNone'): ['force_max'],
    }
    NONE_AFTER = {
        ('Locomotive::set_force_max', 'SetMuToNone'): ['mu'], ('Locomotive::set_force_max', 'SetMassToNone'): ['mass'],
        ('Locomotive::set_force_max', 'SetMassAndMuToNone'): ['mu', 'mass'], ('Locomotive::set_mu', 'SetMassToNone'): ['mass'],
    }
    closed = set_mass_locomotive(ctx, G)
    for fid, enum, sename, valname, valfield in (('Locomotive::set_force_max', 'ForceMaxSideEffect', 'side_effect', 'force_max', 'force_max'),
                                                 ('Locomotive::set_mu', 'MuSideEffect', 'mu_side_effect', 'mu', 'mu')):
        b = ctx.anchor(R, fid)
        an = analysis_or_fail(ctx, R, b) if b is not None else None
        td = prog.typedef(enum)
        if an is None or td is None:
            continue
        try:
            se = an.arg(sename); val = an.arg(valname)
        except KeyError:
            ctx.unproved(R, fid, 'parameters %s / %s not found' % (sename, valname), ctx.where(b)); continue
        w = ctx.where(b)
        for k, v in enumerate(td.variants):
            opt = v['name']
            key = '%s|%s' % (fid, opt)
            post = {f: _resimp(an, specialize(an.load(P(f), an.exit_state), se, k)) for f in ('force_max', 'mu', 'mass')}
            # the value being set is stored as given
            want = val if valfield == 'force_max' else ('some', val)
            prove_same(ctx, R, key + '|' + valfield, an, post[valfield], want, w, 'option %s stores the new %s as given' % (opt, valfield))
            for f in KEEP.get((fid, opt), []):
                prove_same(ctx, R, key + '|%s untouched' % f, an, post[f], pre(f), w, 'option %s leaves %s unchanged' % (opt, f))
            for f in NONE_AFTER.get((fid, opt), []):
                prove_same(ctx, R, key + '|%s forgotten' % f, an, post[f], ('none',), w, 'option %s sets %s to None' % (opt, f))
            if (fid, opt) not in KEEP:
                ctx.unproved(R, key, 'option %s::%s has no documented-effect row in the rule table (new option?)' % (enum, opt), w)
            # the invariant on the post-state, for every combination of known / unknown mu and mass before the call
            tail = tail_call_arm(ctx, an, b, se, k)
            for muv, mlab in ((('some', u), 'mu known'), (('none',), 'mu unknown')):
                for mv, xlab in ((('some', x), 'mass known'), (('none',), 'mass unknown')):
                    def f(t, muv=muv, mv=mv):
                        t = specialize(t, se, k)
                        t = bind(an, t, P('mu'), muv)
                        return bind(an, t, P('mass'), mv)
                    feas, why = eval_guards(an, f)
                    ck = '%s|%s, %s' % (key, mlab, xlab)
                    if not feas:
                        ctx.ok(R, ck, 'rejected in this case (the Ok path requires %s)' % why, w); continue
                    F_, MU_, M_ = f(post['force_max']), f(post['mu']), f(post['mass'])
                    if mv[0] == 'some':
                        F_ = stored_mass_lemma(ctx, an, b, F_, f, mv[1])
                    if MU_ == ('none',) or M_ == ('none',):
                        ctx.ok(R, ck, "mu' or mass' is None after the update: nothing to contradict", w); continue
                    if MU_[0] == 'some' and M_[0] == 'some':
                        if tail and closed:
                            ctx.ok(R, ck, 'the arm ends in set_mass, which establishes force_max\' = mu\'·mass\'·g on every accepted exit (C20-4 <Locomotive as Mass>::set_mass) and nothing is stored afterwards', w)
                            continue
                        prove(ctx, R, ck, an, 'eq', T(F_), T(MU_[1]) * T(M_[1]) * T(G), assume=A, where=w, note="[%s, %s, option %s] force_max' = mu'·mass'·g" % (mlab, xlab, opt))
                    else:
                        ctx.unproved(R, ck, "mu' / mass' is neither Some nor None: mu' = %s, mass' = %s" % (show(MU_, an.names)[:100], show(M_, an.names)[:100]), w)
    stale_checks(ctx)


def stored_mass_lemma(ctx, an, b, t, f, x):
    """C20-1 `Locomotive|value`: mass() returns the stored mass whenever one is stored.  Applied to calls of
    <Locomotive as Mass>::mass on self that see the pre-state of everything mass() reads (no earlier store to it):
    the payload of the call's result is replaced by the stored mass `x`."""
    inv = inventory(ctx)
    cfg = inv.cfg(b)
    for c in an.calls:
        if not (c.targets and '<Locomotive as Mass>::mass' in c.targets and c.argvals and c.argvals[0] == ('ref', (('obj', 1),), 'shr') and c.result is not None):
            continue
        early = [path for bb, path, val, span in an.stores_log
                 if path[0] == ('obj', 1) and len(path) > 1 and path[1] in (('f', 'mass'), ('f', 'baseline_mass'), ('f', 'ballast_mass'), ('f', 'loco_type'))
                 and bb != c.block and c.block in cfg._reach_from(bb)]
        if early:
            continue
        Rr = norm_unwrap(('uf', 'unwrap', ('uf', 'unwrap', f(c.result))))
        t = subst_term(an, norm_unwrap(t), Rr, x)
    return t


def tail_call_arm(ctx, an, b, se, k):
    """does the arm `k` of the option switch end with a call of <Locomotive as Mass>::set_mass on self, with no store to
    a support field afterwards?"""
    inv = inventory(ctx)
    cfg = inv.cfg(b)
    recs = [c for c in an.calls if c.targets and '<Locomotive as Mass>::set_mass' in c.targets and c.argvals and c.argvals[0][0] == 'ref' and c.argvals[0][1] == (('obj', 1),)]
    recs = [c for c in recs if any(cnd == ('discr', se) and str(k) in str(o).split('|') for cnd, o in c.pc)]
    if len(recs) != 1:
        return False
    after = set()
    for s_ in cfg.succ[recs[0].block]:
        after |= cfg._reach_from(s_)
    for bb, path, val, span in an.stores_log:
        if bb in after and path[0] == ('obj', 1) and len(path) > 1 and path[1][0] == 'f' and path[1][1] in LOCO_SUPPORT:
            return False
    return True


def set_mass_locomotive(ctx, G):
    """<Locomotive as Mass>::set_mass: accepted only with option None; mass' = new mass, else the derived mass;
    force_max' = mu · (mass() evaluated after the mass was stored) · g, and mass() returns the stored mass whenever one is
    stored (C20-1 Locomotive|value) — hence force_max' = mu' · mass' · g.  Returns True when the chain is complete."""
    prog = ctx.prog
    R = 'C20-4.loco'
    fid = '<Locomotive as Mass>::set_mass'
    b = ctx.anchor(R, fid)
    an = analysis_or_fail(ctx, R, b) if b is not None else None
    if an is None:
        return False
    w = ctx.where(b)
    ok_all = True
    se = _param_term(an, 'side_effect', 3)
    newp = _param_path(an, 'new_mass', 2)
    # (a) only option None is accepted
    ga = [g for g in an.guards if not g.gate and ((g.cond == ('eq', se, ('none',)) and g.outcome != '0') or (g.cond == ('ne', se, ('none',)) and g.outcome == '0'))]
    ok_all &= ctx.check(bool(ga), R, fid + '|option', 'accepted only with MassSideEffect::None (the other options are rejected, not silently reinterpreted)',
                        'no unconditional guard side_effect == None on the Ok path', w)
    # (a') the component masses are discarded exactly when they contradict the mass being set (derived mass != new mass) — the other way
    #      round every real update is rejected by the checking getter and a confirming one throws the components away
    ex = [c for c in an.calls if c.targets and any(t.endswith('Locomotive as Mass>::expunge_mass_fields') or t.endswith('::expunge_mass_fields') for t in c.targets)
          and c.argvals and c.argvals[0][0] == 'ref' and c.argvals[0][1] == (('obj', 1),)]
    if len(ex) != 1:
        ctx.unproved(R, fid + '|expunge', 'expected one expunge_mass_fields(self) site, found %d' % len(ex), w)
    else:
        dec = [(cnd, o) for cnd, o in ex[0].pc if cnd[0] != 'pathset']
        cnd, o = dec[-1] if dec else (None, None)
        newv = ('pre', tuple(newp) + (('as', 'Some'), ('f', '#0')))
        differs = cnd is not None and ((cnd[0] == 'ne' and o != '0') or (cnd[0] == 'eq' and o == '0') or (cnd[0] == 'not' and cnd[1][0] == 'eq' and o != '0'))
        cmp_ = (cnd[1] if cnd is not None and cnd[0] == 'not' else cnd) or ()
        ctx.check(differs and newv in cmp_[1:] and any('mass' in repr(z) for z in cmp_[1:] if z != newv), R, fid + '|expunge',
                  'component masses are discarded exactly when the derived mass differs from the mass being set',
                  'expunge_mass_fields is reached on outcome %s of %s' % (o, show(cnd, an.names)[:120] if cnd else None), ctx.where(b, ex[0].span))
    # (b) mass'
    dcalls = [c for c in an.calls if c.targets and any(t.endswith('::derived_mass') for t in c.targets) and c.argvals and c.argvals[0] == ('ref', (('obj', 1),), 'shr')]
    mcalls = [c for c in an.calls if c.targets and '<Locomotive as Mass>::mass' in c.targets and c.argvals and c.argvals[0] == ('ref', (('obj', 1),), 'shr')]
    if len(dcalls) != 1 or len(mcalls) != 1 or dcalls[0].result is None or mcalls[0].result is None:
        ctx.unproved(R, fid, 'expected one derived_mass() and one mass() call on self, found %d / %d' % (len(dcalls), len(mcalls)), w)
        return False
    D0 = unwrap_dist(dcalls[0].result)
    postM = an.load(P('mass'), an.exit_state)
    newv = ('pre', newp)
    wantM = mk('gamma', ('discr', newv), ('some', ('pre', newp + (('as', 'Some'), ('f', '#0')))), ('some', ('uf', 'unwrap', D0)))
    ok_all &= prove_same(ctx, R, fid + "|mass'", an, norm_unwrap(postM), norm_unwrap(wantM), w, "mass' = the new mass when given, else the derived mass (which must then be known)")
    # (c) mu is not written
    postMU = an.load(P('mu'), an.exit_state)
    ok_all &= prove_same(ctx, R, fid + '|mu untouched', an, postMU, pre('mu'), w, 'set_mass never changes mu')
    # (d) force_max' = mu · X · g with X the value returned by mass() called after the mass store
    postF = an.load(P('force_max'), an.exit_state)
    X = ('uf', 'unwrap', unwrap_dist(mcalls[0].result)) if unwrap_dist(mcalls[0].result)[0] != 'some' else unwrap_dist(mcalls[0].result)[1]
    X2 = unwrap_dist(unwrap_dist(mcalls[0].result))
    okF = False
    Xc = norm_unwrap(('uf', 'unwrap', ('uf', 'unwrap', mcalls[0].result)))
    for munw in (('uf', 'unwrap', pre('mu')), pre('mu', '@Some', '#0')):
        if norm_unwrap(postF) in (mk('mul', mk('mul', munw, Xc), G), mk('mul', munw, mk('mul', Xc, G)), mk('mul', mk('mul', munw, G), Xc)):
            okF = True
    ok_all &= ctx.check(okF, R, fid + "|force_max'", "force_max' = mu · (value of self.mass() after the update) · g",
                        "force_max' = %s" % show(postF, an.names)[:240], w)
    # (e) the mass() call sees the stored mass: the store dominates the call and nothing it reads is written afterwards
    inv = inventory(ctx)
    cfg = inv.cfg(b)
    mstores = [bb for bb, path, val, span in an.stores_log if path == P('mass')]
    dom = bool(mstores) and all(cfg.dominates(bb, mcalls[0].block) or bb == mcalls[0].block for bb in mstores[-1:])
    after = set()
    for s_ in cfg.succ[mcalls[0].block]:
        after |= cfg._reach_from(s_)
    late = [show_store(path) for bb, path, val, span in an.stores_log if bb in after and path[0] == ('obj', 1) and path != P('force_max')]
    ok_all &= ctx.check(dom and not late, R, fid + '|order', 'self.mass() is evaluated after the mass has been stored and nothing but force_max is stored after it, so by C20-1 (mass() returns the stored mass when one is stored) X = mass\'',
                        'mass store dominates the call: %s; stores after the call: %s' % (dom, late[:4]), w)
    return bool(ok_all)


def norm_unwrap(t):
    """push unwrap(..) through Ok/Some constructors and γ/Γ so that equal values print equally"""
    def f(x):
        if x[0] == 'uf' and x[1] == 'unwrap' and len(x) == 3 and x[2][0] in ('ok', 'some', 'gamma', 'Gamma'):
            return unwrap_dist(x[2])
        return x
    for _ in range(4):
        t2 = map_term(t, f)
        if t2 == t:
            break
        t = t2
    return t


def show_store(path):
    from sa.terms import show_path
    return show_path(path)


def stale_checks(ctx):
    """a consistency check is never run on a half-updated relation: inside a setter, a call of a checking getter may not
    be preceded by a store to a field its guard reads while another field of the same relation is stored later"""
    prog = ctx.prog
    inv = inventory(ctx)
    R = 'C20-4.loco'
    REL = {
        'Locomotive::force_max': {'force_max', 'mu', 'mass'}, 'Locomotive::mu': {'force_max', 'mu', 'mass'},
        'Locomotive::check_force_max': {'force_max', 'mu', 'mass'},
        '<Locomotive as Mass>::mass': {'mass', 'baseline_mass', 'ballast_mass'},
    }
    W = inv.writes()
    calls = inv.calls()
    n = 0
    for b in setters(ctx):
        if not b.fid.startswith('Locomotive::') and 'Locomotive as' not in b.fid:
            continue
        cfg = inv.cfg(b)
        ev = []      # (block, field) direct stores and stores through callees
        for f in LOCO_SUPPORT:
            for wb, bn, span, how in W.get(('Locomotive', f), []):
                if wb is b and how.split(':')[0] in ('assign', 'opassign'):
                    ev.append((bn, f))
        for bn, t, callees in calls.get(b.fid, []):
            tw = inv.transitive_writes([c for c in callees if c != b.fid])
            for (ty, f) in tw:
                if ty == 'Locomotive' and f in LOCO_SUPPORT:
                    ev.append((bn, f))
        for bn, t, callees in calls.get(b.fid, []):
            for g in callees:
                if g not in REL:
                    continue
                n += 1
                rel = REL[g]
                before = {f for eb, f in ev if f in rel and eb != bn and bn in cfg._reach_from(eb)}
                after = set()
                for s_ in cfg.succ[bn]:
                    after |= cfg._reach_from(s_)
                later = {f for eb, f in ev if f in rel and eb in after}
                k = '%s|%s' % (b.fid, g.split('::')[-1])
                key = k + '|half-updated'
                if before and (later - before):
                    ctx.bad(R, key, 'the checking getter %s runs after %s was stored but before %s is: it compares fresh with stale values and rejects valid updates' % (g, sorted(before), sorted(later - before)), ctx.where(b, t.span))
                else:
                    ctx.ok(R, key, 'the call of %s sees a relation that is either untouched or completely updated (stored before: %s, stored later: %s)' % (g, sorted(before), sorted(later)), ctx.where(b, t.span))
    ctx.floor('checking-getter calls inside locomotive setters', n, 3)




LOCO_SUPPORT = ('mass', 'mu', 'force_max', 'baseline_mass', 'ballast_mass')
_SUPPORT = {}


def support(ctx):
    """{(Type, field)}: the fields the invariant reads (stored mass, intensive / extensive parameters, mu, force_max, ...)"""
    k = id(ctx.prog)
    if k in _SUPPORT:
        return _SUPPORT[k]
    prog = ctx.prog
    S = set()
    for X in components(ctx):
        bd = prog.by_id.get('<%s as Mass>::derived_mass' % X)
        bs = prog.by_id.get('<%s as Mass>::set_mass' % X)
        if bd is None or bs is None or X == 'Locomotive':
            continue
        if engine(ctx).analysis(bs).exit_state is None:
            continue
        an_d = engine(ctx).analysis(bd)
        Dv = unwrap_ok(an_d.ret()) if an_d.exit_state is not None else None
        fl = leaf_fields(ctx, X, Dv) if Dv is not None else None
        if fl:
            S |= {(X, 'mass'), (X, fl[0]), (X, fl[1])}
    for f in LOCO_SUPPORT:
        S.add(('Locomotive', f))
    _SUPPORT[k] = S
    return S


def setters(ctx):
    """the public update entry points of the invariant"""
    prog = ctx.prog
    out = []
    for X in components(ctx):
        b = prog.by_id.get('<%s as Mass>::set_mass' % X)
        if b is not None and engine(ctx).analysis(b).exit_state is not None:
            out.append(b)
    for fid in ('Locomotive::set_force_max', 'Locomotive::set_mu'):
        b = prog.by_id.get(fid)
        if b is not None:
            out.append(b)
    return out


def own_result_exits(b, cfg, call_block):
    """Err exits that only forward the failure of the call in `call_block` itself (its `?`): blocks whose from_residual /
    returned value derives from that call's result.  The callee's own discipline is examined at the callee."""
    t = b.blocks[call_block].term
    if t.dest is None:
        return set()
    tainted = {t.dest.local}
    out = set()
    if t.dest.local == 0:
        out.add(call_block)

    def ops_locals(rv):
        res = []

        def rec(x):
            if isinstance(x, tuple):
                if len(x) == 2 and x[0] in ('move', 'copy') and hasattr(x[1], 'local'):
                    res.append(x[1].local)
                else:
                    for y in x:
                        rec(y)
            elif isinstance(x, list):
                for y in x:
                    rec(y)
            elif hasattr(x, 'local'):
                res.append(x.local)
        rec(rv)
        return res
    for _ in range(6):
        changed = False
        for bn in cfg.reach:
            blk = b.blocks[bn]
            for s_ in blk.stmts:
                if s_.kind == 'assign' and s_.lhs.local not in tainted and any(l in tainted for l in ops_locals(s_.rv)):
                    if s_.lhs.local != 0 or True:
                        tainted.add(s_.lhs.local); changed = True
            tt = blk.term
            if tt.kind == 'call' and tt.dest is not None and any(l in tainted for l in ops_locals(tuple(tt.args))):
                if re.search(r'with_context|context|branch|from_residual|map_err|into|from', tt.callee):
                    if tt.dest.local not in tainted:
                        tainted.add(tt.dest.local); changed = True
                    if 'from_residual' in tt.callee and tt.dest.local == 0:
                        out.add(bn)
        if not changed:
            break
    return out


def reject(ctx, comps):
    """a rejected update changes nothing: no store to a support field (direct, or through a callee that writes one) can be
    followed by an Err exit of the setter"""
    prog = ctx.prog
    inv = inventory(ctx)
    R = 'C20-5.reject'
    S = support(ctx)
    W = inv.writes()
    calls = inv.calls()
    n = 0
    for b in setters(ctx):
        cfg = inv.cfg(b)
        n += 1
        # exits that may carry Err: `_0 = Err(..)` / `?` residual blocks, and calls whose Result becomes the return value
        exits = set(cfg.err_blocks)
        for bn in cfg.reach:
            t = b.blocks[bn].term
            if t.kind == 'call' and t.dest is not None and t.dest.local == 0 and not t.dest.proj and cfg.returns_result:
                cands = prog.resolve(t.callee)
                may_fail = not cands or any(inv.cfg(cb).err_blocks or not inv.cfg(cb).returns_result for cb in cands)
                if may_fail and not re.search(r'::Ok$', re.sub(r'::<.*?>', '', t.callee)):
                    exits.add(bn)
        events = []        # (block whose successors matter, key, span)
        for (ty, fld) in sorted(S):
            for wb, bn, span, how in W.get((ty, fld), []):
                if wb is b and how.split(':')[0] in ('assign', 'opassign'):
                    events.append((bn, '%s.%s' % (ty, fld), span, 'store'))
        for bn, t, callees in calls.get(b.fid, []):
            tw = inv.transitive_writes([c for c in callees if c != b.fid])
            hit = sorted('%s.%s' % k for k in tw if k in S)
            if hit:
                events.append((bn, 'call %s' % sorted(callees)[0].split('::')[-1], t.span, 'call writing ' + ', '.join(hit)))
        seen = set()
        for bn, key, span, how in events:
            after = set()
            for s_ in cfg.succ[bn]:
                after |= cfg._reach_from(s_)
            own = own_result_exits(b, cfg, bn) if how.startswith('call') else set()
            leak = sorted((after & exits) - own)
            k = '%s|%s' % (b.fid, key)
            if k in seen:
                continue
            seen.add(k)
            if leak:
                ctx.bad(R, k, '%s (%s) can be followed by an Err exit (%s): a rejected update leaves the object changed' % (key, how, ', '.join(leak[:3])), ctx.where(b, span))
            else:
                ctx.ok(R, k, '%s (%s) is not followed by any Err exit' % (key, how), ctx.where(b, span))
    ctx.floor('setters examined for mutate-then-reject', n, 6)



def parsers(ctx):
    """every option of the three side-effect enums can be selected by its own name"""
    prog = ctx.prog
    R = 'C20-6.parser'
    n = 0
    for fid in sorted(prog.by_id):
        m = re.match(r'^<(\w*SideEffect) as TryFrom<(?:std::string::)?String>>::try_from$', fid)
        if not m:
            continue
        E = m.group(1)
        td = prog.typedef(E)
        b = prog.by_id[fid]
        an = analysis_or_fail(ctx, R, b)
        if an is None or td is None:
            continue
        n += 1
        r = an.ret()
        if r[0] != 'ok':
            ctx.unproved(R, E, 'parser result is not Ok(decision tree): %s' % show(r, an.names)[:160], ctx.where(b)); continue
        table = {}        # variant -> set of selecting literals
        bad = []

        def leaves(t, lit):
            if t[0] == 'gamma':
                c = t[1]
                l2 = None
                if c[0] == 'eq':
                    for side in (c[1], c[2]):
                        if side[0] == 'str':
                            l2 = side[1].strip('"')
                if l2 is None:
                    bad.append('condition %s is not a comparison with a string literal' % show(c, an.names)[:80])
                leaves(t[2], l2)
                leaves(t[3], None)          # the last arm is selected by the guard below
                return
            if t == ('none',):
                v = 'None'
            elif t[0] == 'variant':
                v = t[1].split('::')[-1]
            else:
                bad.append('leaf %s is not a variant' % show(t, an.names)[:80]); return
            table.setdefault(v, set()).add(lit)
        leaves(r[1], None)
        # the default arm is Err: the last variant is selected by the surviving guard (string == literal)
        last = None
        for g in an.guards:
            c = g.cond
            if c[0] == 'eq' and g.outcome != '0':
                for side in (c[1], c[2]):
                    if side[0] == 'str':
                        last = side[1].strip('"')
        for v, lits in table.items():
            if None in lits:
                lits.discard(None); lits.add(last)
        names = [v['name'] for v in td.variants]
        for v in names:
            lits = table.get(v)
            if not lits:
                ctx.bad(R, '%s::%s' % (E, v), 'no string selects the option %s::%s: it cannot be chosen through the string interface' % (E, v), ctx.where(b))
            elif lits != {v}:
                ctx.bad(R, '%s::%s' % (E, v), 'option %s::%s is selected by %s, not by its own name' % (E, v, sorted(str(x) for x in lits)), ctx.where(b))
            else:
                ctx.ok(R, '%s::%s' % (E, v), 'the string "%s" selects %s::%s' % (v, E, v), ctx.where(b))
        for x in bad:
            ctx.unproved(R, E, x, ctx.where(b))
    ctx.floor('side-effect option parsers', n, 3)



ACC = ('pre', (('val', 2),))


def fold_parts(ctx, fold):
    """(sources, init, closure body, closure analysis, contribution) of an additive fold / try_fold term:
    the closure returns (Ok of) acc + c with c free of acc.  Second value: why not."""
    eng = engine(ctx)
    if not (fold[0] == 'uf' and fold[1] in ('iter.fold', 'iter.try_fold') and len(fold) >= 5 and fold[2][0] == 'seq' and fold[4][0] == 'closure'):
        return None, 'not a fold over a sequence with a closure: %s' % show(fold)[:160]
    cb = eng.closure_body(fold[4][1])
    if cb is None:
        return None, 'closure body not found'
    ca = eng.analysis(cb)
    if ca.exit_state is None:
        return None, 'closure has no normal exit'
    r = ca.ret()
    if fold[1] == 'iter.try_fold':
        if r[0] != 'ok':
            return None, 'try_fold closure does not return Ok(acc + ..) on its Ok path: %s' % show(r, ca.names)[:160]
        r = r[1]
    if not (r[0] == 'add' and len(r) == 3 and ACC in (r[1], r[2])):
        return None, 'closure result is not acc + contribution: %s' % show(r, ca.names)[:160]
    c = r[2] if r[1] == ACC else r[1]
    if any(x == ACC for x in walk(c)):
        return None, 'contribution depends on the accumulator: %s' % show(c, ca.names)[:160]
    return (fold[2][1], fold[3], cb, ca, c), ''


def item_root(path):
    """is `path` rooted at the element parameter (3) of a fold closure — directly, or through the reference held in a tuple item"""
    r = path[0]
    if r in (('obj', 3), ('val', 3)):
        return True
    if r[0] == 'ptr' and r[1][0] == 'pre' and r[1][1][0] in (('val', 3), ('obj', 3)):
        return True
    return False


def getter_call(ca, fid):
    """the call record of `fid` on the fold element inside closure analysis `ca`"""
    for c in ca.calls:
        if c.targets and fid in c.targets and c.argvals and c.argvals[0][0] == 'ref' and item_root(c.argvals[0][1]):
            return c
    return None


def whole(srcs, path):
    return tuple(srcs) == (('slice', path),)


def sums(ctx):
    prog = ctx.prog
    eng = engine(ctx)
    R = 'C20-7.sums'
    # ------------------------------------------------ consist maximum force = Σ units' (checked) maximum force
    fn = 'Consist::force_max'
    b = ctx.anchor(R, fn)
    an = analysis_or_fail(ctx, R, b) if b is not None else None
    if an is not None:
        fp, why = fold_parts(ctx, an.ret())
        if fp is None:
            ctx.unproved(R, fn, 'result is not an additive fold: ' + why, ctx.where(b))
        else:
            srcs, init, cb, ca, c = fp
            ctx.check(whole(srcs, P('loco_vec')) and init == ZERO, R, fn + '|range', 'the sum starts at 0 and runs over every locomotive of the consist',
                      'sources %s, initial value %s' % (srcs, show(init)), ctx.where(b))
            ok = c[0] == 'pre' and item_root(c[1]) and c[1][1:] == (('f', 'force_max'),)
            ctx.check(ok, R, fn + '|term', 'each locomotive contributes its force_max', 'contribution is %s' % show(c, ca.names)[:200], ctx.where(cb))
            ctx.check(getter_call(ca, 'Locomotive::force_max') is not None, R, fn + '|checked', 'the contribution is read through the checking getter Locomotive::force_max',
                      'no call of Locomotive::force_max on the element', ctx.where(cb))
    # ------------------------------------------------ consist mass = Σ locomotives' (checked) mass
    fn = '<Consist as Mass>::derived_mass'
    b = ctx.anchor(R, fn)
    an = analysis_or_fail(ctx, R, b) if b is not None else None
    if an is not None:
        somes = []
        _ok_leaves(an.ret(), somes)
        vals = [x for x in somes if x != ('none',)]
        if not vals or any(not (x[0] == 'some' and x[1][0] == 'uf' and x[1][1] == 'unwrap') for x in vals):
            ctx.unproved(R, fn, 'Ok results are not None / Some(checked sum): %s' % [show(x, an.names)[:80] for x in somes][:4], ctx.where(b))
        else:
            for x in vals:
                fp, why = fold_parts(ctx, x[1][2])
                if fp is None:
                    ctx.unproved(R, fn, 'Some(..) result is not an additive fold: ' + why, ctx.where(b)); continue
                srcs, init, cb, ca, c = fp
                ctx.check(whole(srcs, P('loco_vec')) and init == ZERO, R, fn + '|range', 'the sum starts at 0 and runs over every locomotive of the consist',
                          'sources %s, initial value %s' % (srcs, show(init)), ctx.where(b))
                rec = getter_call(ca, '<Locomotive as Mass>::mass')
                ok = rec is not None and rec.result is not None and c == ('uf', 'unwrap', ('uf', 'unwrap', rec.result))
                ctx.check(ok, R, fn + '|term', 'each locomotive contributes the value of its checking getter mass()',
                          'contribution is %s' % show(c, ca.names)[:200], ctx.where(cb))
    # ------------------------------------------------ a consist of locomotives with and without a known mass has no defined mass: error
    fn = '<Consist as Mass>::derived_mass'
    b = prog.by_id.get(fn)
    an = eng.analysis(b) if b is not None else None
    if an is not None and an.exit_state is not None:
        r = an.ret()
        tf = [x for x in walk(r[1] if r[0] == 'gamma' else r) if x[0] == 'uf' and x[1] == 'iter.try_fold']
        clos = [y for x in tf[:1] for y in x[2:] if isinstance(y, tuple) and y and y[0] == 'closure']
        cb = eng.closure_body(clos[0][1]) if clos else None
        key = fn + '|mixed'
        if not (r[0] == 'gamma' and cb is not None and len(cb.params) >= 3):
            ctx.unproved(R, key, 'the None / Some decision is not a checked fold over the locomotives: %s' % show(r[1] if r[0] == 'gamma' else r, an.names)[:160], ctx.where(b))
        else:
            eng.all_paths.add(cb.fid); eng.ana.pop(cb.fid, None); eng.summ.pop(cb.fid, None)
            ca = eng.analysis(cb)
            acc = ('pre', (('val', cb.params[1][0]),))
            v = ca.ret() if ca.exit_state is not None else None
            good = False
            if v is not None and v[0] == 'gamma':
                cnd, th, el = v[1], v[2], v[3]
                if cnd[0] == 'not':
                    cnd, th, el = cnd[1], el, th
                if cnd[0] == 'ne':
                    cnd, th, el = ('eq',) + tuple(cnd[1:]), el, th
                good = cnd[0] == 'eq' and acc in cnd[1:] and \
                    any(z != acc and 'is_some' in repr(z) and any(y[0] == 'pre' and y[1][0] in (('val', cb.params[2][0]), ('obj', cb.params[2][0])) for y in walk(z)) for z in cnd[1:]) and \
                    th == ('ok', acc) and el[0] != 'ok'
            ctx.check(good, R, key, 'the fold keeps its verdict only while every locomotive agrees with the first (all masses known or all unknown); a mixed consist is an error',
                      'the fold closure returns %s' % (show(v, ca.names)[:200] if v else None), ctx.where(cb))
    # ------------------------------------------------ locomotive mass = Σ of the parts its powertrain type has + baseline + ballast
    fn = 'Locomotive::derived_mass'
    b = ctx.anchor(R, fn)
    an = analysis_or_fail(ctx, R, b) if b is not None else None
    if an is not None:
        pt = prog.typedef('PowertrainType')
        vidx = {v['name']: v['idx'] for v in pt.variants}
        LT = (('obj', 1), ('f', 'loco_type'))
        base = ('pre', (('obj', 1), ('f', 'baseline_mass'), ('as', 'Some'), ('f', '#0')))
        ball = ('pre', (('obj', 1), ('f', 'ballast_mass'), ('as', 'Some'), ('f', '#0')))
        def part(v, comp):
            return ('pre', LT + (('as', v), ('f', '#0'), ('f', comp), ('f', 'mass'), ('as', 'Some'), ('f', '#0')))
        want = {'ConventionalLoco': ['fc', 'gen'], 'HybridLoco': ['fc', 'gen', 'res'], 'BatteryElectricLoco': ['res']}
        r = an.ret()
        both = select(select(r, lambda d: d == ('discr', ('pre', (('obj', 1), ('f', 'baseline_mass')))), 1), lambda d: d == ('discr', ('pre', (('obj', 1), ('f', 'ballast_mass')))), 1)
        def terms_of(t, out):
            if t[0] == 'add':
                for x in t[1:]:
                    terms_of(x, out)
            else:
                out.append(t)
        for v, comps in want.items():
            arm = select(both, lambda d: d == ('discr', ('pre', LT)), vidx[v])
            key = fn + '|' + v
            if not (arm[0] == 'ok' and arm[1][0] == 'some'):
                ctx.unproved(R, key, 'with baseline and ballast given the result for this powertrain type is not Ok(Some(sum)): %s' % show(arm, an.names)[:200], ctx.where(b)); continue
            got = []
            terms_of(arm[1][1], got)
            exp = [part(v, c_) for c_ in comps] + [base, ball]
            ctx.check(sorted(map(repr, got)) == sorted(map(repr, exp)), R, key, 'derived mass = %s + baseline + ballast, each part once' % ' + '.join(comps),
                      'derived mass sums %s' % [show(x, an.names)[-60:] for x in got], ctx.where(b))
        ctx.floor('powertrain arms of Locomotive::derived_mass', len(want), 3)
    fn = '<Consist as Mass>::mass'
    b = ctx.anchor(R, fn)
    an = analysis_or_fail(ctx, R, b) if b is not None else None
    if an is not None:
        rec = [c for c in an.calls if c.targets and '<Consist as Mass>::derived_mass' in c.targets]
        ctx.check(len(rec) == 1 and an.ret() == rec[0].result, R, fn, 'Consist::mass() is its derived mass', 'returns %s' % show(an.ret(), an.names)[:160], ctx.where(b))
    # ------------------------------------------------ towed mass = explicit override, else Σ cars × vehicle mass
    fn = 'TrainConfig::make_train_params'
    b = ctx.anchor(R, fn)
    an = analysis_or_fail(ctx, R, b) if b is not None else None
    if an is not None:
        r = an.ret()
        tm = None
        if r[0] == 'ok' and r[1][0] == 'agg':
            tm = dict(r[1][2]).get('towed_mass_static')
        if tm is None:
            ctx.unproved(R, fn, 'result is not Ok(TrainParams{ towed_mass_static, .. })', ctx.where(b))
        elif not (tm[0] == 'uf' and tm[1] == 'unwrap_or' and tm[2] == pre('train_mass') and tm[3][0] == 'uf' and tm[3][1] == 'unwrap'):
            ctx.bad(R, fn + '|override', 'towed mass is not `explicit train_mass, else the checked sum over the cars`: %s' % show(tm, an.names)[:200], ctx.where(b))
        else:
            ctx.ok(R, fn + '|override', 'towed mass = train_mass when given, else the sum over the cars', ctx.where(b))
            fp, why = fold_parts(ctx, tm[3][2])
            if fp is None:
                ctx.unproved(R, fn, 'car sum is not an additive fold: ' + why, ctx.where(b))
            else:
                srcs, init, cb, ca, c = fp
                ctx.check(whole(srcs, P('rail_vehicles')) and init == ZERO, R, fn + '|range', 'the sum starts at 0 and runs over every rail-vehicle type',
                          'sources %s, initial value %s' % (srcs, show(init)), ctx.where(b))
                rec = getter_call(ca, '<RailVehicle as Mass>::mass')
                cnt = None
                for x in walk(c):
                    if x[0] == 'uf' and x[1].endswith('HashMap::get') and len(x) == 4 and show(x[2]).endswith('n_cars_by_type') and \
                            x[3][0] == 'pre' and item_root(x[3][1]) and x[3][1][1:] == (('f', 'car_type'),):
                        cnt = ('pre', (('ptr', ('uf', 'unwrap', x)),))
                if rec is None or rec.result is None or cnt is None:
                    ctx.bad(R, fn + '|term', 'contribution does not use the vehicle\'s mass() and the car count of its own type: %s' % show(c, ca.names)[:200], ctx.where(cb))
                else:
                    mv = _resimp(ca, ('uf', 'unwrap', ('uf', 'unwrap', rec.result)))
                    prove(ctx, R, fn + '|term', ca, 'eq', T(c), T(mv) * T(cnt), assume=A, where=ctx.where(cb), note='per vehicle type: mass() × number of cars of that type')
    # ------------------------------------------------ one vehicle: empty mass + freight
    for fn in ('<RailVehicle as Mass>::mass', '<RailVehicle as Mass>::derived_mass'):
        b = ctx.anchor(R, fn)
        an = analysis_or_fail(ctx, R, b) if b is not None else None
        if an is not None:
            r = an.ret()
            ok = r[0] == 'ok' and r[1][0] == 'some' and r[1][1][0] == 'add' and sorted(map(repr, r[1][1][1:])) == sorted(map(repr, [pre('mass_static_base'), pre('mass_freight')]))
            ctx.check(ok, R, fn, 'vehicle mass = empty (static base) mass + freight mass', 'returns %s' % show(r, an.names)[:160], ctx.where(b))
    # ------------------------------------------------ train static mass = towed mass + consist mass
    fn = 'TrainSimBuilder::make_train_sim_parts'
    b = ctx.anchor(R, fn)
    an = analysis_or_fail(ctx, R, b) if b is not None else None
    if an is not None:
        news = [c for c in an.calls if c.targets and 'TrainState::new' in c.targets]
        tp = [c for c in an.calls if c.targets and 'TrainConfig::make_train_params' in c.targets and c.argvals and c.argvals[0] == ('ref', P('train_config'), 'shr')]
        cm = [c for c in an.calls if c.targets and '<Consist as Mass>::mass' in c.targets and c.argvals and c.argvals[0] == ('ref', P('loco_con'), 'shr')]
        if len(news) != 1 or len(tp) != 1 or len(cm) != 1 or len(news[0].argvals) < 2:
            ctx.unproved(R, fn, 'expected one TrainState::new, one make_train_params(train_config) and one loco_con.mass(): found %d / %d / %d' % (len(news), len(tp), len(cm)), ctx.where(b))
        else:
            arg = news[0].argvals[1]
            towed = an.project(_resimp(an, ('uf', 'unwrap', tp[0].result)), ('f', 'towed_mass_static'), an.exit_state)
            ok = arg[0] == 'add' and len(arg) == 3 and towed in (arg[1], arg[2])
            other = (arg[2] if arg[1] == towed else arg[1]) if ok else None
            con = unwrap_dist(cm[0].result)
            ok2 = ok and other[0] == 'uf' and other[1] in ('opt_unwrap_or_else', 'unwrap_or_else', 'unwrap_or', 'unwrap_or_default') and other[2] == con
            dflt = None
            if ok2 and len(other) > 3:
                dflt = other[3]
                if dflt[0] == 'closure':
                    dcb = eng.closure_body(dflt[1])
                    dca = eng.analysis(dcb) if dcb is not None else None
                    dflt = dca.ret() if dca is not None and dca.exit_state is not None else None
            ctx.check(ok2 and (dflt == ZERO or other[1] == 'unwrap_or_default'), R, fn + '|mass_static',
                      'static mass handed to the train state = towed mass (override or cars) + consist mass (0 when the consist has none)',
                      'mass_static argument is %s' % show(arg, an.names)[:300], ctx.where(b, news[0].span))
            # and it is that state which the simulations receive: TrainState.mass_static is the constructor's argument
            bn = prog.by_id.get('TrainState::new')
            na = analysis_or_fail(ctx, R, bn) if bn is not None else None
            if na is not None:
                r = na.ret()
                v = dict(r[2]).get('mass_static') if r[0] == 'agg' else None
                ctx.check(v == ('pre', (('val', 2),)), R, 'TrainState::new|mass_static', 'TrainState::new stores its mass_static argument unchanged',
                          'mass_static = %s' % (show(v, na.names)[:120] if v else None), ctx.where(bn))


def unwrap_dist(t):
    """the engine's value of `t?` / `t.unwrap()`: Ok/Some payloads, distributed over γ/Γ"""
    if t[0] in ('ok', 'some'):
        return t[1]
    if t[0] == 'gamma':
        return mk('gamma', t[1], unwrap_dist(t[2]), unwrap_dist(t[3]))
    if t[0] == 'Gamma':
        return ('Gamma', t[1], tuple((k, unwrap_dist(v)) for k, v in t[2]))
    return ('uf', 'unwrap', t)


def _ok_leaves(t, out):
    if t[0] == 'ok':
        out.append(t[1])
    elif t[0] == 'gamma':
        _ok_leaves(t[2], out); _ok_leaves(t[3], out)
    elif t[0] == 'Gamma':
        for k, v in t[2]:
            _ok_leaves(v, out)
    else:
        out.append(('?', t))



def writers(ctx):
    """who may store into the fields the invariant reads: the mass-interface methods of the owning type and the
    locomotive-level setters examined above; constructors / Default / serde are exempt (load is checked by init -> mass())"""
    prog = ctx.prog
    inv = inventory(ctx)
    R = 'C20-8.writers'
    examined = {b.fid for b in setters(ctx)}
    n = 0
    for (ty, fld) in sorted(support(ctx)):
        allowed = set(examined) | {'<%s as Mass>::expunge_mass_fields' % ty, '<%s as Mass>::set_mass_specific_property' % ty}
        ws = inv.writers(ty, fld, hows=('assign', 'opassign', 'lend'))
        n += 1
        extra = sorted(b.fid for b in ws if b.fid not in allowed and not is_generated_setter(b))
        gen = sorted(b.fid for b in ws if is_generated_setter(b))
        if extra:
            ctx.bad(R, '%s.%s' % (ty, fld), '%s.%s is also written by %s, outside the setters whose arms are proved' % (ty, fld, extra), ctx.where(prog.by_id[extra[0]]))
        else:
            ctx.ok(R, '%s.%s' % (ty, fld), 'written only by %s%s' % (sorted(b.fid for b in ws if b.fid in allowed) or 'constructors / deserialisation',
                                                                    ('; generated raw setters (pyo3): %s — getters re-check' % gen) if gen else ''))
    ctx.floor('support fields inventoried', n, 14)
    # loading: which init() already evaluate the checking getter (siblings compared; listed, not judged — a file with
    # contradictory redundant mass data that is accepted at load is still refused by mass() at first use, C20-1)
    for X in [b.fid.split(' as ')[0].lstrip('<') for b in setters(ctx) if ' as Mass>::set_mass' in b.fid]:
        fid = '<%s as SerdeAPI>::init' % X
        b = prog.by_id.get(fid)
        if b is None:
            ctx.info(R, X + '|init', '%s has no init(): redundant mass data are first checked by mass() at use' % X); continue
        an = engine(ctx).analysis(b)
        if an.exit_state is None:
            continue
        ok = any(c.targets and '<%s as Mass>::mass' % X in c.targets and c.argvals and c.argvals[0][0] == 'ref' and c.argvals[0][1] == (('obj', 1),) and not c.pc for c in an.calls)
        ctx.info(R, X + '|init', ('init() evaluates mass(): contradictory redundant mass data are rejected on load' if ok else
                                  'init() does not evaluate mass() (its siblings do): contradictory redundant mass data are first refused by mass() at use'), ctx.where(b))


def is_generated_setter(b):
    return bool(re.search(r'attr\(altrios_api\)|::__pymethod|set_\w+_err$', b.fid)) and 'pyo3' in (getattr(b, 'cfgs', None) or ['pyo3'])

