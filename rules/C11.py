"""C11 — power and energy agree across train / consist / locomotive (DESIGN §5 C11)."""
import re
from sa.dsl import T, gamma, select, NOT, _t
from sa.terms import mk, ZERO, ONE, show, walk, map_term, num
from .common import (engine, inventory, StateView, locate, prove, analysis_or_fail, pretty, POWERTRAIN_ASSUME)

LEVEL = 'proof'
MANIFEST = {
    'category': 'proof',
    'engine': 'svn',
    'technique': 'symbolic value numbering of the whole train step + call-site argument terms + term-identity prover',
    'text': ('In both train simulations the consist is solved with exactly the final (post-clip) wheel power of the step and with '
             'the same step-size term the train-level accumulators use; train-level and consist-level accumulators obey the same '
             'relation with the same split predicate; dt is handed down unchanged to every level; trip-level getters are the '
             'consist / state totals times the documented annualisation factor, and the vector getters are sums of the element '
             'getters. All as term identities over all inputs.'),
    'note': ('The tie ConsistState.pwr_out == requested power is the accepted-step guard of C10 (almost_eq with assert_limits). '
             'Equality "as numbers" beyond real-arithmetic identity (summation order) is out of scope.'),
}
EXPLANATION = 'Whole-step SVN: argument terms at the consist call, accumulator relations with the same dt, getter terms.'
RULES = ['C11-1.handoff', 'C11-2.accum', 'C11-3.dt', 'C11-4.getters', 'C11-5.loco', 'C11-6.rollup', 'C11-7.init', 'C11-8.dt', 'C11-9.accum']
ASSUMPTIONS = ['identities over the reals']

SIMS = ['SetSpeedTrainSim::solve_step', 'SpeedLimitTrainSim::solve_step']
CONSIST_SOLVE = 'Consist::solve_energy_consumption'


def run(ctx):
    prog = ctx.prog
    # the power a locomotive reports is what its drivetrain delivered (so that the locomotives' powers sum to the consist's)
    from .C01 import loco_pwr_out_arms
    loco_pwr_out_arms(ctx, 'C11-5.loco')
    # consist-level fuel / battery power are sums over the locomotives of the per-powertrain arms (shared with C01-5)
    from .C01 import rollups
    from .common import RuleProxy
    rollups(RuleProxy(ctx, {'C01-5.rollup': 'C11-6.rollup'}))
    initial_energies(ctx)
    # every level integrates with the same step size: dt is handed down unchanged
    from .common import value_passthrough
    value_passthrough(ctx, 'C11-8.dt', 'dt', floor=25)
    # each level's cumulative energy is the integral of that level's own power (clauses of C01-2, shared): otherwise the sum over
    # locomotives drifts away from the consist's total although every instantaneous power agrees
    from . import C01
    C01.run(RuleProxy(ctx, {'C01-2.accum': 'C11-9.accum'}))
    eng = engine(ctx)
    n = 0
    for fid in SIMS:
        b = ctx.anchor('C11', fid)
        if b is None:
            continue
        an = analysis_or_fail(ctx, 'C11', b)
        if an is None:
            continue
        n += 1
        sv = StateView(an, (('f', 'state'),))
        calls = [c for c in an.calls if c.targets and CONSIST_SOLVE in c.targets]
        if len(calls) != 1:
            ctx.bad('C11-1.handoff', fid + '|consist solve', 'expected exactly one call of %s on the step, found %d' % (CONSIST_SOLVE, len(calls)), ctx.where(b))
            continue
        c = calls[0]
        pwr_arg, dt_arg = c.argvals[1], c.argvals[2]
        final = sv.post('pwr_whl_out')
        prove(ctx, 'C11-1.handoff', fid + '|power handed to the consist', an, 'eq', T(pwr_arg), final, assume=[],
              where=ctx.where(b, c.span), note='consist solved with the final (post-clip) state.pwr_whl_out')
        # accumulators use the same dt term as the consist call
        for en, sign in (('energy_whl_out', None), ('energy_whl_out_pos', '+'), ('energy_whl_out_neg', '-')):
            delta = sv.post(en) - sv.pre(en)
            p = final
            if sign is None:
                ref = p * T(dt_arg)
            elif sign == '+':
                ref = gamma(p.ge(0), p * T(dt_arg), 0)
            else:
                ref = gamma(p.ge(0), 0, -(p * T(dt_arg)))
            prove(ctx, 'C11-2.accum', '%s|TrainState.%s' % (fid, en), an, 'eq', delta, ref, assume=[],
                  note='train-level accumulator uses the wheel power and the dt (%s) given to the consist' % show(dt_arg, an.names)[:80])
        # consist-level accumulator after the same step: Δenergy_out = consist.pwr_out · dt_arg
        cs = StateView(an, (('f', 'loco_con'), ('f', 'state')))
        prove(ctx, 'C11-2.accum', fid + '|ConsistState.energy_out', an, 'eq', cs.post('energy_out') - cs.pre('energy_out'), cs.post('pwr_out') * T(dt_arg),
              assume=[], note='consist-level accumulator over the same step')
        # the limits call uses the same dt as well
        lim = [x for x in an.calls if x.targets and any('set_cur_pwr_max_out' in t and 'Consist' in t for t in x.targets)]
        for x in lim:
            ctx.check(x.argvals[2] == dt_arg or _same_after(an, x.argvals[2], dt_arg), 'C11-3.dt', fid + '|limits dt', 'published limits use the step\'s dt',
                      'limits computed with %s, step solved with %s' % (show(x.argvals[2], an.names)[:100], show(dt_arg, an.names)[:100]), ctx.where(b, x.span))
    ctx.floor('train step roots', n, 2)
    dt_chain(ctx)
    getters(ctx)


def _same_after(an, a, b):
    from sa.prove import Prover
    v, _ = Prover(an.names).eq(a, b)
    return v == 'PROVED'


def dt_chain(ctx):
    """Consist -> Locomotive -> loco type: each callee receives the caller's dt parameter unchanged"""
    prog = ctx.prog
    eng = engine(ctx)
    n = 0
    for fid in ('Consist::solve_energy_consumption', 'Locomotive::solve_energy_consumption', 'ConsistSimulation::solve_energy_consumption',
                'LocomotiveSimulation::solve_energy_consumption'):
        b = prog.by_id.get(fid)
        if b is None:
            continue
        an = analysis_or_fail(ctx, 'C11-3.dt', b)
        if an is None:
            continue
        cands = [pn for pn, ty in b.params if ty.strip() == 'Time']
        if len(cands) != 1:
            continue
        dt = ('pre', (('val', cands[0]),))
        for c in an.calls:
            for tg in (c.targets or []):
                cb = prog.by_id.get(tg)
                if cb is None or not re.search(r'solve_energy_consumption|set_pwr_in_req', tg):
                    continue
                tp = [i for i, (pn, ty) in enumerate(cb.params) if ty.strip() == 'Time']
                if len(tp) == 1 and tp[0] < len(c.argvals):
                    n += 1
                    got = c.argvals[tp[0]]
                    ctx.check(got == dt, 'C11-3.dt', '%s -> %s' % (fid, tg), 'callee receives the caller\'s dt unchanged',
                              'callee receives %s' % show(got, an.names)[:160], ctx.where(b, c.span))
    ctx.floor('dt hand-down call sites', n, 4)
    # where dt comes from: the traces' own step size, time[i] − time[i−1] (both trace types), and the mean speed of a step
    from sa.terms import mk
    for fid in ('PowerTrace::dt', 'SpeedTrace::dt'):
        b = prog.by_id.get(fid)
        if b is None:
            ctx.unproved('C11-3.dt', fid, 'anchor not found'); continue
        an = analysis_or_fail(ctx, 'C11-3.dt', b)
        if an is None or len(b.params) != 2:
            continue
        i = ('pre', (('val', b.params[1][0]),))
        tm = lambda k: ('pre', (('obj', b.params[0][0]), ('f', 'time'), ('idx', k)))
        want = mk('sub', tm(i), tm(mk('sub', i, ONE)))
        ctx.check(an.ret() == want, 'C11-3.dt', fid, 'the step size of step i is time[i] − time[i−1] of the trace', 'returns %s' % show(an.ret(), an.names)[:120], ctx.where(b))


def getters(ctx):
    prog = ctx.prog
    eng = engine(ctx)
    sf = prog.by_id.get('SpeedLimitTrainSim::get_scaling_factor')
    if sf is None:
        ctx.unproved('C11-4.getters', 'SpeedLimitTrainSim::get_scaling_factor', 'anchor not found'); return
    an = analysis_or_fail(ctx, 'C11-4.getters', sf)
    if an is None:
        return
    ann = T(an.arg('annualize'))
    days = ('pre', (('obj', 1), ('f', 'simulation_days')))
    dsome = T(('pre', (('obj', 1), ('f', 'simulation_days'), ('as', 'Some'), ('f', '#0'))))
    k = gamma(ann, gamma(('discr', days), num('365.25') / dsome, num('365.25')), 1)
    prove(ctx, 'C11-4.getters', 'SpeedLimitTrainSim::get_scaling_factor', an, 'eq', T(an.ret()), k, assume=[],
          note='k = annualize ? (days given ? 365.25/days : 365.25) : 1')
    kterm = an.ret()
    n = 0

    def getter(fid, ref_builder, what):
        nonlocal n
        b = prog.by_id.get(fid)
        if b is None:
            ctx.unproved('C11-4.getters', fid, 'anchor not found'); return
        ga = analysis_or_fail(ctx, 'C11-4.getters', b)
        if ga is None:
            return
        n += 1
        ref = ref_builder(ga)
        if ref is None:
            ctx.unproved('C11-4.getters', fid, 'reference term could not be built', ctx.where(b)); return
        prove(ctx, 'C11-4.getters', fid, ga, 'eq', T(ga.ret()), ref, assume=[], note=what)

    def K(ga):
        # the scaling-factor term of this getter's own `self` and `annualize`
        return T(kterm)
    ST = lambda f: T(('pre', (('obj', 1), ('f', 'state'), ('f', f))))

    def consist_total(name):
        cb = prog.by_id.get('Consist::' + name)
        if cb is None:
            return None
        ca = eng.analysis(cb)
        if ca.exit_state is None:
            return None
        # re-root the consist getter's term at self.loco_con
        def rr(x):
            if x[0] == 'pre' and x[1][0] == ('obj', 1):
                return ('pre', (('obj', 1), ('f', 'loco_con')) + x[1][1:])
            if x[0] == 'seq':
                return ('seq', tuple(tuple(((('obj', 1), ('f', 'loco_con')) + y[1:]) if (isinstance(y, tuple) and y and y[0] == ('obj', 1)) else y for y in src) for src in x[1]), x[2]) + x[3:]
            return x
        return T(map_term(ca.ret(), rr))
    getter('SpeedLimitTrainSim::get_kilometers', lambda ga: ST('total_dist') / 1000 * K(ga), 'km = total_dist[km]·k')
    getter('SpeedLimitTrainSim::get_megagram_kilometers', lambda ga: (ST('mass_freight') / 1000) * (ST('total_dist') / 1000) * K(ga), 'Mg·km = mass_freight[Mg]·total_dist[km]·k')
    getter('SpeedLimitTrainSim::get_energy_fuel', lambda ga: (consist_total('get_energy_fuel') or None) and consist_total('get_energy_fuel') * K(ga), 'fuel = consist fuel total · k')
    getter('SpeedLimitTrainSim::get_net_energy_res', lambda ga: (consist_total('get_net_energy_res') or None) and consist_total('get_net_energy_res') * K(ga), 'battery = consist battery total · k')
    ctx.floor('trip-level getters', n, 4)
    # consist totals: arm tables
    pt = prog.typedef('PowertrainType')
    vidx = {v['name']: v['idx'] for v in pt.variants}
    want = {'get_energy_fuel': {'ConventionalLoco': ('fc', 'energy_fuel'), 'HybridLoco': ('fc', 'energy_fuel'), 'BatteryElectricLoco': None},
            'get_net_energy_res': {'ConventionalLoco': None, 'HybridLoco': ('res', 'energy_out_chemical'), 'BatteryElectricLoco': ('res', 'energy_out_chemical')}}
    for name, arms in want.items():
        cb = prog.by_id.get('Consist::' + name)
        if cb is None:
            ctx.unproved('C11-4.getters', 'Consist::' + name, 'anchor not found'); continue
        ca = analysis_or_fail(ctx, 'C11-4.getters', cb)
        if ca is None:
            continue
        t = ca.ret()
        if t[0] != 'Sum' or t[1][0] != 'seq' or [s for s in t[1][1]] != [('slice', (('obj', 1), ('f', 'loco_vec')))]:
            ctx.bad('C11-4.getters', 'Consist::' + name, 'not a Σ over self.loco_vec: %s' % show(t, ca.names)[:200], ctx.where(cb)); continue
        item = t[1][2]
        for vname, spec in arms.items():
            arm = select(item, lambda d: d[0] == 'discr', vidx[vname])
            key = 'Consist::%s|%s' % (name, vname)
            if spec is None:
                ctx.check(arm == ZERO, 'C11-4.getters', key, 'arm is 0', 'arm is %s' % show(arm, ca.names)[:200], ctx.where(cb))
            else:
                wantp = ('pre', (('obj', 1), ('f', 'loco_vec'), ('idx', ('bound', 0)), ('f', 'loco_type'), ('as', vname), ('f', '#0'), ('f', spec[0]), ('f', 'state'), ('f', spec[1])))
                ctx.check(arm == wantp, 'C11-4.getters', key, 'arm is loco.%s.state.%s' % spec, 'arm is %s' % show(arm, ca.names)[:300], ctx.where(cb))
    # reported losses: the consist's loss total is the Σ over its locomotives of the losses of exactly the components the powertrain
    # type has, each once (the "losses reported for each powertrain component" of the ledger)
    parts = {'ConventionalLoco': ['fc', 'gen', 'edrv'], 'HybridLoco': ['fc', 'gen', 'res', 'edrv'], 'BatteryElectricLoco': ['res', 'edrv'], 'DummyLoco': []}
    fid = '<Consist as LocoTrait>::get_energy_loss'
    cb = prog.by_id.get(fid)
    ca = analysis_or_fail(ctx, 'C11-4.getters', cb) if cb is not None else None
    if cb is None:
        ctx.unproved('C11-4.getters', fid, 'anchor not found')
    elif ca is not None:
        t = ca.ret()
        if t[0] != 'Sum' or t[1][0] != 'seq' or [s_ for s_ in t[1][1]] != [('slice', (('obj', 1), ('f', 'loco_vec')))]:
            ctx.bad('C11-4.getters', fid, 'not a Σ over self.loco_vec: %s' % show(t, ca.names)[:200], ctx.where(cb))
        else:
            item = t[1][2]
            def addends(x, out):
                if x[0] == 'add':
                    for y in x[1:]:
                        addends(y, out)
                elif x != ZERO:
                    out.append(x)
            for vname, comps in parts.items():
                if vname not in vidx:
                    continue
                arm = select(item, lambda d: d[0] == 'discr', vidx[vname])
                got = []
                addends(arm, got)
                exp = [('pre', (('obj', 1), ('f', 'loco_vec'), ('idx', ('bound', 0)), ('f', 'loco_type'), ('as', vname), ('f', '#0'), ('f', c_), ('f', 'state'), ('f', 'energy_loss')))
                       for c_ in comps]
                ctx.check(sorted(map(repr, got)) == sorted(map(repr, exp)), 'C11-4.getters', '%s|%s' % (fid, vname),
                          'reported loss = Σ energy_loss of %s, each once' % (', '.join(comps) or 'nothing'),
                          'reported loss sums %s' % [show(x, ca.names)[-50:] for x in got], ctx.where(cb))
    # vector getters: Σ over elements of the element getter
    for g in ('get_energy_fuel', 'get_net_energy_res', 'get_kilometers', 'get_megagram_kilometers'):
        vb = prog.by_id.get('SpeedLimitTrainSimVec::' + g)
        eb = prog.by_id.get('SpeedLimitTrainSim::' + g)
        if vb is None or eb is None:
            ctx.unproved('C11-4.getters', 'SpeedLimitTrainSimVec::' + g, 'anchor not found'); continue
        va = analysis_or_fail(ctx, 'C11-4.getters', vb)
        ea = analysis_or_fail(ctx, 'C11-4.getters', eb)
        if va is None or ea is None:
            continue
        t = va.ret()
        ok = t[0] == 'Sum' and t[1][0] == 'seq' and len(t[1][1]) == 1 and t[1][1][0][0] == 'slice'
        if ok:
            src = t[1][1][0][1]
            lvl = max([x[1] for x in walk(('tuple', t[1][2])) if x[0] == 'bound'] or [0])
            # element getter re-rooted at self.0[k_lvl], inner bound variables keep their lower levels
            def rr(x):
                if x[0] == 'pre' and x[1][0] == ('obj', 1):
                    return ('pre', src + (('idx', ('bound', lvl)),) + x[1][1:])
                if x[0] == 'pre' and x[1][0] == ('val', 2):
                    return ('pre', (('val', 2),) + x[1][1:])
                if x[0] == 'seq':
                    return ('seq', tuple(tuple((src + (('idx', ('bound', lvl)),) + y[1:]) if (isinstance(y, tuple) and y and y[0] == ('obj', 1)) else y for y in s_) for s_ in x[1]), x[2]) + x[3:]
                return x
            want = map_term(ea.ret(), rr)
            ok = t[1][2] == want
            if not ok:
                from sa.prove import Prover
                v, _ = Prover().eq(t[1][2], want)
                ok = v == 'PROVED'
        ctx.check(ok, 'C11-4.getters', 'SpeedLimitTrainSimVec::' + g, 'vector getter is the Σ over the trains of the element getter',
                  'vector getter term %s' % show(t, va.names)[:300], ctx.where(vb))


def initial_energies(ctx):
    """C11-7.init: cumulative energies agree across levels only if they start from the same value: every `energy_*` field of
    every state struct (train, consist, locomotive, components) is zero in the state a simulation starts from (Default, and
    TrainState::new which fills the rest from it)."""
    R = 'C11-7.init'
    prog = ctx.prog
    eng = engine(ctx)
    n = 0
    for name, tds in sorted(prog.types.items()):
        for td in tds:
            if td.test or td.kind != 'struct' or not name.endswith('State'):
                continue
            ef = [f['name'] for f in td.fields if f.get('name') and f['name'].startswith('energy_')]
            if not ef:
                continue
            ctors = [fid for fid in ('<%s as Default>::default' % name, '%s::new' % name) if fid in prog.by_id and not prog.by_id[fid].test]
            if not ctors:
                ctx.unproved(R, name, 'no Default / new body found for a state type with energy accumulators'); continue
            for fid in ctors:
                b = prog.by_id[fid]
                an = analysis_or_fail(ctx, R, b)
                if an is None:
                    continue
                r = an.ret()
                f = dict(r[2]) if r[0] == 'agg' else {}
                if not f:
                    ctx.unproved(R, fid, 'does not return a struct literal: %s' % show(r, an.names)[:160], ctx.where(b)); continue
                n += 1
                bad = {k: show(f.get(k), an.names)[:40] if f.get(k) is not None else None for k in ef if f.get(k) != ZERO}
                ctx.check(not bad, R, fid, 'all %d energy accumulators start at zero' % len(ef), 'accumulators that do not start at zero: %s' % bad, ctx.where(b))
    ctx.floor('state constructors with energy accumulators', n, 8)
