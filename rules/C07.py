"""C07 — resistance forces equal their physical definitions (DESIGN §5 C07)."""
import re
from fractions import Fraction
from sa.dsl import T, gamma, select, specialize, _t
from sa.terms import mk, ZERO, ONE, show, walk, map_term, num
from .common import (engine, inventory, StateView, locate, prove, analysis_or_fail, pretty)

LEVEL = 'proof'
MANIFEST = {
    'category': 'proof',
    'engine': 'svn',
    'technique': 'symbolic value numbering of update_res (per travel direction) + term-identity prover + freshness arm table',
    'text': ('At the Ok exit of both resistance methods\' update_res, for each travel direction: weight = static mass·g; rolling, '
             'Davis-B, bearing and aerodynamic forces equal their formulas; rear = front − length at the point of use; strap grade / '
             'curve force = weight·(cumulative value at the front index and offset − cumulative value at the rear index and rear '
             'offset)/length, reducing to the segment coefficient when both indices coincide; reported grade_front / grade_back / '
             'elev_front are functions of the front / rear cached index respectively; res_net is the sum of the six forces; the '
             'per-car aggregation in make_train_sim_parts matches the statement. Additionally a freshness table: per direction, the '
             'index that is compared without being refreshed is the one whose staleness is on the safe side.'),
    'note': ('Decided given the cached indices: correctness of LinSearchHint::calc_idx\'s incremental search and of fix_cache is an '
             'algorithmic invariant over run histories and is not decided. g is uc::ACC_GRAV (checked to lie in [9.78, 9.83]). Reals.'),
}
EXPLANATION = 'SVN terms of update_res / calc_res per direction vs the physical reference formulas; provenance of reported front/back values.'
RULES = ['C07-1.forces', 'C07-2.strap', 'C07-3.report', 'C07-4.resnet', 'C07-5.aggregate', 'C07-6.fresh', 'C07-7.sibling', 'C07-8.index', 'C07-9.profile', 'C07-10.braking', 'C07-11.mass']
ASSUMPTIONS = ['train length > 0', 'cached indices are correct for the current offsets (not decided)', 'identities over the reals']

DIRS = ((0, 'Unk'), (1, 'Fwd'), (2, 'Bwd'))


def val(C, i, x):
    """PathResCoeff::calc_res_val at index i: res_net + res_coeff·(x − offset)"""
    e = lambda f: T(('pre', C + (('idx', i), ('f', f))))
    return e('res_net') + e('res_coeff') * (T(x) - e('offset'))


def run(ctx):
    index_search(ctx)
    # grade and curve resistance are read off the cumulative path profile: its construction (C06-2 / C06-3 / C06-8) is a necessary
    # condition here too and is reported under this property as well
    from .common import RuleProxy
    from . import C06
    C06.run(RuleProxy(ctx, {k: 'C07-9.profile' for k in C06.RULES if k not in ('C06-4.catenary', 'C06-6.contiguity')}))
    # the same resistance model is evaluated backwards along the braking curve: there, too, it must see the offset and speed of the
    # position it is evaluated for (clause of C03-1, shared)
    from . import C03
    C03.anchor(RuleProxy(ctx, {'C03-1.anchor': 'C07-10.braking'}, key_filter=lambda k: k.endswith('|resistance state')))
    # weight = static mass · g, rolling / Davis-B are mass-weighted: the static mass handed to the train state (towed mass from the car
    # mix + consist mass, the sums of C20-7) is a premise of every resistance term and is reported under this property as well
    from . import C20
    C20.sums(RuleProxy(ctx, {'C20-7.sums': 'C07-11.mass'}, key_filter=lambda k: not k.startswith('Consist::force_max')))
    prog = ctx.prog
    eng = engine(ctx)
    g = eng.const_value('uc::ACC_GRAV')
    okg = g is not None and g[0] == 'num' and Fraction('9.78') <= g[1] <= Fraction('9.83')
    ctx.check(okg, 'C07-1.forces', 'uc::ACC_GRAV', 'gravity constant is %s m/s²' % (float(g[1]) if g and g[0] == 'num' else g), 'uc::ACC_GRAV = %s' % (g,))
    rb = prog.find_fn('rho_air')
    rho = None
    if rb is not None:
        ra = eng.analysis(rb)
        if ra.exit_state is not None and ra.ret()[0] == 'num':
            rho = ra.ret()
    okr = rho is not None and Fraction('1.1') <= rho[1] <= Fraction('1.3')
    ctx.check(okr, 'C07-1.forces', 'uc::rho_air', 'air density constant is %s kg/m³' % (float(rho[1]) if rho else None), 'uc::rho_air() = %s' % (rho,))
    if rho is None:
        rho = num('1.225')
    n = 0
    for fid, kind in (('<strap::Strap as ResMethod>::update_res', 'strap'), ('<point::Point as ResMethod>::update_res', 'point')):
        b = ctx.anchor('C07', fid)
        if b is None:
            continue
        an = analysis_or_fail(ctx, 'C07', b)
        if an is None:
            continue
        n += 1
        st = StateView(an, (), root=2)            # state: &mut TrainState is parameter 2
        S = lambda f: T(('pre', (('obj', 1), ('f', f[0]), ('f', f[1]))))
        W = st.pre('mass_static') * T(g)
        prove(ctx, 'C07-1.forces', fid + '|offset_back', an, 'eq', st.post('offset_back'), st.pre('offset') - st.pre('length'), assume=[])
        prove(ctx, 'C07-1.forces', fid + '|weight_static', an, 'eq', st.post('weight_static'), W, assume=[], note='weight = static mass · g')
        prove(ctx, 'C07-1.forces', fid + '|res_rolling', an, 'eq', st.post('res_rolling'), S(('rolling', 'ratio')) * W, assume=[])
        prove(ctx, 'C07-1.forces', fid + '|res_davis_b', an, 'eq', st.post('res_davis_b'), S(('davis_b', 'davis_b')) * st.pre('speed') * W, assume=[])
        prove(ctx, 'C07-1.forces', fid + '|res_bearing', an, 'eq', st.post('res_bearing'), S(('bearing', 'force')), assume=[])
        prove(ctx, 'C07-1.forces', fid + '|res_aero', an, 'eq', st.post('res_aero'), S(('aerodynamic', 'cd_area')) * T(rho) * st.pre('speed') ** 2, assume=[],
              note='drag area · air density · speed²')
        dirp = ('pre', (('obj', 4),))
        for fld, coll in (('grade', 'grades'), ('curve', 'curves')):
            C = (('obj', 3), ('f', coll))
            for k, dname in DIRS:
                var = ('variant', 'Dir::' + dname)
                sp = lambda t: specialize(_t(t), dirp, k, var)
                res = sp(st.post('res_' + fld))
                Wp = T(sp(st.post('weight_static')))
                off = T(sp(st.post('offset'))); offb = T(sp(st.post('offset_back'))); length = T(sp(st.post('length')))
                if kind == 'strap':
                    IF = sp(an.load((('obj', 1), ('f', fld), ('f', 'idx_front')), an.exit_state))
                    IB = sp(an.load((('obj', 1), ('f', fld), ('f', 'idx_back')), an.exit_state))
                    coeff = T(('pre', C + (('idx', IF), ('f', 'res_coeff'))))
                    ref = Wp * gamma(mk('eq', IF, IB), coeff, (val(C, IF, off) - val(C, IB, offb)) / length)
                    prove(ctx, 'C07-2.strap', '%s|res_%s|%s' % (fid, fld, dname), an, 'eq', T(res), ref, assume=[],
                          note='[dir = %s] weight·(value at front − value at rear)/length over the cached indices' % dname)
                    if fld == 'grade':
                        prove(ctx, 'C07-3.report', '%s|grade_front|%s' % (fid, dname), an, 'eq', T(sp(st.post('grade_front'))), coeff, assume=[],
                              note='[dir = %s] reported front grade is the coefficient at the front index' % dname)
                        prove(ctx, 'C07-3.report', '%s|grade_back|%s' % (fid, dname), an, 'eq', T(sp(st.post('grade_back'))),
                              T(('pre', C + (('idx', IB), ('f', 'res_coeff')))), assume=[],
                              note='[dir = %s] reported rear grade is the coefficient at the rear index' % dname)
                        prove(ctx, 'C07-3.report', '%s|elev_front|%s' % (fid, dname), an, 'eq', T(sp(st.post('elev_front'))), val(C, IF, off), assume=[],
                              note='[dir = %s] reported front elevation is the cumulative value at the front index and offset' % dname)
                else:
                    I = sp(an.load((('obj', 1), ('f', fld), ('f', 'idx')), an.exit_state))
                    coeff = T(('pre', C + (('idx', I), ('f', 'res_coeff'))))
                    prove(ctx, 'C07-2.strap', '%s|res_%s|%s' % (fid, fld, dname), an, 'eq', T(res), Wp * coeff, assume=[],
                          note='[dir = %s] point model: weight · coefficient at the cached index' % dname)
                    if fld == 'grade':
                        prove(ctx, 'C07-3.report', '%s|grade_front|%s' % (fid, dname), an, 'eq', T(sp(st.post('grade_front'))), coeff, assume=[])
                        prove(ctx, 'C07-3.report', '%s|elev_front|%s' % (fid, dname), an, 'eq', T(sp(st.post('elev_front'))), val(C, I, off), assume=[])
    ctx.floor('resistance methods analysed', n, 2)
    resnet(ctx)
    freshness(ctx)
    sibling(ctx)
    aggregate(ctx)


def resnet(ctx):
    b = ctx.anchor('C07-4.resnet', 'TrainState::res_net')
    if b is None:
        return
    an = analysis_or_fail(ctx, 'C07-4.resnet', b)
    if an is None:
        return
    s = T(ZERO)
    for f in ('res_rolling', 'res_bearing', 'res_davis_b', 'res_aero', 'res_grade', 'res_curve'):
        s = s + T(('pre', (('obj', 1), ('f', f))))
    prove(ctx, 'C07-4.resnet', 'TrainState::res_net', an, 'eq', T(an.ret()), s, assume=[], note='net resistance is the sum of the six forces')
    cb = ctx.anchor('C07-4.resnet', 'PathResCoeff::calc_res_val')
    if cb is not None:
        ca = analysis_or_fail(ctx, 'C07-4.resnet', cb)
        if ca is not None:
            e = lambda f: T(('pre', (('obj', 1), ('f', f))))
            x = T(('pre', (('val', 2),)))
            prove(ctx, 'C07-4.resnet', 'PathResCoeff::calc_res_val', ca, 'eq', T(ca.ret()), e('res_net') + e('res_coeff') * (x - e('offset')), assume=[],
                  note='piecewise-linear cumulative value')


def freshness(ctx):
    """per direction, which cached index of path_res::Strap is refreshed by a search at the current position *before* the
    equal-index shortcut, and which one only when the shortcut is not taken.  Frozen table with reasons:
       Fwd: positions grow, a stale rear index is <= the true one <= front  -> refresh front first, rear lazily
       Bwd: positions shrink, a stale front index is >= the true one >= rear -> refresh rear first, front lazily
       Unk: no monotonicity                                                 -> refresh both first"""
    b = ctx.anchor('C07-6.fresh', 'path_res::Strap::calc_res')
    if b is None:
        return
    an = analysis_or_fail(ctx, 'C07-6.fresh', b)
    if an is None:
        return
    dirp = ('pre', (('obj', 4),))
    off = ('pre', (('obj', 3), ('f', 'offset'))); offb = ('pre', (('obj', 3), ('f', 'offset_back')))
    prf = ('pre', (('obj', 1), ('f', 'idx_front'))); prb = ('pre', (('obj', 1), ('f', 'idx_back')))
    # search results by (offset argument, site)
    searches = {}
    for c in an.calls:
        if c.targets and any(t.endswith('calc_idx') for t in c.targets) and c.result is not None:
            searches[c.block] = (c.argvals[1], c.result)
    ret = an.ret()
    table = {'Fwd': ('front', 'rear-lazy'), 'Bwd': ('rear', 'front-lazy'), 'Unk': ('both', None)}
    for k, dname in DIRS:
        var = ('variant', 'Dir::' + dname)
        r = specialize(ret, dirp, k, var)
        cond = None
        for x in walk(r):
            if x[0] == 'gamma' and x[1][0] == 'eq':
                cond = x[1]
                break
        if cond is None:
            ctx.unproved('C07-6.fresh', 'path_res::Strap::calc_res|%s' % dname, 'equal-index shortcut not found in %s' % show(r, an.names)[:200], ctx.where(b))
            continue
        lhs, rhs = cond[1], cond[2]

        def origin(t):
            if t == prf: return 'stale front'
            if t == prb: return 'stale rear'
            for blk, (oarg, res) in searches.items():
                if specialize(_unwrap_ok(res), dirp, k, var) == t:
                    return 'search(front offset)' if oarg == off else ('search(rear offset)' if oarg == offb else 'search(?)')
            return 'other: ' + show(t, an.names)[:80]
        o1, o2 = origin(lhs), origin(rhs)
        want = {'Fwd': {'search(front offset)', 'stale rear'}, 'Bwd': {'stale front', 'search(rear offset)'},
                'Unk': {'search(front offset)', 'search(rear offset)'}}[dname]
        ctx.check({o1, o2} == want, 'C07-6.fresh', 'path_res::Strap::calc_res|%s' % dname,
                  'shortcut compares %s with %s' % (o1, o2), 'shortcut compares %s with %s, expected %s' % (o1, o2, sorted(want)), ctx.where(b))


def _captures(eng, parent, cb):
    """{capture index: term} of closure body `cb` as built in `parent`"""
    an = eng.analysis(parent)
    m = re.search(r'\{closure@[^}]*\}', cb.params[0][1])
    if an.exit_state is None or not m:
        return None
    cid = m.group(0)
    best = None
    def scan(t):
        nonlocal best
        for x in walk(t):
            if x[0] == 'closure' and x[1] == cid:
                best = dict(x[2])
    for c in an.calls:
        for a in c.argvals:
            scan(a)
        if c.result is not None:
            scan(c.result)
    return best


def _unwrap_ok(t):
    if t[0] == 'ok':
        return t[1]
    if t[0] == 'uf' and t[1] == 'unwrap':
        return _unwrap_ok(t[2])
    if t[0] == 'cf':
        return t[2]
    return t


def sibling(ctx):
    """both resistance methods assign the same six force fields"""
    inv = inventory(ctx)
    fields = ['res_rolling', 'res_bearing', 'res_davis_b', 'res_aero', 'res_grade', 'res_curve', 'weight_static', 'offset_back']
    for fid in ('<strap::Strap as ResMethod>::update_res', '<point::Point as ResMethod>::update_res'):
        b = ctx.prog.by_id.get(fid)
        if b is None:
            continue
        an = engine(ctx).analysis(b)
        if an.exit_state is None:
            continue
        missing = [f for f in fields if an.exit_state.store.get((('obj', 2), ('f', f))) is None]
        ctx.check(not missing, 'C07-7.sibling', fid, 'assigns all six force fields, the weight and the rear offset',
                  'does not assign %s' % missing, ctx.where(b))


def aggregate(ctx):
    """make_train_sim_parts: each fold closure adds, per rail-vehicle type, (count of cars of that type) × the per-car
    contribution the statement names; rolling / Davis-B contributions are mass-weighted by vehicle mass / towed mass."""
    import sympy as sp
    from sa.prove import Prover, Ctx
    prog = ctx.prog
    parent = 'TrainSimBuilder::make_train_sim_parts'
    b = prog.by_id.get(parent)
    if b is None:
        ctx.unproved('C07-5.aggregate', parent, 'anchor not found'); return
    eng = engine(ctx)
    # which closure feeds which constructor / state field: by the rail-vehicle field its body reads
    specs = {
        'bearing_res_per_axle': ('bearing', ['bearing_res_per_axle', 'axle_count'], [], None),
        'rolling_ratio': ('rolling', ['rolling_ratio'], ['towed_mass_static'], r'mass'),
        'davis_b': ('davis_b', ['davis_b'], ['towed_mass_static'], r'mass'),
        'cd_area': ('aerodynamic', ['cd_area'], [], None),
        'mass_rot_per_axle': ('mass_rot', ['mass_rot_per_axle', 'axle_count'], [], None),
        'mass_freight': ('mass_freight', ['mass_freight'], [], None),
        'braking_ratio': ('braking_ratio', ['braking_ratio'], [], None),
    }
    seen = set()
    for cb in prog.closures_of(parent):
        ca = eng.analysis(cb)
        if ca.exit_state is None or len(cb.params) < 3:
            continue
        r = ca.ret()
        if r[0] == 'ok':
            r = r[1]
        acc = ('pre', (('val', 2),))
        D = mk('sub', r, acc)
        txt = show(D)
        key = None
        for fld in specs:          # in table order: the mass-weighted closures also read mass_freight (through the vehicle's mass())
            if re.search(r'\.%s\b' % fld, txt):
                key = fld
                break
        if key is None:
            # the explicit per-car drag-area vector: each entry is added as it is
            elem = [x for x in walk(D) if x[0] == 'pre' and x[1] and x[1][0] in (('val', 3), ('obj', 3))]
            if elem and len(cb.params) == 3 and 'Area' in cb.params[2][1] + cb.params[1][1] or (elem and 'cd_area_vec' in show(r)):
                seen.add('aerodynamic (per-car vector)')
                ctx.check(D == elem[0] or Prover().eq(D, elem[0])[0] == 'PROVED', 'C07-5.aggregate', parent + '|aerodynamic (per-car vector)',
                          'each entry of the per-car drag-area vector is added once', 'the fold step adds %s' % show(D)[:160], ctx.where(cb))
            continue
        name, factors, denoms, rest_rx = specs[key]
        if name in seen:
            continue
        seen.add(name)
        pv = Prover()
        pv._opaque = True
        cx = Ctx(pv)
        try:
            e = sp.cancel(sp.together(sp.expand(pv._conv(D, cx))))
        except Exception as ex:
            ctx.unproved('C07-5.aggregate', parent + '|' + name, 'cannot normalise the closure term: %s' % ex, ctx.where(cb)); continue
        finally:
            pv._opaque = False
        syms = {s_.name: s_ for s_ in e.free_symbols}
        count = [n_ for n_ in syms if 'n_cars_by_type' in n_ or 'HashMap' in n_]
        if len(count) != 1:
            ctx.bad('C07-5.aggregate', parent + '|' + name, 'contribution is not multiplied by exactly one per-type car count: %s' % sorted(syms)[:8], ctx.where(cb)); continue
        q = e / syms[count[0]]
        ok = True
        why = []
        for f in factors:
            fs = [n_ for n_ in syms if re.search(r'\.%s$' % f, n_)]
            if len(fs) != 1:
                ok = False; why.append('factor %s missing' % f); continue
            q = q / syms[fs[0]]
        for dn in denoms:
            ds = [n_ for n_ in syms if dn in n_]
            if len(ds) != 1:
                # the divisor may be captured by reference: resolve capture k of this closure in the parent's analysis
                ds = []
                caps = _captures(eng, b, cb)
                for n_ in syms:
                    m_ = re.fullmatch(r'\*\(arg1\.#(\d+)\)', n_)
                    if m_ and caps is not None and int(m_.group(1)) in caps and dn in show(caps[int(m_.group(1))]):
                        ds.append(n_)
            if len(ds) != 1:
                ok = False; why.append('divisor %s missing' % dn); continue
            q = q * syms[ds[0]]
        q = sp.cancel(sp.together(q))
        left = {s_.name for s_ in q.free_symbols}
        if rest_rx is None:
            if q != 1:
                ok = False; why.append('extra factor %s' % q)
        else:
            if not left or not all(re.search(rest_rx, n_) for n_ in left):
                ok = False; why.append('remaining factor %s is not made of the vehicle\'s mass fields only' % str(q)[:120])
        ctx.check(ok, 'C07-5.aggregate', parent + '|' + name,
                  'per vehicle type: count × %s%s%s' % ('·'.join(factors), '·mass' if rest_rx else '', ('/' + '/'.join(denoms)) if denoms else ''),
                  '; '.join(why) + ' :: contribution = %s' % str(e)[:300], ctx.where(cb))
    ctx.floor('aggregation closures recognised', len(seen), 8)
    # mass_static = towed + consist mass (TrainState::new argument)
    an = analysis_or_fail(ctx, 'C07-5.aggregate', b)
    if an is not None:
        for c in an.calls:
            if c.targets and 'TrainState::new' in c.targets and len(c.argvals) > 1:
                s_ = show(c.argvals[1], an.names)
                a_ = c.argvals[1]
                ok = a_[0] == 'add' and (('loco_con' in show(a_[2], an.names) and 'rail_vehicles' in show(a_[1], an.names)) or
                                         ('loco_con' in show(a_[1], an.names) and 'rail_vehicles' in show(a_[2], an.names)))
                ctx.check(ok, 'C07-5.aggregate', parent + '|mass_static', 'static mass handed to the train state is towed mass + consist mass',
                          'mass_static argument is %s' % s_[:300], ctx.where(b, c.span))


def index_seeds(ctx):
    """the cached indices are created by `Strap::new` / `Point::new`.  The forward search only ever moves an index up, so an index
    that starts beyond its position stays wrong until the train has moved past it.  Decided: on a populated profile the rear
    index is searched for offset - length from the start of the profile (hint 0), forward; the front index for offset, forward,
    from the rear index (which cannot lie beyond it); the point index for the middle of the train from the start; on an empty
    profile all indices are 0."""
    R = 'C07-8.index'
    prog = ctx.prog
    eng = engine(ctx)
    FW = 'Dir::Fwd'
    def calls_of(an):
        out = []
        for c in an.calls:
            if 'calc_idx' in c.callee and len(c.argvals) >= 4:
                d = c.pointees[3] if c.pointees and len(c.pointees) > 3 else None
                out.append((c, c.argvals[1], c.argvals[2], show(d, an.names) if d is not None else ''))
        return out
    b = prog.by_id.get('path_res::Strap::new')
    if b is None:
        ctx.unproved(R, 'path_res::Strap::new', 'anchor not found')
    else:
        an = analysis_or_fail(ctx, R, b)
        if an is not None:
            off = ('pre', (('obj', 2), ('f', 'offset'))); ln = ('pre', (('obj', 2), ('f', 'length')))
            cs = calls_of(an)
            r = an.ret()
            back = [x for x in cs if x[1] == mk('sub', off, ln)]
            front = [x for x in cs if x[1] == off]
            okb = len(cs) == 2 and len(back) == 1 and back[0][2] == ZERO and back[0][3].startswith(FW)
            ctx.check(okb, R, 'path_res::Strap::new|rear index', 'the rear index is searched for offset - length, forward, from the start of the profile',
                      'calc_idx calls: %s' % [(show(x[1], an.names)[:40], show(x[2], an.names)[:40], x[3][:12]) for x in cs], ctx.where(b))
            fields_ = None
            if r[0] == 'gamma' and r[3][0] == 'ok' and r[3][1][0] == 'agg':
                fields_ = dict(r[3][1][2])
            okf = okb and len(front) == 1 and front[0][3].startswith(FW) and fields_ is not None and front[0][2] == fields_.get('idx_back') and fields_.get('idx_back') != fields_.get('idx_front')
            ctx.check(okf, R, 'path_res::Strap::new|front index', 'the front index is searched for offset, forward, starting from the rear index that is stored',
                      'front search starts from %s; stored: %s' % (show(front[0][2], an.names)[:60] if front else None, {k: show(v, an.names)[:40] for k, v in (fields_ or {}).items()}), ctx.where(b))
            oke = r[0] == 'gamma' and r[2][0] == 'ok' and r[2][1][0] == 'agg' and all(v == ZERO for k, v in r[2][1][2])
            ctx.check(oke, R, 'path_res::Strap::new|empty profile', 'on a profile without segments both indices are 0', 'returns %s' % show(r, an.names)[:160], ctx.where(b))
    b = prog.by_id.get('path_res::Point::new')
    if b is None:
        ctx.unproved(R, 'path_res::Point::new', 'anchor not found')
    else:
        an = analysis_or_fail(ctx, R, b)
        if an is not None:
            cs = calls_of(an)
            okp = len(cs) == 1 and cs[0][2] == ZERO and cs[0][3].startswith(FW) and not cs[0][0].pc
            ctx.check(okp, R, 'path_res::Point::new|index', 'the point index is searched forward from the start of the profile',
                      'calc_idx calls: %s' % [(show(x[1], an.names)[:50], show(x[2], an.names)[:30], x[3][:12]) for x in cs], ctx.where(b))


def index_search(ctx):
    index_seeds(ctx)
    """LinSearchHint::calc_idx (the cached position index every strap resistance reads through): on every accepted exit of
    the forward search the element after the returned index is not below the offset, on every accepted exit of the backward
    search the returned element is not above it; the searches move the hint by exactly one per iteration and start from it.
    With the guards (offset within the slice) this is the bracket  points[idx].offset <= offset <= points[idx+1].offset  for a
    hint on the right side — the exit condition must not have any other way out (an extra conjunct leaves the index stale)."""
    R = 'C07-8.index'
    prog = ctx.prog
    bs = [prog.by_id[f] for f in sorted(prog.by_id) if f.endswith('LinSearchHint>::calc_idx') and not prog.by_id[f].test]
    if len(bs) != 1:
        ctx.unproved(R, 'LinSearchHint::calc_idx', 'expected one implementation, found %d' % len(bs)); return
    b = bs[0]
    an = analysis_or_fail(ctx, R, b)
    if an is None:
        return
    w = ctx.where(b)
    idxp = (('local', b.params[2][0]),)
    off = ('pre', (('val', b.params[1][0]),))

    def alts(pc):
        out = []
        for c, o in pc:
            if c[0] == 'pathset':
                for alt in c[2]:
                    out.extend(alts(alt) or [[]])
            else:
                out = [x + [(c, o)] for x in (out or [[]])]
        return out
    exits = []
    for pc, v in an.exit_paths:
        exits.extend(alts(pc))
    fwd = [e for e in exits if any(c[0] == 'lt' and c[2] == off and o == '0' for c, o in e)]
    bwd = [e for e in exits if any(c[0] == 'lt' and c[1] == off and o == '0' for c, o in e)]
    loops = {}
    for h in an.loop_entry:
        if idxp in an.havoc.get(h, ()):
            ent = an.load(idxp, an.loop_entry[h])
            backs = [an.load(idxp, s_) for s_ in an.loop_back.get(h, [])]
            loops[h] = (ent, backs)
    hint = ('pre', (('val', b.params[2][0]),))
    for name, ex, step in (('forward', fwd, 'add'), ('backward', bwd, 'sub')):
        ok = len(ex) == 1
        why = '%d accepted ways out of the %s search' % (len(ex), name)
        if ok:
            last = ex[0][-1][0]
            L = [x for x in walk(last) if x[0] == 'loopvar' and x[2] == idxp]
            ok = len(set(L)) == 1
            if ok:
                Lv = L[0]
                elem = last[1] if name == 'forward' else last[2]
                want_idx = mk('add', Lv, ONE) if name == 'forward' else Lv
                ok = any(x[0] == 'pre' and x[1][-1] == ('idx', want_idx) for x in walk(elem)) or any(c == ('idx', want_idx) for x in walk(elem) if x[0] == 'pre' for c in x[1])
                why = 'exit test reads %s' % show(elem, an.names)[:120]
                # only loop decision on that exit: no other conjunct can stop the search early
                loopdecs = [c for c, o in ex[0] if any(y == Lv for y in walk(c))]
                ok = ok and len(loopdecs) == 1
                if len(loopdecs) != 1:
                    why = 'the search can also stop on %s' % [show(c, an.names)[:80] for c in loopdecs if c != last]
                ent, backs = loops.get(Lv[1], (None, []))
                ok2 = ent == hint and bool(backs) and all(x == mk(step, Lv, ONE) for x in backs)
                ctx.check(ok2, R, 'calc_idx|%s|step' % name, 'the %s search starts from the hint and moves by exactly one element per iteration' % name,
                          'starts from %s, steps %s' % (show(ent, an.names)[:60] if ent else None, [show(x, an.names)[:60] for x in backs]), w)
        ctx.check(ok, R, 'calc_idx|%s|bracket' % name,
                  ('the forward search stops only when the next element is not below the offset' if name == 'forward' else 'the backward search stops only when the current element is not above the offset'),
                  why, w)
    gs = [show(g.holds_term(), an.names) for g in an.guards]
    ctx.check(any('get_offset' in g_ and '<=' in g_ for g_ in gs) and len([g_ for g_ in gs if 'get_offset' in g_]) >= 2, R, 'calc_idx|range',
              'offsets outside the slice are errors (forward: beyond the last element; backward: before the first)', 'guards: %s' % gs[:4], w)
