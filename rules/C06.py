"""C06 — path geometry handed to the train model equals the network's geometry (DESIGN §5 C06)."""
import re
from fractions import Fraction
from sa.dsl import T, gamma, _t
from sa.terms import mk, ZERO, ONE, show, walk, map_term, num
from .common import engine, inventory, prove, analysis_or_fail, plain_iteration, selected_iteration

LEVEL = 'proof'
MANIFEST = {
    'category': 'proof',
    'engine': 'svn',
    'technique': ('symbolic value numbering of PathTpc::extend with loop widening: the value pushed per iteration as a closed term over '
                  '(the vector\'s last element at iteration start, the link\'s own points), recurrence check of loop-carried locals on the '
                  'entry and back edges, push multiplicity per arm against the stored counts, guard dominance for contiguity, and a '
                  'loop-carried-dependence inventory for the one-call ≡ any-split clause'),
    'text': ('Per link appended: the link point offset is the previous offset plus the link length; each grade segment gets '
             'coefficient Δelev/Δoffset of consecutive elevation points, boundary offset = offset at link start + point offset and '
             'cumulative value = previous cumulative value + Δelev (the carried local is proved equal to the last pushed value on the '
             'entry and back edge of its loop); curvature = |−π + ((Δheading + π) mod 2π)| / Δoffset with cumulative value + '
             'coefficient·length; catenary sections are shifted by the offset at link start and copied otherwise; links without '
             'points contribute one flat segment. The stored per-link counts equal the number of pushes of every arm. A link is '
             'appended only if real and, when the path is non-empty, only if one of its two predecessor references is the previous '
             'path link. calc_res_val is res_net + res_coeff·(x − offset); finish appends flat sentinels. One call ≡ any split: every '
             'value carried from one link iteration to the next lives in the object (last elements), the two passes touch disjoint '
             'vectors, and the only carried locals feed Vec::reserve.'),
    'note': ('Assumes validated links (elevation / heading lists empty or with >= 2 strictly increasing points, last point at the link '
             'length). Not decided: that per-link elevation differences agree at junctions (network data). Speed points are C02\'s.'),
}
EXPLANATION = 'Closed per-iteration terms of PathTpc::extend; recurrences on loop entry/back edges; push multiplicity vs counts; guards.'
RULES = ['C06-1.linkpoints', 'C06-2.grades', 'C06-3.curves', 'C06-4.catenary', 'C06-5.counts', 'C06-6.contiguity', 'C06-7.split',
         'C06-8.value', 'C06-9.finish', 'C06-10.clear']
ASSUMPTIONS = ['links validated: elevation / heading lists are empty or have >= 2 points with strictly increasing offsets ending at the link length']

FID = 'PathTpc::extend'
A = []


def P(*fields, root=('obj', 1)):
    p = (root,)
    for f in fields:
        p = p + (('f', f),)
    return p


def is_push(c, field):
    return bool(re.search(r'Vec::<[^>]*>::push$|Vec<[^>]*>::push$', re.sub(r'\s', '', c.callee)) or c.callee.endswith('::push')) and \
        c.argvals and c.argvals[0] == ('ref', P(field), 'mut')


def agg_fields(v):
    return dict(v[2]) if v[0] == 'agg' else None


def last_of(header, field, what):
    L = ('loopvar', header, P(field))
    return ('proj', ('elem', L, mk('sub', ('len', L), ONE)), ('f', what))


def headers_in(t, field):
    """loop headers whose widened value of self.<field> occurs in t"""
    out = []
    for x in walk(t):
        if x[0] == 'loopvar' and x[2] == P(field) and x[1] not in out:
            out.append(x[1])
    return out


def link_prefix(an, t, netparam):
    """the path prefix network[<index taken from the path element>] used in t (unique), and its index term"""
    found = []
    for x in walk(t):
        if x[0] == 'pre' and x[1][0] == netparam and len(x[1]) > 1 and x[1][1][0] == 'idx':
            if x[1][:2] not in found:
                found.append(x[1][:2])
    return found


def window_prefixes(t, link, field):
    """(prefix of window element 0, prefix of window element 1) for windows(2) over link.<field> occurring in t"""
    w = []
    n = len(link)
    for x in walk(t):
        if x[0] == 'pre' and x[1][:n] == link and len(x[1]) > n + 2 and x[1][n] == ('f', field) and x[1][n + 1][0] == 'idx' and \
                x[1][n + 1][1][0] == 'uf' and x[1][n + 1][1][1] == 'window':
            if x[1][:n + 2] not in w:
                w.append(x[1][:n + 2])
    if len(w) != 1:
        return None
    return w[0] + (('idx', num(0)),), w[0] + (('idx', num(1)),)


def pref(prefix, f):
    return ('pre', prefix + (('f', f),))


def gate_tail(an, c, n_outer):
    """decisions of a call's path condition after the first n_outer (printed)"""
    return [(show(x, an.names)[:160], o) for x, o in c.pc[n_outer:]]


def run(ctx):
    prog = ctx.prog
    b = ctx.anchor('C06-1.linkpoints', FID)
    if b is None:
        return
    an = analysis_or_fail(ctx, 'C06-1.linkpoints', b)
    if an is None:
        return
    if len(b.params) != 3:
        ctx.unproved('C06-1.linkpoints', FID, 'expected (self, network, link_path), found %d parameters' % len(b.params), ctx.where(b)); return
    net = ('val', b.params[1][0])        # generic AsRef<[Link]> / AsRef<[LinkIdx]> arguments: as_ref() is transparent in the terms
    lp = ('val', b.params[2][0])
    w = ctx.where(b)
    S = {'an': an, 'b': b, 'net': net, 'lp': lp, 'w': w}
    linkpoints(ctx, S)
    grades_or_curves(ctx, S, 'grades', 'elevs', 'elev', 'C06-2.grades')
    grades_or_curves(ctx, S, 'curves', 'headings', 'heading', 'C06-3.curves')
    catenary(ctx, S)
    contiguity(ctx, S)
    split(ctx, S)
    value_and_finish(ctx)
    clear_rule(ctx)


def path_elem_index_ok(S, link):
    """network is indexed by the idx of the link_path element of the current iteration"""
    an = S['an']
    it = link[1][1]
    ok = False
    for x in walk(it):
        if x[0] == 'pre' and x[1][0] == S['lp'] and len(x[1]) >= 2 and x[1][1][0] == 'idx' and x[1][1][1][0] == 'iterpos':
            ok = True
    return ok


# ------------------------------------------------------------------------------------------------ pass 1
def linkpoints(ctx, S):
    an, w = S['an'], S['w']
    R = 'C06-1.linkpoints'
    ps = [c for c in an.calls if is_push(c, 'link_points')]
    if len(ps) != 1 or not ps[0].in_loop:
        ctx.unproved(R, FID, 'expected exactly one push to link_points, inside the loop over the path: found %d' % len(ps), w); return
    c = ps[0]
    f = agg_fields(c.argvals[1])
    if f is None:
        ctx.unproved(R, FID, 'pushed link point is not a struct literal', w); return
    links = link_prefix(an, f['offset'], S['net'])
    hs = headers_in(f['offset'], 'link_points')
    if len(links) != 1 or len(hs) != 1 or not path_elem_index_ok(S, links[0]):
        ctx.unproved(R, FID, 'pushed offset does not read exactly one link (indexed by the current path element) and the carried link_points: %s' % show(f['offset'], an.names)[:200], w); return
    link, H1 = links[0], hs[0]
    S['link1'], S['H1'] = link, H1
    prove(ctx, R, FID + '|offset', an, 'eq', T(f['offset']), T(last_of(H1, 'link_points', 'offset')) + T(pref(link, 'length')), assume=A, where=ctx.where(S['b'], c.span),
          note='boundary after a link = boundary before it + link length')
    # one push per path element: the push is gated by the path iterator only
    ctx.check(len(c.pc) == 1 and c.pc[0][1] == '1' and plain_iteration(c.pc[0][0]), R, FID + '|one per link', 'exactly one link point is appended per path element (no other condition)',
              'push is gated by %s' % gate_tail(an, c, 0), ctx.where(S['b'], c.span))
    # the fields written into the (previously dummy) last link point
    last_idx = mk('sub', ('len', ('loopvar', H1, P('link_points'))), ONE)
    want = {
        'link_idx': pref(link, 'idx_curr'),
        'grade_count': mk('sub', mk('max', ('len', pref(link, 'elevs')), num(2)), ONE),
        'curve_count': mk('sub', mk('max', ('len', pref(link, 'headings')), num(2)), ONE),
        'cat_power_count': ('len', pref(link, 'cat_power_limits')),
    }
    S['counts'] = {}
    for fld, wv in want.items():
        st = [(bb, val, span) for bb, path, val, span in an.stores_log if path == P('link_points') + (('idx', last_idx), ('f', fld))]
        if len(st) != 1:
            ctx.bad(R, FID + '|' + fld, 'expected one store into the last link point\'s %s per iteration, found %d' % (fld, len(st)), w); continue
        S['counts'][fld] = st[0][1]
        if fld == 'link_idx':
            ctx.check(st[0][1] == wv, R, FID + '|' + fld, 'the link point records the link\'s own index', 'stores %s' % show(st[0][1], an.names)[:160], ctx.where(S['b'], st[0][2]))


# ------------------------------------------------------------------------------------------------ pass 2: grades / curves
def grades_or_curves(ctx, S, vec, pts, val, R):
    an, w = S['an'], S['w']
    ps = [c for c in an.calls if is_push(c, vec)]
    flat = [c for c in ps if not any(x[0] != 'pathset' and 'window' in repr(x) for x, o in c.pc)]
    win = [c for c in ps if any(x[0] != 'pathset' and 'window' in repr(x) for x, o in c.pc)]
    if len(flat) != 1 or len(win) != 1:
        ctx.unproved(R, FID, 'expected one push to %s for a link without %s and one per window of consecutive points: found %d / %d' % (vec, pts, len(flat), len(win)), w); return
    cf, cw = flat[0], win[0]
    ff, fw = agg_fields(cf.argvals[1]), agg_fields(cw.argvals[1])
    if ff is None or fw is None:
        ctx.unproved(R, FID, 'pushed %s elements are not struct literals' % vec, w); return
    links = link_prefix(an, ff['offset'], S['net'])
    hs = headers_in(ff['offset'], 'grades')
    if len(links) != 1 or len(hs) != 1 or not path_elem_index_ok(S, links[0]):
        ctx.unproved(R, FID, 'flat %s segment does not read one link and the carried grades: %s' % (vec, show(ff['offset'], an.names)[:200]), w); return
    link, H2 = links[0], hs[0]
    S.setdefault('link2', link); S.setdefault('H2', H2)
    base = T(last_of(H2, 'grades', 'offset'))              # offset at link start (taken from grades for all three vectors)
    # ---- link without points: one flat segment to the link end
    k = '%s|no %s' % (FID, pts)
    empty_cond = mk('eq', ('len', pref(link, pts)), ZERO)
    gate_ok = any(x == empty_cond and o != '0' for x, o in cf.pc) and not cf.pc[-1][0][0] == 'pathset' and \
        sum(1 for x, o in cf.pc if plain_iteration(x)) >= 1 and not any(selected_iteration(x) is not None for x, o in cf.pc)
    ctx.check(gate_ok, R, k + '|gate', 'taken exactly when the link has no %s' % pts, 'gate: %s' % gate_tail(an, cf, 0), ctx.where(S['b'], cf.span))
    prove(ctx, R, k + '|offset', an, 'eq', T(ff['offset']), base + T(pref(link, 'length')), assume=A, where=ctx.where(S['b'], cf.span), note='flat segment ends at the link end')
    prove(ctx, R, k + '|res_net', an, 'eq', T(ff['res_net']), T(last_of(H2, vec, 'res_net')), assume=A, where=ctx.where(S['b'], cf.span), note='flat segment keeps the cumulative value')
    prove(ctx, R, k + '|res_coeff', an, 'eq', T(ff['res_coeff']), 0, assume=A, where=ctx.where(S['b'], cf.span))
    S[vec + '_flat'] = cf
    # ---- one segment per pair of consecutive points
    k = '%s|%s windows' % (FID, pts)
    wp = window_prefixes(('tuple',) + tuple(v for _, v in cw.argvals[1][2]), link, pts)
    if wp is None:
        ctx.unproved(R, k, 'pushed element does not read consecutive pairs of link.%s' % pts, ctx.where(S['b'], cw.span)); return
    prev, curr = wp
    d_off = T(pref(curr, 'offset')) - T(pref(prev, 'offset'))
    prove(ctx, R, k + '|offset', an, 'eq', T(fw['offset']), base + T(pref(curr, 'offset')), assume=A, where=ctx.where(S['b'], cw.span),
          note='segment boundary = offset at link start + the point\'s own offset')
    # the coefficient is written into the element that is last *before* the push
    inner = [x[1] for x in walk(fw['res_net']) if x[0] == 'loopvar' and x[2][0][0] == 'local']
    inner = list(dict.fromkeys(inner))
    carried = [x for x in walk(fw['res_net']) if x[0] == 'loopvar' and x[2][0][0] == 'local']
    carried = list(dict.fromkeys(carried))
    if len(carried) != 1:
        ctx.unproved(R, k + '|res_net', 'cumulative value does not use exactly one carried local: %s' % show(fw['res_net'], an.names)[:200], ctx.where(S['b'], cw.span)); return
    cv = carried[0]
    Hin = cv[1]
    last_idx = mk('sub', ('len', ('loopvar', Hin, P(vec))), ONE)
    st = [(bb, v, span) for bb, path, v, span in an.stores_log if path == P(vec) + (('idx', last_idx), ('f', 'res_coeff'))]
    if len(st) != 1:
        ctx.bad(R, k + '|res_coeff', 'expected one store of res_coeff into the last %s element per window, found %d' % (vec, len(st)), ctx.where(S['b'], cw.span)); return
    coeff = st[0][1]
    if vec == 'grades':
        d_val = T(pref(curr, val)) - T(pref(prev, val))
        prove(ctx, R, k + '|res_coeff', an, 'eq', T(coeff), d_val / d_off, assume=A, where=ctx.where(S['b'], st[0][2]), note='grade = Δelev / Δoffset of the two points')
        prove(ctx, R, k + '|res_net', an, 'eq', T(fw['res_net']), T(cv) + d_val, assume=A, where=ctx.where(S['b'], cw.span), note='cumulative elevation = previous + Δelev')
    else:
        pi = None
        for x in walk(coeff):
            if x[0] == 'num' and abs(float(x[1]) - 3.141592653589793) < 1e-12:
                pi = x
        if pi is None:
            ctx.unproved(R, k + '|curvature', 'no π constant in the coefficient term', ctx.where(S['b'], st[0][2])); return
        two_pi = mk('mul', num(2), pi)
        dh = T(pref(curr, val)) - T(pref(prev, val))
        curv = T(mk('abs', (T(mk('neg', pi)) + T(mk('rem', (dh + T(pi)).t, two_pi))).t)) / d_off
        has = any(_same(ctx, an, x, curv.t) for x in walk(coeff) if x[0] == 'div')
        ctx.check(has, R, k + '|curvature', 'the coefficient is a function of |−π + ((Δheading + π) mod 2π)| / Δoffset (wrap-around headings included)',
                  'no sub-term equal to the wrapped heading-change rate in %s' % show(coeff, an.names)[:240], ctx.where(S['b'], st[0][2]))
        # the coefficient is the documented piecewise polynomial of that curvature in the train's three curve coefficients:
        # c0·κ below one degree per 100 ft, c0·1° + c1·(κ − 1°) + c2·(κ − 1°)² above (each coefficient in its own term)
        import math
        one_deg = None
        if has and coeff[0] == 'gamma' and coeff[1][0] in ('lt', 'le', 'gt', 'ge'):
            for x in coeff[1][1:]:
                if x[0] == 'num' and abs(float(x[1]) - math.pi / 180.0 / 30.48) < 1e-12:
                    one_deg = x
        if one_deg is None:
            ctx.unproved(R, k + '|polynomial', 'the coefficient is not selected by comparing the curvature with one degree per 100 ft: %s' % show(coeff, an.names)[:200], ctx.where(S['b'], st[0][2]))
        else:
            def cc(n):
                return T(('pre', P('train_params') + (('f', 'curve_coeff_%d' % n),)))
            d1 = T(one_deg)
            want = gamma(curv.lt(d1), cc(0) * curv, cc(0) * d1 + cc(1) * (curv - d1) + cc(2) * (curv - d1) * (curv - d1))
            prove(ctx, R, k + '|polynomial', an, 'eq', T(coeff), want, assume=A, where=ctx.where(S['b'], st[0][2]),
                  note='curve resistance coefficient = c0·κ below 1°/100 ft, else c0·1° + c1·(κ−1°) + c2·(κ−1°)²')
        leaves = {x[1][len(link):][0][1] if x[1][:len(link)] == link else ('train_params' if x[1][:2] == P('train_params') else show(x, an.names)[:40])
                  for x in walk(coeff) if x[0] == 'pre' and x[1][0] != S['lp']}
        ctx.check(leaves <= {pts, 'train_params'}, R, k + '|inputs', 'the coefficient depends only on the two headings, their offsets and the train\'s curve coefficients',
                  'coefficient also reads %s' % sorted(str(x) for x in leaves - {pts, 'train_params'}), ctx.where(S['b'], st[0][2]))
        prove(ctx, R, k + '|res_net', an, 'eq', T(fw['res_net']), T(cv) + T(coeff) * d_off, assume=A, where=ctx.where(S['b'], cw.span), note='cumulative value = previous + coefficient · segment length')
    # the store of the coefficient precedes the push in the same iteration (it must hit the element that *precedes* the new one)
    inv = inventory(ctx)
    cfg = inv.cfg(S['b'])
    ctx.check(cfg.dominates(st[0][0], cw.block) and st[0][0] != cw.block or _before(S['b'], st[0][0], cw.block), R, k + '|order',
              'the coefficient is stored into the last element before the new element is pushed', 'store block %s, push block %s' % (st[0][0], cw.block), ctx.where(S['b'], cw.span))
    # recurrence of the carried local: entry = last element's cumulative value, back edge = the value just pushed
    ent = an.load(cv[2], an.loop_entry[Hin]) if Hin in an.loop_entry else None
    backs = [an.load(cv[2], s_) for s_ in an.loop_back.get(Hin, [])]
    ok_e = ent is not None and ent == last_of(H2, vec, 'res_net')
    ctx.check(ok_e, R, k + '|carried entry', 'the carried cumulative value starts as the last element\'s value', 'on loop entry it is %s' % (show(ent, an.names)[:200] if ent else None), ctx.where(S['b'], cw.span))
    ok_b = bool(backs) and all(x == fw['res_net'] for x in backs)
    ctx.check(ok_b, R, k + '|carried step', 'after each window the carried value is the value just pushed', 'on the back edge it is %s' % [show(x, an.names)[:120] for x in backs][:2], ctx.where(S['b'], cw.span))
    # multiplicity: one push per window, no other condition; windows over the whole list
    n_link = 2 if vec == 'grades' else None
    tail = [(x, o) for x, o in cw.pc if not (x[0] == 'pathset')]
    conds = [x for x, o in tail]
    ok_m = sum(1 for x in conds if 'window' in repr(x)) == 1 and any(x == empty_cond and o == '0' for x, o in tail)
    extra = [show(x, an.names)[:100] for x, o in tail if selected_iteration(x) is not None or ('window' not in repr(x) and x != empty_cond and not plain_iteration(x))]
    ctx.check(ok_m and not extra, R, k + '|one per window', 'exactly one element is pushed per pair of consecutive points of a link that has %s' % pts,
              'push gated by %s' % gate_tail(an, cw, 0), ctx.where(S['b'], cw.span))
    S[vec + '_win'] = cw
    # counts: stored count = number of pushes of either arm
    cname = 'grade_count' if vec == 'grades' else 'curve_count'
    stored = S.get('counts', {}).get(cname)
    link1 = S.get('link1')
    if stored is None or link1 is None:
        ctx.unproved('C06-5.counts', FID + '|' + cname, 'stored count not found', w); return
    n = ('len', pref(link1, pts))
    # arm "no points": 1 push; arm ">= 2 points" (validated): len − 1 windows
    prove(ctx, 'C06-5.counts', FID + '|%s|no %s' % (cname, pts), an, 'eq', T(_subst(stored, n, ZERO)), 1, assume=A, where=w, note='[len = 0] one flat segment is pushed, count = 1')
    from sa.prove import Prover
    for L in (2, 3, 7):
        v, d = Prover(an.names).eq(_subst(stored, n, num(L)), num(L - 1), [])
        if v != 'PROVED':
            (ctx.bad if v == 'DISPROVED' else ctx.unproved)('C06-5.counts', FID + '|%s|%d points' % (cname, L),
                                                           'stored count %s is not shown to be %d (the number of windows) for %d points' % (show(_subst(stored, n, num(L)))[:80], L - 1, L), w)
    prove(ctx, 'C06-5.counts', FID + '|%s|>= 2 %s' % (cname, pts), an, 'eq', T(stored), T(n) - 1, facts=[T(mk('ge', n, num(2)))], assume=A, where=w,
          note='[len >= 2] windows(2) yields len − 1 pairs, one push each')


def _subst(t, old, new):
    return map_term(t, lambda x: new if x == old else x)


def _same(ctx, an, a, b):
    from sa.prove import Prover
    try:
        v, d = Prover(an.names).eq(a, b, [])
    except Exception:
        return False
    return v == 'PROVED'


def _before(b, bb1, bb2):
    return False


# ------------------------------------------------------------------------------------------------ catenary
def catenary(ctx, S):
    an, w = S['an'], S['w']
    R = 'C06-4.catenary'
    ps = [c for c in an.calls if is_push(c, 'cat_power_limits')]
    if len(ps) != 1 or 'H2' not in S:
        ctx.unproved(R, FID, 'expected one push to cat_power_limits (found %d)' % len(ps), w); return
    c = ps[0]
    f = agg_fields(c.argvals[1])
    link = S['link2']
    base = T(last_of(S['H2'], 'grades', 'offset'))
    el = None
    for x in walk(f['offset_start']):
        if x[0] == 'pre' and x[1][:len(link)] == link and x[1][len(link)] == ('f', 'cat_power_limits') and x[1][len(link) + 1][0] == 'idx':
            el = x[1][:len(link) + 2]
    if el is None:
        ctx.unproved(R, FID, 'pushed section does not read link.cat_power_limits[k]', ctx.where(S['b'], c.span)); return
    for fld in ('offset_start', 'offset_end'):
        prove(ctx, R, FID + '|' + fld, an, 'eq', T(f[fld]), base + T(pref(el, fld)), assume=A, where=ctx.where(S['b'], c.span), note='shifted by the offset at link start')
    ctx.check(f['power_limit'] == pref(el, 'power_limit'), R, FID + '|power_limit', 'the power limit is copied', 'power_limit = %s' % show(f['power_limit'], an.names)[:120], ctx.where(S['b'], c.span))
    did = f['district_id']
    ok = did == pref(el, 'district_id') or (did[0] == 'uf' and 'clone' in did[1] and pref(el, 'district_id') in did[2:]) or any(x == pref(el, 'district_id') for x in walk(did))
    ctx.check(ok, R, FID + '|district_id', 'the district id is copied', 'district_id = %s' % show(did, an.names)[:120], ctx.where(S['b'], c.span))
    it = el[-1][1]
    extra = [show(x, an.names)[:100] for x, o in c.pc if x[0] != 'pathset' and not plain_iteration(x)]
    ctx.check(it[0] == 'iterpos' and not extra, R, FID + '|one per section', 'one section is pushed per catenary section of the link, in order', 'index %s, gate %s' % (show(it), extra), ctx.where(S['b'], c.span))
    stored = S.get('counts', {}).get('cat_power_count')
    ctx.check(stored == ('len', pref(S['link1'], 'cat_power_limits')), 'C06-5.counts', FID + '|cat_power_count', 'stored catenary count = number of sections of the link (= pushes)',
              'stored %s' % (show(stored, an.names)[:120] if stored else None), w)


# ------------------------------------------------------------------------------------------------ contiguity
def contiguity(ctx, S):
    an, w = S['an'], S['w']
    R = 'C06-6.contiguity'
    if 'link1' not in S:
        ctx.unproved(R, FID, 'pass 1 not recognised', w); return
    link, H1 = S['link1'], S['H1']
    it_dec = [d for d in an.calls if False]
    Lp = ('loopvar', H1, P('link_points'))
    nonempty = mk('ge', ('len', Lp), num(2))
    prevl = ('proj', ('elem', Lp, mk('sub', ('len', Lp), num(2))), ('f', 'link_idx'))
    want = mk('gamma', mk('eq', pref(link, 'idx_prev'), prevl), ('bool', True), mk('eq', pref(link, 'idx_prev_alt'), prevl))
    found = None
    real = None
    for g in an.guards:
        gate = [(c, o) for c, o in g.gate if not plain_iteration(c)]
        h = g.holds_term()
        if h == want and all(c == nonempty and o != '0' for c, o in gate):
            found = g
        hh = h
        if hh[0] == 'not' and hh[1][0] == 'uf' and hh[1][1].endswith('is_fake') and not gate:
            arg = hh[1][2]
            if arg[0] == 'pre' and arg[1][0] == S['lp'] and 'iterpos' in repr(arg):
                real = g
    ctx.check(found is not None, R, FID + '|predecessor', 'when the path already holds a link, a link is appended only if idx_prev or idx_prev_alt is the previous path link (otherwise Err)',
              'no guard `link.idx_prev == previous ∨ link.idx_prev_alt == previous` under `len(link_points) >= 2` alone', w)
    ctx.check(real is not None, R, FID + '|real', 'every path element must be a real link index (otherwise Err)', 'no unconditional is_real guard on the path element', w)


# ------------------------------------------------------------------------------------------------ one call ≡ any split
def split(ctx, S):
    an, w = S['an'], S['w']
    R = 'C06-7.split'
    if 'H1' not in S or 'H2' not in S:
        ctx.unproved(R, FID, 'passes not recognised', w); return
    H1, H2 = S['H1'], S['H2']
    A1 = {'link_points', 'speed_points'}
    A2 = {'grades', 'curves', 'cat_power_limits'}
    inv = inventory(ctx)
    cfg = inv.cfg(S['b'])
    loops = cfg.loops
    body1 = set(loops.get(H1, ())) if isinstance(loops, dict) else set()
    body2 = set(loops.get(H2, ())) if isinstance(loops, dict) else set()
    if not body1 or not body2:
        ctx.unproved(R, FID, 'loop bodies of the two passes not found', w); return

    def carried_uses(body, header, allowed_fields, label):
        """every value carried across iterations of `header` that is used inside `body`: self.<allowed> or a local that only
        feeds Vec::reserve"""
        bad = []
        seen_fields = set()
        items = []
        for bb, path, val, span in an.stores_log:
            if bb in body and path[0] == ('obj', 1):
                items.append(('store ' + show_p(path), val, path))
        for c in an.calls:
            if c.block in body:
                for a_ in c.argvals:
                    items.append(('call ' + c.callee[-40:], a_, None))
                for cnd, o in c.pc:
                    items.append(('gate', cnd, None))
        for g in an.guards:
            if g.block in body:
                items.append(('guard', g.cond, None))
        for what, t, path in items:
            if path is not None and path[1][0] == 'f' and path[1][1] not in allowed_fields:
                bad.append('%s writes self.%s' % (label, path[1][1]))
            for x in walk(t):
                if x[0] == 'loopvar' and x[1] == header:
                    k = x[2]
                    if k[0] == ('obj', 1):
                        seen_fields.add(k[1][1])
                        if k[1][1] not in allowed_fields:
                            bad.append('%s reads carried self.%s in %s' % (label, k[1][1], what))
                    elif k[0][0] == 'local':
                        bad.append('%s uses local %s carried across link iterations in %s' % (label, show(x, an.names), what))
                elif x[0] == 'pre' and x[1][0] == ('obj', 1) and len(x[1]) > 1 and x[1][1][0] == 'f' and x[1][1][1] not in allowed_fields | {'train_params'}:
                    bad.append('%s reads self.%s in %s' % (label, x[1][1][1], what))
        return sorted(set(bad)), seen_fields
    bad1, f1 = carried_uses(body1, H1, A1, 'pass 1')
    # pass 1 legitimately accumulates link_point_sum, which only feeds reserve(): exempt carried locals that reach nothing but reserve
    resv = [c for c in an.calls if c.callee.endswith('::reserve')]
    bad1 = [x for x in bad1 if not ('carried across' in x and ('add_counts' in x))]
    bad2, f2 = carried_uses(body2, H2, A2, 'pass 2')
    ctx.check(not bad1, R, FID + '|pass 1', 'each link iteration of pass 1 reads and writes only link_points / speed_points (+ train_params, the network)', '; '.join(bad1[:4]), w)
    ctx.check(not bad2, R, FID + '|pass 2', 'each link iteration of pass 2 reads and writes only grades / curves / cat_power_limits (+ train_params, the network)', '; '.join(bad2[:4]), w)
    # locals carried out of pass 1 flow only into reserve()
    leak = []
    for c in an.calls:
        if c.callee.endswith('::reserve'):
            continue
        for a_ in c.argvals:
            for x in walk(a_):
                if x[0] == 'loopvar' and x[1] == H1 and x[2][0][0] == 'local' and c.block not in body1:
                    leak.append('%s <- %s' % (c.callee[-30:], show(x, an.names)))
    for bb, path, val, span in an.stores_log:
        if bb not in body1 and path[0] == ('obj', 1):
            for x in walk(val):
                if x[0] == 'loopvar' and x[1] == H1 and x[2][0][0] == 'local':
                    leak.append('store %s <- %s' % (show_p(path), show(x, an.names)))
    ctx.check(not leak, R, FID + '|carried locals', 'the totals accumulated over pass 1 feed only Vec::reserve (capacity is not observable)', '; '.join(leak[:4]), w)
    # the seed of the cumulative elevation: only while nothing has been appended yet
    seeds = [(bb, path, val, span) for bb, path, val, span in an.stores_log if bb not in body1 and bb not in body2 and path[:2] == P('grades') and len(path) > 2]
    ok = len(seeds) == 1
    if ok:
        bb, path, val, span = seeds[0]
        first = None
        for x in walk(val):
            if x[0] == 'pre' and x[1][0] == S['net']:
                first = x
        ok = first is not None and path[-1] == ('f', 'res_net') and first[1][-3:] == (('f', 'elevs'), ('idx', ZERO), ('f', 'elev')) and val == first
        only_first = mk('eq', ('len', ('pre', P('grades'))), ONE)
        cfgx = inventory(ctx).cfg(S['b'])
        gated = any(any(cnd == only_first and o != '0' for cnd, o in c.pc) and cfgx.dominates(c.block, bb) for c in an.calls)
        ok = ok and gated
    ctx.check(ok, R, FID + '|seed', 'before anything is appended the cumulative elevation is seeded with the first elevation of the first link, and only then (len(grades) = 1)',
              'seed stores: %s' % [(show_p(p_), show(v_, an.names)[:80]) for _, p_, v_, _ in seeds][:3], w)


def show_p(path):
    from sa.terms import show_path
    return show_path(path)


# ------------------------------------------------------------------------------------------------ value function, finish
def value_and_finish(ctx):
    prog = ctx.prog
    R = 'C06-8.value'
    b = ctx.anchor(R, 'PathResCoeff::calc_res_val')
    an = analysis_or_fail(ctx, R, b) if b is not None else None
    if an is not None:
        x = T(an.arg('offset'))
        s = lambda f: T(('pre', P(f)))
        prove(ctx, R, 'PathResCoeff::calc_res_val', an, 'eq', T(an.ret()), s('res_net') + s('res_coeff') * (x - s('offset')), assume=A,
              note='piecewise-linear value: cumulative value at the boundary + coefficient · distance past it')
    # the extent of the path the simulation and the braking-curve construction walk over: first / last link point
    for fn, want, what in (('PathTpc::offset_begin', ('pre', P('link_points') + (('idx', ZERO), ('f', 'offset'))), 'offset of the FIRST link point'),
                           ('PathTpc::offset_end', ('pre', P('link_points') + (('idx', mk('sub', ('len', ('pre', P('link_points'))), ONE)), ('f', 'offset'))), 'offset of the LAST link point')):
        b = ctx.anchor(R, fn)
        an = analysis_or_fail(ctx, R, b) if b is not None else None
        if an is not None:
            ctx.check(an.ret() == want, R, fn, 'returns the %s' % what, 'returns %s' % show(an.ret(), an.names)[:160], ctx.where(b))
    R = 'C06-9.finish'
    b = ctx.anchor(R, 'PathTpc::finish')
    an = analysis_or_fail(ctx, R, b) if b is not None else None
    if an is not None:
        for vec in ('grades', 'curves'):
            ps = [c for c in an.calls if is_push(c, vec)]
            if len(ps) != 1:
                ctx.bad(R, 'PathTpc::finish|' + vec, 'expected one sentinel push to %s, found %d' % (vec, len(ps)), ctx.where(b)); continue
            f = agg_fields(ps[0].argvals[1])
            Lv = ('pre', P(vec))
            lastv = ('proj', ('elem', Lv, mk('sub', ('len', Lv), ONE)), ('f', 'res_net'))
            lastp = ('pre', P(vec) + (('idx', mk('sub', ('len', Lv), ONE)), ('f', 'res_net')))
            ok = f is not None and f['res_coeff'] == ZERO and f['res_net'] in (lastv, lastp) and not ps[0].pc
            ctx.check(ok, R, 'PathTpc::finish|' + vec, 'finish appends a flat sentinel that keeps the last cumulative value',
                      'pushed %s' % show(ps[0].argvals[1], an.names)[:200], ctx.where(b, ps[0].span))


def clear_rule(ctx):
    """C06-10.clear: trimming the front of a path keeps the per-link counts and the profile vectors consistent.  `PathTpc::clear`
    walks the link points from the first one, one at a time, while the NEXT link point still lies before the cut, adding up the
    counts of exactly the link points it walks over (count of link k is added while the index is still k); it then removes that
    many link points and, from each profile vector, as many entries as the summed count of that vector; `add_counts` adds each
    count to its namesake.  (The speed points are handled separately in that function and are not part of this clause.)"""
    R = 'C06-10.clear'
    prog = ctx.prog
    eng = engine(ctx)
    b = prog.by_id.get('PathTpc::clear')
    if b is None:
        ctx.unproved(R, 'PathTpc::clear', 'anchor not found'); return
    an = analysis_or_fail(ctx, R, b)
    if an is None:
        return
    w = ctx.where(b)
    nrm = lambda c: re.sub(r'::<.*?>', '', c.callee)
    ac = [c for c in an.calls if nrm(c).endswith('LinkPoint::add_counts')]
    if len(ac) != 1 or not ac[0].in_loop:
        ctx.unproved(R, 'PathTpc::clear|count loop', 'expected one add_counts call inside a loop, found %d' % len(ac), w); return
    c = ac[0]
    src = c.argvals[1]
    LP = (('obj', 1), ('f', 'link_points'))
    ok = src[0] == 'ref' and src[1][:2] == LP and src[1][2][0] == 'idx' and src[1][2][1][0] == 'loopvar' and len(src[1]) == 3
    if not ok:
        ctx.bad(R, 'PathTpc::clear|count loop', 'the counts added are not those of link_points[idx] for the loop-carried idx: %s' % show(src, an.names)[:120], ctx.where(b, c.span)); return
    L = src[1][2][1]
    H, key = L[1], L[2]
    ent = an.load(key, an.loop_entry[H]); backs = [an.load(key, s_) for s_ in an.loop_back.get(H, [])]
    ctx.check(ent == ZERO and backs and all(v == mk('add', L, ONE) for v in backs), R, 'PathTpc::clear|count loop',
              'link k contributes its counts while the index is k; the index starts at 0 and moves by one',
              'index starts at %s and becomes %s' % (show(ent, an.names)[:40], [show(v, an.names)[:40] for v in backs]), ctx.where(b, c.span))
    try:
        ob = an.arg('offset_back')
    except KeyError:
        ob = None
    want = mk('lt', ('pre', LP + (('idx', mk('add', L, ONE)), ('f', 'offset'))), ob) if ob is not None else None
    ctx.check(len(c.pc) == 1 and c.pc[0][0] == want and c.pc[0][1] != '0', R, 'PathTpc::clear|count condition',
              'a link is dropped exactly while the next link point lies before the cut', 'counts are added under %s' % [(show(x, an.names)[:120], o) for x, o in c.pc], ctx.where(b, c.span))
    # accumulator: the local handed to add_counts; drains use its fields
    acc = c.argvals[0][1] if c.argvals[0][0] == 'ref' else None
    dr = {}
    for d in an.calls:
        if '::drain' in d.callee and d.argvals and d.argvals[0][0] == 'ref' and d.argvals[0][1][0] == ('obj', 1):
            dr[d.argvals[0][1][-1][1]] = d
    want_end = {'link_points': L, 'grades': ('loopvar', H, acc + (('f', 'grade_count'),)) if acc else None,
                'curves': ('loopvar', H, acc + (('f', 'curve_count'),)) if acc else None,
                'cat_power_limits': ('loopvar', H, acc + (('f', 'cat_power_count'),)) if acc else None}
    for vec, we in want_end.items():
        d = dr.get(vec)
        ok = d is not None and len(d.argvals) > 1 and d.argvals[1][0] == 'agg' and d.argvals[1][1] == 'RangeTo' and dict(d.argvals[1][2]).get('end') == we
        ctx.check(ok, R, 'PathTpc::clear|drain %s' % vec, 'removes the first %s entries' % ('idx' if vec == 'link_points' else 'Σ ' + vec.replace('s', '', 0)[:-1] + ' counts of the dropped links'),
                  '%s.drain(%s)' % (vec, show(d.argvals[1], an.names)[:80] if d is not None and len(d.argvals) > 1 else 'missing'), ctx.where(b, d.span) if d is not None else w)
    fb = prog.by_id.get('LinkPoint::add_counts')
    if fb is None:
        ctx.unproved(R, 'LinkPoint::add_counts', 'anchor not found'); return
    fa = analysis_or_fail(ctx, R, fb)
    if fa is not None:
        okf = True
        got = {}
        for f_ in ('grade_count', 'curve_count', 'cat_power_count'):
            v = fa.load((('obj', 1), ('f', f_)), fa.exit_state)
            got[f_] = show(v, fa.names)[:60]
            okf = okf and v == mk('add', ('pre', (('obj', 1), ('f', f_))), ('pre', (('obj', 2), ('f', f_))))
        ctx.check(okf, R, 'LinkPoint::add_counts', 'each count is increased by its namesake of the other link point', 'add_counts computes %s' % got, ctx.where(fb))
