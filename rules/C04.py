"""C04 — dispatch never authorises conflicting occupancy (DESIGN §5 C04, §6): gate dependence of TrainDisp::advance."""
import re
from sa.terms import mk, ZERO, ONE, TRUE, FALSE, show, walk, map_term, num
from .common import engine, inventory, plain_iteration, selected_iteration

LEVEL = 'other'
MANIFEST = {
    'category': 'other',
    'engine': 'svn',
    'technique': ('symbolic value numbering of one iteration of the advance loop of TrainDisp::advance (loop-carried state widened): '
                  'the time and offset terms written into authorities are rewritten with named sub-terms (current node, last '
                  'authority of the current / flipped / lockout / exited link) and compared with the gate formulas; the lockout '
                  'loop\'s running maximum is checked on its entry and back edge; field-set agreement with rewind; occupancy update '
                  'on every exit that moved'),
    'text': ('Decides necessary conditions (gate dependence), NOT conflict freedom over interleavings: (0) an advance starts from '
             'the pass time of the last timed node (+ its run time to the free node when consecutive); (1) on entering a link the '
             'earliest time is raised to max(·, previous authority\'s clear_entry + headway) when the previous train ran in the same '
             'direction and to max(·, flipped link\'s last clear_exit + start-up time) otherwise, the direction test being '
             'previous.clear_exit >= flipped.clear_exit; (2) it is then raised, for every link declared mutually exclusive, to that '
             'link\'s last clear_exit + 30 s + start-up time (running maximum over the whole lockout list); (3) leaving a link raises '
             'it to the preceding same-direction authority\'s clear_exit + headway and that time is recorded as the exit time; (4) the '
             'new authority carries that time as arrive_entry and this train\'s index; (5) the free offset is capped by the previous '
             'authority\'s offset_back whenever that is finite, and entry is refused at offset_back = 0; (6) clearing records the '
             'current time as clear_exit of the link left and clear_entry of the link entered; (7) every advance / rewind that moved '
             'updates occupancy, and rewind resets exactly the authority fields advance sets.'),
    'note': ('Sufficiency of these gates, the deadlock logic and re-routing are not decided. The terms are those of one loop '
             'iteration; index bookkeeping (disp_auth_idx_entry etc.) is taken as the code computes it.'),
}
EXPLANATION = 'Gate formulas of TrainDisp::advance as named-sub-term specifications of the SVN terms of one loop iteration.'
RULES = ['C04-0.start', 'C04-1.direction', 'C04-2.lockout', 'C04-3.exit', 'C04-4.entry', 'C04-5.offset', 'C04-6.clear', 'C04-7.occupancy', 'C04-8.index', 'C04-9.blocked', 'C04-10.sentinel', 'C04-11.cursor', 'C04-12.lockouts']
ASSUMPTIONS = ['index bookkeeping of dispatch nodes and authorities is as computed by the code (not decided)']

FID = 'TrainDisp::advance'


def P(*fields, root=('obj', 1)):
    p = (root,)
    for f in fields:
        p = p + (('f', f),)
    return p


class Names:
    """term-level abbreviations: sub-term -> symbol, applied innermost first"""

    def __init__(self, an, H):
        L = lambda path: ('loopvar', H, path)
        self.H = H
        idxof = lambda opt: ('uf', 'range', ('uf', 'unwrap_or', ('uf', 'opt_map', opt, ('uf', '::from', ('uf', 'unwrap', opt))), ZERO))
        node = lambda which: ('elem', L(P('disp_path')), idxof(L(P('disp_node_idx_' + which))))
        pj = lambda t, *fs: _pj(t, fs)
        linkidx = lambda n: ('uf', 'unwrap', ('uf', '::try_into', pj(n, 'link_event', 'link_idx', 'idx')))
        self.table = []
        add = lambda t, nm: self.table.append((t, ('sym', nm)))
        NODE, NFRONT, NBACK = node('free'), node('front'), node('back')
        AUTHS = L((('obj', 2),))
        ICURR, IFRONT, IBACK = linkidx(NODE), linkidx(NFRONT), linkidx(NBACK)
        self.NODE, self.NFRONT, self.NBACK, self.AUTHS, self.ICURR = NODE, NFRONT, NBACK, AUTHS, ICURR
        links = lambda i, *fs: ('pre', (('obj', 4), ('idx', i)) + tuple(('f', f) for f in fs))
        IFLIP = ('uf', 'unwrap', ('uf', '::try_into', links(ICURR, 'idx_flip', 'idx')))
        last = lambda v: ('elem', v, mk('sub', ('len', v), ONE))
        vec = lambda i: ('elem', AUTHS, i)
        est = ('pre', P('est_times') + (('idx', ('uf', 'range', ('uf', 'unwrap', ('uf', '::try_into', pj(NODE, 'est_idx'))))),))
        self.est = est
        add(mk('div', ('pre', est[1] + (('f', 'speed'),)), ('pre', P('acc_startup'))), 'STARTUP')
        add(last(vec(ICURR)), 'PREV')                   # last authority of the link being entered
        add(last(vec(IFLIP)), 'FLIP')                   # last authority of its flipped link
        fidx = ('uf', 'unwrap_or', ('uf', 'opt_map', pj(NFRONT, 'disp_auth_idx_entry'), ('uf', '::from', ('uf', 'unwrap', pj(NFRONT, 'disp_auth_idx_entry')))), ZERO)
        add(('elem', vec(IFRONT), mk('sub', fidx, ONE)), 'EXIT_SAME_DIR')     # authority preceding this train's on the link being left by the front
        add(vec(ICURR), 'AUTHS[curr]')
        add(NODE, 'NODE'); add(NFRONT, 'NFRONT'); add(NBACK, 'NBACK')
        add(L(P('time_update_next')), 'T')
        add(L(P('disp_node_idx_front')), 'front'); add(L(P('disp_node_idx_back')), 'back'); add(L(P('disp_node_idx_free')), 'free')
        add(('pre', P('time_spacing')), 'HEADWAY')
        add(AUTHS, 'AUTHS')
        self.vec = vec; self.last = last; self.links = links; self.pj = pj

    def lockout(self, itpos):
        i = ('uf', 'unwrap', ('uf', '::try_into', ('pre', (('obj', 4), ('idx', self.ICURR), ('f', 'link_idxs_lockout'), ('idx', itpos), ('f', 'idx')))))
        return self.last(self.vec(i))

    def abbr(self, t, extra=()):
        tab = list(extra) + self.table

        def f(x):
            for k, v in tab:
                if x == k:
                    return v
            return x
        # outermost-first replacement: map_term is bottom-up, so apply repeatedly from the largest pattern
        for k, v in tab:
            t = map_term(t, lambda x, k=k, v=v: v if x == k else x)
        return t

    def text(self, an, t, extra=()):
        s = show(self.abbr(t, extra), an.names)
        return re.sub(r'\s+', ' ', s)


def _pj(t, fs):
    for f in fs:
        t = ('proj', t, ('f', f))
    return t


def run(ctx):
    prog = ctx.prog
    b = ctx.anchor('C04-1.direction', FID)
    if b is None:
        return
    eng = engine(ctx)
    eng.all_paths.add(b.fid)         # returns bool: every path is an accepted path
    an = eng.analysis(b)
    if an.exit_state is None:
        ctx.unproved('C04-1.direction', FID, 'not analysable', ctx.where(b)); return
    w = ctx.where(b)
    TUN = P('time_update_next')
    st = [(bb, val, span) for bb, path, val, span in an.stores_log if path == TUN]
    # the outer loop header: the widened time_update_next read by the first max() inside the loop
    H = None
    for bb, val, span in st:
        if val[0] == 'max' and val[1][0] == 'loopvar' and val[1][2] == TUN and val[2][0] == 'gamma':
            H = val[1][1]; S1 = (bb, val, span); break
    if H is None:
        ctx.unproved('C04-1.direction', FID, 'no store time_update_next = max(time_update_next, γ(..)) found in the advance loop', w); return
    N = Names(an, H)
    cmp_ = lambda got, want: got.replace(' ', '') == want.replace(' ', '')

    # ---- (1) direction gate
    got = N.text(an, S1[1])
    want = 'max(T, γ((PREV.clear_exit >= FLIP.clear_exit) ? (PREV.clear_entry + HEADWAY) : (FLIP.clear_exit + STARTUP)))'
    ctx.check(cmp_(got, want), 'C04-1.direction', FID + '|gate', 'entering a link: same direction as the previous train -> its clear_entry + headway; opposite -> the flipped link\'s last clear_exit + start-up time',
              'time_update_next = %s' % got[:400], ctx.where(b, S1[2]))

    # ---- (2) lockout gate: running maximum over every lockout link
    S2 = None
    for bb, val, span in st:
        if val[0] == 'max' and val[1][0] == 'loopvar' and val[1][2] == TUN and val[1][1] != H:
            S2 = (bb, val, span)
    if S2 is None:
        ctx.bad('C04-2.lockout', FID + '|gate', 'no running maximum of time_update_next over the lockout links', w)
    else:
        HL = S2[1][1][1]
        itpos = None
        for x in walk(S2[1][2]):
            if x[0] == 'iterpos':
                itpos = x
        LOCK = N.lockout(itpos) if itpos is not None else None
        extra = [(LOCK, ('sym', 'LOCK'))] if LOCK is not None else []
        extra.append((('loopvar', HL, TUN), ('sym', 'T_lock')))
        got = N.text(an, S2[1], extra)
        want = 'max(T_lock, ((LOCK.clear_exit + 30) + STARTUP))'
        ctx.check(cmp_(got, want), 'C04-2.lockout', FID + '|gate', 'every link declared mutually exclusive raises the time to its last clear_exit + 30 s + start-up time',
                  'time_update_next = %s' % got[:400], ctx.where(b, S2[2]))
        ent = an.load(TUN, an.loop_entry[HL]) if HL in an.loop_entry else None
        ctx.check(ent == S1[1], 'C04-2.lockout', FID + '|start', 'the lockout maximum starts from the time after the direction gate',
                  'starts from %s' % (N.text(an, ent)[:200] if ent else None), ctx.where(b, S2[2]))
        backs = [an.load(TUN, s_) for s_ in an.loop_back.get(HL, [])]
        ctx.check(bool(backs) and all(x == S2[1] for x in backs), 'C04-2.lockout', FID + '|every link', 'every iteration over link_idxs_lockout applies the gate (no link is skipped)',
                  'back-edge values %s' % [N.text(an, x, extra)[:100] for x in backs][:2], ctx.where(b, S2[2]))
        # the loop runs over the whole lockout list of the link being entered: the only loop decision mentioning this iterator
        # position is the plain "has another element" of links[curr].link_idxs_lockout (no filter / skip / take_while)
        decs = []
        for c in an.calls:
            for cnd, o in c.pc:
                if itpos is not None and repr(itpos) in repr(cnd) and cnd not in decs:
                    decs.append(cnd)
        src_ok = False
        for cnd in decs:
            if plain_iteration(cnd):
                y = cnd[1][1]
                path = y[1] if y[0] in ('ref', 'pre') else None
                src_ok = src_ok or (path is not None and path[-3:] == (('idx', N.ICURR), ('f', 'link_idxs_lockout'), ('idx', itpos)))
        whole = bool(decs) and all(plain_iteration(cnd) for cnd in decs if cnd[0] == 'discr' and cnd[1][0] == 'maybe') and src_ok
        ctx.check(whole, 'C04-2.lockout', FID + '|list', 'the gate iterates the whole lockout list of the link being entered (no filter, skip or early stop)',
                  'loop decisions: %s' % [N.text(an, x)[:120] for x in decs][:3], ctx.where(b, S2[2]))

        # ---- (3) exit headway
        S3 = None
        for bb, val, span in st:
            if val[0] == 'max' and val[1][0] == 'gamma':
                S3 = (bb, val, span)
        if S3 is None:
            ctx.bad('C04-3.exit', FID + '|gate', 'no headway gate on the link being left', w)
        else:
            got = N.text(an, S3[1], extra)
            want = 'max(γ(!::is_fake(NODE.link_event.link_idx) ? T_lock : %s), (EXIT_SAME_DIR.clear_exit + HEADWAY))' % N.text(an, S1[1])
            ctx.check(cmp_(got, want), 'C04-3.exit', FID + '|gate', 'leaving a link: not before the preceding same-direction authority\'s clear_exit + headway',
                      'time_update_next = %s' % got[:500], ctx.where(b, S3[2]))
            # recorded as arrive_exit of this train's authority on the link left
            ae = [(path, val) for bb, path, val, span in an.stores_log if path[0] == ('obj', 2) and path[-1] == ('f', 'arrive_exit')]
            ctx.check(len(ae) == 1 and ae[0][1] == S3[1], 'C04-3.exit', FID + '|recorded', 'that time is recorded as the exit time (arrive_exit) of this train\'s authority on the link left',
                      '%d arrive_exit stores' % len(ae), ctx.where(b, S3[2]))
            # ---- (4) entry
            ps = [c for c in an.calls if re.sub(r'::<.*?>', '', c.callee).endswith('::push') and c.argvals and c.argvals[0][0] == 'ref' and c.argvals[0][1][0] == ('obj', 2)]
            if len(ps) != 1:
                ctx.bad('C04-4.entry', FID + '|authority', 'expected exactly one authority push, found %d' % len(ps), w)
            else:
                c = ps[0]
                f = dict(c.argvals[1][2]) if c.argvals[1][0] == 'agg' else {}
                got = N.text(an, f.get('arrive_entry', ('unit',)), extra)
                prevt = 'γ(!::is_fake(NODE.link_event.link_idx) ? T_lock : %s)' % N.text(an, S1[1])
                want = 'γ(is_some(front) ? %s : %s)' % (N.text(an, S3[1], extra), prevt)
                ctx.check(cmp_(got, want), 'C04-4.entry', FID + '|time', 'the new authority\'s entry time is the gated time (direction, lockout and, if a link is being left, exit headway)',
                          'arrive_entry = %s' % got[:500], ctx.where(b, c.span))
                ctx.check(f.get('train_idx') == ('pre', P('train_idx')), 'C04-4.entry', FID + '|owner', 'the new authority belongs to this train', 'train_idx = %s' % show(f.get('train_idx', ('unit',)), an.names)[:80], ctx.where(b, c.span))
                tgt = N.text(an, ('pre', c.argvals[0][1]) if c.argvals[0][1][0][0] != 'ptr' else c.argvals[0][1][0][1])
                ctx.check(c.argvals[0][1] == (('obj', 2), ('idx', N.ICURR)), 'C04-4.entry', FID + '|link', 'the authority is appended to the list of the link being entered', 'pushed to %s' % tgt[:160], ctx.where(b, c.span))
                gated = any(cnd == ('uf', '::is_fake', _pj(N.NODE, ('link_event', 'link_idx'))) and o == '0' or (cnd[0] == 'not' and 'is_fake' in repr(cnd)) for cnd, o in c.pc)
                arrive = any('Arrive' in repr(cnd) and o != '0' for cnd, o in c.pc)
                ctx.check(arrive, 'C04-4.entry', FID + '|event', 'authorities are created by Arrive events only', 'gate %s' % [(N.text(an, x)[:60], o) for x, o in c.pc][-3:], ctx.where(b, c.span))

    # ---- (0) start of the advance
    S0 = [x for x in st if x[1][0] == 'gamma' and not any(y[0] == 'loopvar' for y in walk(x[1]))]
    if len(S0) != 1:
        ctx.unproved('C04-0.start', FID, 'initial time_update_next store not found', w)
    else:
        free = ('pre', P('disp_node_idx_free'))
        i_free = ('uf', 'unwrap_or', ('uf', 'opt_map', free, ('uf', '::from', ('uf', 'unwrap', free))), ZERO)
        t = map_term(S0[0][1], lambda x: ('sym', 'ifree') if x == i_free else x)
        s = re.sub(r'\s+', '', show(t, an.names))
        prevn = 'self.disp_path[(ifree-1)]'
        est_prev = 'self.est_times[range(unwrap(::try_into(arg1.disp_path[(ifree-1)].est_idx)))]'
        want = ('γ(is_some(self.disp_node_idx_free)?γ((ifree<len(self.disp_path))?γ((%s.idx_next==self.disp_path[range(ifree)].est_idx)?(%s.time_pass+%s.time_to_next):%s.time_pass):self.time_update):self.time_update)'
                % (est_prev, prevn, est_prev, prevn))
        ctx.check(s == want, 'C04-0.start', FID, 'an advance starts from the pass time of the node before the free node (+ the run time to the free node when they are consecutive estimates), whenever a free node exists',
                  'time_update_next = %s' % s[:500], ctx.where(b, S0[0][2]))

    # ---- (5) offset cap
    of = [(bb, val, span) for bb, path, val, span in an.stores_log if path == P('offset_free')]
    cap = [x for x in of if N.text(an, x[1]).replace(' ', '') == '(NODE.offset+PREV.offset_back)']
    ctx.check(len(cap) == 1, 'C04-5.offset', FID + '|cap', 'the free offset is capped at node offset + the previous authority\'s offset_back',
              'offset_free stores: %s' % [N.text(an, x[1])[:60] for x in of][:4], w)
    if cap:
        # gated by is_finite(PREV.offset_back); refused when offset_back == 0
        fin = None
        for c in an.calls:
            if c.callee.endswith('is_finite') and N.text(an, c.argvals[0]).replace(' ', '') in ('PREV.offset_back', '&PREV.offset_back'):
                fin = c
        inv = inventory(ctx)
        cfg = inv.cfg(b)
        ctx.check(fin is not None and cfg.dominates(fin.block, cap[0][0]), 'C04-5.offset', FID + '|when finite', 'the cap applies whenever the previous authority\'s offset_back is finite (the previous train has not cleared the link)',
                  'no is_finite(PREV.offset_back) test dominating the cap', ctx.where(b, cap[0][2]))
        blk = [x for x in [(bb, val) for bb, path, val, span in an.stores_log if path == P('is_blocked')] if x[1] == TRUE]
        ctx.check(bool(blk), 'C04-5.offset', FID + '|blocked', 'a capped train is marked blocked', 'no is_blocked = true store', w)

    # ---- (6) clear events record the current time
    T_ = ('loopvar', H, TUN)
    ce = [(path, val, span) for bb, path, val, span in an.stores_log if path[0] == ('obj', 2) and path[-1] == ('f', 'clear_exit')]
    cn = [(path, val, span) for bb, path, val, span in an.stores_log if path[0] == ('obj', 2) and path[-1] == ('f', 'clear_entry')]
    ctx.check(len(ce) == 1 and ce[0][1] == T_, 'C04-6.clear', FID + '|clear_exit', 'clearing a link records the current time as its clear_exit', 'clear_exit stores: %s' % [N.text(an, v)[:60] for _, v, _ in ce], w)
    ctx.check(len(cn) == 1 and cn[0][1] == T_, 'C04-6.clear', FID + '|clear_entry', 'the tail entering a link records the current time as its clear_entry', 'clear_entry stores: %s' % [N.text(an, v)[:60] for _, v, _ in cn], w)
    ob = [(path, val) for bb, path, val, span in an.stores_log if path[0] == ('obj', 2) and path[-1] == ('f', 'offset_back')]
    ctx.check(len(ob) == 1 and show(ob[0][1]) == 'INF', 'C04-6.clear', FID + '|offset_back', 'clearing a link releases it (offset_back = ∞)', 'offset_back stores: %s' % [show(v)[:40] for _, v in ob], w)
    tp = [(path, val) for bb, path, val, span in an.stores_log if path[:2] == P('disp_path') and path[-1] == ('f', 'time_pass')]
    ctx.check(len(tp) == 1 and any(x == T_ for x in walk(tp[0][1])), 'C04-6.clear', FID + '|time_pass',
              'each node passed is stamped once, with a time derived from the running time_update_next', 'time_pass stores: %s' % [N.text(an, v)[:80] for _, v in tp], w)
    # a link is released (and the blocked-links table updated for it) by Clear events only: the release sits under `est_type == Clear`
    rel = [c for c in an.calls if c.targets and any(t.endswith('update_links_blocked') for t in c.targets)]
    def _is_clear(cnd, o):
        return o != '0' and cnd[0] == 'eq' and ('variant', 'EstType::Clear') in cnd[1:]
    def _not_arrive(cnd, o):
        return o == '0' and cnd[0] == 'eq' and ('variant', 'EstType::Arrive') in cnd[1:]
    ctx.check(len(rel) == 1 and any(_is_clear(cnd, o) for cnd, o in rel[0].pc) and any(_not_arrive(cnd, o) for cnd, o in rel[0].pc), 'C04-6.clear', FID + '|event',
              'links are released by Clear events only (the release sits under est_type == Clear, after the Arrive test failed)',
              'release gated by %s' % ([(N.text(an, x)[:60], o) for x, o in rel[0].pc][-4:] if rel else 'no release site'), w)
    occupancy(ctx, b, an)


def _node_indices(t, tail):
    """index terms X of every read  disp_path[X].<tail...>  occurring in t (both term shapes)"""
    out = []
    n = len(tail)
    for x in walk(t):
        if x[0] == 'pre':
            p_ = x[1]
            for i, c in enumerate(p_):
                if c == ('f', 'disp_path') and i + 1 + n < len(p_) + 0 and p_[i + 1][0] == 'idx' and tuple(p_[i + 2:i + 2 + n]) == tuple(('f', f) for f in tail):
                    out.append(_strip_idx(p_[i + 1][1]))
        if x[0] == 'proj':
            # proj(proj(elem(V, X), f1), f2) ...
            chain = []
            y = x
            while y[0] == 'proj' and y[2][0] == 'f':
                chain.append(y[2][1]); y = y[1]
            chain.reverse()
            if y[0] == 'elem' and chain[:n] == list(tail) and 'disp_path' in repr(y[1])[:400]:
                out.append(_strip_idx(y[2]))
    res = []
    for o in out:
        if o not in res:
            res.append(o)
    return res


def _strip_idx(t):
    while t[0] == 'uf' and t[1] in ('range', 'unwrap', '::try_into', '::from') and len(t) == 3:
        t = t[2]
    return t


def index_provenance(ctx, fns):
    """C04-8.index: an authority is addressed as link_disp_auths[link of node X][entry index recorded on node X] (or relative to
    the end of that same list).  Mixing the link of one dispatch node with the entry index of another lands on another
    train's authority or past the end of the list."""
    R = 'C04-8.index'
    n = 0
    for b, an in fns:
        if an.exit_state is None:
            continue
        seen = set()
        for bb, path, val, span in an.stores_log:
            if path[0] != ('obj', 2) or len(path) < 4 or path[1][0] != 'idx' or path[2][0] != 'idx' or path[-1][0] != 'f':
                continue
            L, I = path[1][1], path[2][1]
            nl = _node_indices(L, ('link_event', 'link_idx'))
            # the position: idx(OPT) [± 1] with OPT an Option-typed entry index — only the top-level shape counts (the list
            # expression inside a len(..) may legitimately mention other nodes)
            I0 = I
            if I0[0] in ('sub', 'add') and I0[2][0] == 'num':
                I0 = I0[1]
            opt = None
            if I0[0] == 'uf' and I0[1] == 'range':
                I0 = I0[2]
            if I0[0] == 'uf' and I0[1] == 'unwrap_or' and I0[2][0] == 'uf' and I0[2][1] == 'opt_map':
                opt = I0[2][2]
            ni = _node_indices(opt, ('disp_auth_idx_entry',)) if opt is not None and (opt[0] in ('pre', 'proj')) else []
            key = '%s|%s' % (b.fid, path[-1][1])
            k2 = key
            c_ = 1
            while k2 in seen:
                c_ += 1; k2 = '%s #%d' % (key, c_)
            seen.add(k2)
            n += 1
            if not ni:
                # relative to the end of the same list (last / len - 1 / freshly pushed)
                ok = any(x[0] == 'len' for x in walk(I)) or I[0] == 'num'
                ctx.check(ok, R, k2, 'the authority is addressed relative to the end of its own list', 'index %s' % show(I, an.names)[:120], ctx.where(b, span))
                continue
            ok = len(nl) == 1 and len(ni) == 1 and nl[0] == ni[0]
            ctx.check(ok, R, k2, 'the list is that of the node\'s link and the position is the entry index recorded on the same node',
                      'link taken from node %s, entry index from node %s' % ([show(x, an.names)[:60] for x in nl], [show(x, an.names)[:60] for x in ni]), ctx.where(b, span))
    ctx.floor('authority field stores with index provenance checked', n, 12)


def links_blocked_rule(ctx):
    """C04-9.blocked: update_links_blocked marks the flipped link and every link declared mutually exclusive with the given
    link as blocked by the given train (the tables the re-router reads)"""
    R = 'C04-9.blocked'
    b = None
    for fid in sorted(ctx.prog.by_id):
        if fid.endswith('update_links_blocked') and not ctx.prog.by_id[fid].test:
            b = ctx.prog.by_id[fid]
    if b is None:
        ctx.unproved(R, 'update_links_blocked', 'anchor not found'); return
    eng = engine(ctx)
    eng.all_paths.add(b.fid)
    an = eng.analysis(b)
    if an.exit_state is None or len(b.params) != 4:
        ctx.unproved(R, b.fid, 'not analysable', ctx.where(b)); return
    w = ctx.where(b)
    inv = inventory(ctx)
    cfg = inv.cfg(b)
    train = ('pre', (('val', b.params[3][0]),))
    link = ('pre', (('val', b.params[2][0]), ('f', 'idx')))
    flip_ok = lock_ok = False
    itpos = None
    for bb, path, val, span in an.stores_log:
        if path[0] != ('obj', b.params[0][0]) or len(path) != 2 or path[1][0] != 'idx' or val != train:
            continue
        i = _strip_idx(path[1][1])
        txt = show(i, an.names)
        if i[0] == 'pre' and i[1][-2:] == (('f', 'idx_flip'), ('f', 'idx')) and any(x == link for x in walk(i)) and not cfg.in_loop(bb):
            flip_ok = all(cfg.dominates(bb, r_) for r_ in cfg.return_blocks)
        if i[0] == 'pre' and ('f', 'link_idxs_lockout') in i[1] and any(x == link for x in walk(i)) and cfg.in_loop(bb):
            for x in walk(i):
                if x[0] == 'iterpos':
                    itpos = x
            lock_ok = itpos is not None
    ctx.check(flip_ok, R, b.fid + '|flip', 'the flipped link of the given link is marked with the given train, unconditionally', 'no unconditional store links_blocked[links[link].idx_flip] := train', w)
    decs = []
    for c in an.calls:
        for cnd, o in c.pc:
            if itpos is not None and repr(itpos) in repr(cnd) and cnd not in decs:
                decs.append(cnd)
    whole = lock_ok and bool(decs) and all(plain_iteration(cnd) for cnd in decs if cnd[0] == 'discr' and cnd[1][0] == 'maybe')
    ctx.check(whole, R, b.fid + '|lockouts', 'every link declared mutually exclusive with the given link is marked with the given train (plain loop over the whole list)',
              'store found: %s; loop decisions: %s' % (lock_ok, [show(x, an.names)[:100] for x in decs][:3]), w)
    # callers hand over the link whose authority list they just changed and the train now at the head of that list
    n = 0
    for caller in sorted(inv.callers(b.fid)):
        cb = ctx.prog.by_id.get(caller)
        if cb is None or cb.test or caller == b.fid:
            continue
        n += 1
        eng.all_paths.add(caller)
        ca = eng.analysis(cb)
        if ca.exit_state is None:
            ctx.unproved(R, caller + '|head', 'caller not analysable', ctx.where(cb)); continue
        heads = [c for c in ca.calls if c.targets and any(t.endswith('DispAuth::train_idx_curr') for t in c.targets)]
        k = 0
        for c in ca.calls:
            if not (c.targets and b.fid in c.targets) or not c.argvals or len(c.argvals) != 4:
                continue
            k += 1
            key = '%s|head%s' % (caller, '' if k == 1 else ' #%d' % k)
            la, tr = c.argvals[2], c.argvals[3]
            lidx = ('pre', la[1] + (('f', 'idx'),)) if la[0] == 'pre' else ('proj', la, ('f', 'idx'))
            good = None
            for h in heads:
                if h.result != tr or not h.argvals:
                    continue
                r = h.argvals[0]
                pth = r[1] if r[0] == 'ref' else None
                if not pth or len(pth) != 3 or pth[0] != ('obj', cb.params[1][0]) or pth[1][0] != 'idx' or pth[2][0] != 'idx':
                    continue
                last = pth[2][1]
                is_last = last[0] == 'sub' and last[1][0] == 'len' and last[2] == ONE
                same_link = any(x == lidx for x in walk(pth[1][1]))
                if is_last and same_link:
                    good = h
            ctx.check(good is not None, R, key,
                      'the train handed over is train_idx_curr() of the LAST authority of the list of the very link handed over (None once that train has cleared the link)',
                      'the train argument %s is not DispAuth::train_idx_curr() of the last authority of link %s' % (show(tr, ca.names)[:160], show(la, ca.names)[:80]),
                      ctx.where(cb, c.span))
    ctx.floor('callers of update_links_blocked', n, 3)
    # and what "current train" means: nobody once the authority's rear has cleared (offset_back = +inf), else the authority's train
    hb = None
    for fid in sorted(ctx.prog.by_id):
        if fid.endswith('DispAuth::train_idx_curr'):
            hb = ctx.prog.by_id[fid]
    if hb is None:
        ctx.unproved(R, 'DispAuth::train_idx_curr', 'anchor not found'); return
    eng.all_paths.add(hb.fid)
    ha = eng.analysis(hb)
    r = ha.ret() if ha.exit_state is not None else None
    me = lambda f: ('pre', (('obj', hb.params[0][0]), ('f', f)))
    ok = r is not None and r[0] == 'gamma' and r[1][0] == 'eq' and me('offset_back') in r[1][1:] and any(x == ('sym', 'INF') for x in r[1][1:]) \
        and r[2] == ('none',) and r[3] == me('train_idx')
    ctx.check(ok, R, hb.fid, 'train_idx_curr() is None when offset_back = +inf, else the authority\'s train', 'returns %s' % (show(r, ha.names)[:200] if r else None), ctx.where(hb))


def _block_of(an, path):
    for bb, p, v, s in an.stores_log:
        if p == path:
            return bb
    return None


def occupancy(ctx, b, an):
    """every advance / rewind that moved updates occupancy; rewind resets what advance sets"""
    prog = ctx.prog
    R = 'C04-7.occupancy'
    uo = [c for c in an.calls if c.targets and 'TrainDisp::update_occupancy' in c.targets]
    rets = an.exit_paths
    ok = len(uo) == 1
    if ok:
        c = uo[0]
        # the call is gated by "something changed": not (offset_free == offset_save and disp_node_idx_free == disp_node_idx_save)
        txt = ' '.join(show(cnd, an.names) + '=' + str(o) for cnd, o in c.pc[-2:])
        ok = 'offset_free' in txt or 'pathset' in repr(c.pc[-1:])
    ctx.check(ok, R, FID, 'an advance that changed the free offset or node updates the occupancy tables before returning true',
              '%d update_occupancy calls; gate %s' % (len(uo), [(show(x, an.names)[:80], o) for x, o in (uo[0].pc[-2:] if uo else [])]), ctx.where(b))
    # ---- every time stamp written into an authority derives from the gated time (time_update_next), never from the time of the
    #      last fixed position (time_update); occupancy offsets are free offset − node offset
    ub = ctx.anchor(R, 'TrainDisp::update_occupancy')
    if ub is not None:
        eng = engine(ctx)
        eng.all_paths.add(ub.fid)
        uan = eng.analysis(ub)
        for fn_b, fn_an in ((b, an), (ub, uan)):
            if fn_an.exit_state is None:
                ctx.unproved(R, fn_b.fid + '|stamps', 'not analysable', ctx.where(fn_b)); continue
            n_st = 0
            for bb, path, val, span in fn_an.stores_log:
                if path[0] != ('obj', 2) or path[-1][0] != 'f' or path[-1][1] not in ('arrive_entry', 'arrive_exit', 'clear_entry', 'clear_exit'):
                    continue
                n_st += 1
                leaves = []
                for x in walk(val):
                    if x[0] == 'pre' and x[1][0] == ('obj', 1) and len(x[1]) == 2:
                        leaves.append(x[1][1][1])
                    if x[0] == 'loopvar' and x[2][0] == ('obj', 1) and len(x[2]) == 2:
                        leaves.append(x[2][1][1])
                okv = 'time_update_next' in leaves and 'time_update' not in leaves
                key = '%s|%s' % (fn_b.fid, path[-1][1])
                ctx.check(okv, R, key, 'the %s stamp derives from the gated time (time_update_next), not from the time of the last fixed position' % path[-1][1],
                          '%s = %s (reads self.%s)' % (path[-1][1], show(val, fn_an.names)[:160], sorted(set(leaves))), ctx.where(fn_b, span))
            if fn_b is ub:
                ctx.floor('authority time stamps written by update_occupancy', n_st, 3)
        if uan.exit_state is not None:
            for fld, which in (('offset_front', 'front'), ('offset_back', 'back')):
                st = [(val, span) for bb, path, val, span in uan.stores_log if path[0] == ('obj', 2) and path[-1] == ('f', fld) and show(val) != 'INF']
                ok = len(st) == 1 and st[0][0][0] == 'sub' and st[0][0][1] == ('pre', P('offset_free')) and \
                    any(x[0] == 'pre' and x[1][:2] == P('disp_path') and x[1][-1] == ('f', 'offset') and ('disp_node_idx_' + which) in repr(x) for x in walk(st[0][0][2]))
                ctx.check(ok, R, 'TrainDisp::update_occupancy|' + fld, 'the occupied extent recorded on the %s link is free offset − that node\'s offset' % which,
                          '%s stores: %s' % (fld, [show(v, uan.names)[:120] for v, _ in st]), ctx.where(ub))
    rb = ctx.anchor(R, 'TrainDisp::rewind')
    if rb is None:
        return
    eng = engine(ctx)
    eng.all_paths.add(rb.fid)
    ran = eng.analysis(rb)
    if ran.exit_state is None:
        ctx.unproved(R, 'TrainDisp::rewind', 'not analysable', ctx.where(rb)); return
    uo = [c for c in ran.calls if c.targets and 'TrainDisp::update_occupancy' in c.targets]
    ctx.check(len(uo) >= 1, R, 'TrainDisp::rewind', 'rewind updates the occupancy tables', 'no update_occupancy call', ctx.where(rb))
    # field-set agreement: authority fields written by advance vs reset by rewind
    def auth_fields(a):
        out = set()
        for bb, path, val, span in a.stores_log:
            if path[0] == ('obj', 2) and path[-1][0] == 'f':
                out.add(path[-1][1])
        return out
    adv = auth_fields(an) - {'offset_front'}
    rew = auth_fields(ran)
    pops = [c for c in ran.calls if re.sub(r'::<.*?>', '', c.callee).endswith('::pop') and c.argvals and c.argvals[0][0] == 'ref' and c.argvals[0][1][0] == ('obj', 2)]
    missing = sorted(adv - rew - ({'arrive_entry', 'train_idx'} if pops else set()))
    ctx.check(not missing and bool(pops), R, 'TrainDisp::rewind|fields', 'rewind pops the authority advance pushed and resets every authority field advance sets on other authorities (%s)' % sorted(adv),
              'fields set by advance but not reset by rewind: %s; pops: %d' % (missing, len(pops)), ctx.where(rb))
    # rewinding walks the cursors BACK: every store to a dispatch-node cursor is (that cursor − 1) (the front / back cursors repeat it until
    # they rest on an Arrive / Clear node again)
    ncur = 0
    for bb, path, val, span in ran.stores_log:
        if len(path) == 2 and path[0] == ('obj', 1) and path[1][0] == 'f' and path[1][1] in ('disp_node_idx_free', 'disp_node_idx_front', 'disp_node_idx_back'):
            if val == ('none',) or (val[0] in ('pre', 'loopvar') and 'disp_node_idx' in repr(val)):
                continue        # cleared, or copied from another cursor
            ncur += 1
            same = lambda x: (x[0] == 'loopvar' and x[2] == path) or (x[0] == 'pre' and x[1] == path)
            back1 = [x for x in walk(val) if x[0] == 'sub' and x[2] == ONE and any(same(y) for y in walk(x[1]))]
            fwd = [x for x in walk(val) if x[0] == 'add' and ONE in x[1:]]
            ctx.check(bool(back1) and not fwd, R, 'TrainDisp::rewind|%s steps back' % path[1][1], 'the cursor moves back by exactly one node per step',
                      '%s := %s' % (path[1][1], show(val, ran.names)[:160]), ctx.where(rb, span))
    ctx.floor('cursor stores in rewind', ncur, 3)
    index_provenance(ctx, [(b, an)] + ([(ub, uan)] if ub is not None else []) + [(rb, ran)])
    links_blocked_rule(ctx)
    sentinels(ctx, b, an)
    construction(ctx)
    # a train that the deadlock check skips is never re-routed around the trains that move later: the skip cursor may pass finished
    # trains only (clause of C05-6, shared)
    if not getattr(ctx, '_no_c05_share', False):
        from .common import RuleProxy
        from . import C05
        C05.cursor(RuleProxy(ctx, {'C05-6.cursor': 'C04-11.cursor'}))
        # the mutually-exclusive declarations the gates read (`link_idxs_lockout`) are those of the network file in either layout:
        # the legacy conversion carries every shared field over (clause of C16-5)
        from . import C16
        C16.legacy(RuleProxy(ctx, {'C16-5.legacy': 'C04-12.lockouts'}))
    for fld in sorted(adv & rew):
        vals = {show(val)[:20] for bb, path, val, span in ran.stores_log if path[0] == ('obj', 2) and path[-1] == ('f', fld)}
        ctx.check(vals <= {'INF', '0'}, R, 'TrainDisp::rewind|' + fld, 'rewind resets %s to its "not yet" value' % fld, 'reset values %s' % sorted(vals), ctx.where(rb))


def sentinels(ctx, b, an):
    """C04-10.sentinel: the gates of `advance` compare time stamps of authorities, and two kinds of authority carry no real stamps:
    the per-link placeholder that stands for "no train has used this link" (every gate must pass: all stamps -inf) and the
    authority of a train that has entered but not yet cleared (every later train must wait: clear stamps +inf, which is also how
    the direction gate tells a leader still inside the link from an opposing train that has left).  Decided: the placeholder
    `run_dispatch` seeds every link with has all four stamps -inf; the authority pushed on entry keeps `clear_entry`,
    `clear_exit` and `arrive_exit` at +inf; a rewind that re-opens an authority resets `clear_exit` to +inf."""
    R = 'C04-10.sentinel'
    prog = ctx.prog
    eng = engine(ctx)
    INF = ('sym', 'INF')
    NINF = mk('neg', INF)
    def flds(t):
        return dict(t[2]) if t is not None and t[0] == 'agg' else {}
    # entry authority
    ps = [c for c in an.calls if re.sub(r'::<.*?>', '', c.callee).endswith('::push') and 'DispAuth' in c.callee and len(c.argvals) > 1]
    if len(ps) != 1:
        ctx.unproved(R, FID + '|entry authority', 'expected one push of a new authority, found %d' % len(ps), ctx.where(b))
    else:
        f = flds(ps[0].argvals[1])
        okp = all(f.get(k) == INF for k in ('clear_entry', 'clear_exit', 'arrive_exit'))
        ctx.check(okp, R, FID + '|entry authority', 'a train that has entered and not cleared holds the link for ever: clear_entry = clear_exit = arrive_exit = +inf',
                  'the authority pushed on entry has %s' % {k: show(f.get(k), an.names)[:40] if f.get(k) is not None else None for k in ('clear_entry', 'clear_exit', 'arrive_exit')},
                  ctx.where(b, ps[0].span))
    # the per-link placeholder
    rd = [prog.by_id[x] for x in prog.by_id if (x == 'run_dispatch' or x.endswith('::run_dispatch')) and not prog.by_id[x].test]
    if len(rd) != 1:
        ctx.unproved(R, 'run_dispatch|placeholder', 'run_dispatch not found (anchor)')
    else:
        ra = eng.analysis(rd[0])
        fe = [c for c in ra.calls if 'from_elem' in c.callee and 'DispAuth' in c.callee]
        ok = False
        txt = None
        if len(fe) == 1 and fe[0].argvals and fe[0].argvals[0][0] == 'array' and len(fe[0].argvals[0]) == 2:
            f = flds(fe[0].argvals[0][1])
            txt = {k: show(f.get(k), ra.names)[:40] if f.get(k) is not None else None for k in ('arrive_entry', 'arrive_exit', 'clear_entry', 'clear_exit')}
            ok = all(f.get(k) == NINF for k in ('arrive_entry', 'arrive_exit', 'clear_entry', 'clear_exit')) and f.get('train_idx') == ('none',)
        ctx.check(ok, R, 'run_dispatch|placeholder', 'every link starts with one placeholder authority of no train whose four stamps are -inf',
                  'the initial authority list of a link is %s' % (txt if txt else [show(a, ra.names)[:200] for c in fe for a in c.argvals]), ctx.where(rd[0]))
    # rewind re-opens an authority
    rb = prog.by_id.get('TrainDisp::rewind')
    if rb is None:
        ctx.unproved(R, 'TrainDisp::rewind|re-open', 'anchor not found'); return
    eng.all_paths.add(rb.fid)
    ran = eng.analysis(rb)
    st = [(bb, path, val, span) for bb, path, val, span in ran.stores_log if path and path[-1] == ('f', 'clear_exit')]
    ok = len(st) >= 1 and all(val == INF for bb, path, val, span in st)
    ctx.check(ok, R, 'TrainDisp::rewind|re-open', 'the only value a rewind writes into a clear_exit stamp is +inf (the train is back inside the link)',
              'rewind stores %s into clear_exit' % [show(val, ran.names)[:60] for bb, path, val, span in st], ctx.where(rb))


def construction(ctx):
    """C04-0.start (construction): the dispatcher builds one TrainDisp per train; what `advance` later reads as the departure time
    and as the headway are the constructor's `time_depart` and `time_spacing` parameters.  Both are plain times, so the compiler
    cannot tell them apart: decided by parameter name — `time_depart` receives the train's own state time, every other
    time / distance / acceleration parameter a constant of the dispatcher (the same for every train), the train index idx + 1."""
    R = 'C04-0.start'
    prog = ctx.prog
    eng = engine(ctx)
    rd = [prog.by_id[x] for x in prog.by_id if (x == 'run_dispatch' or x.endswith('::run_dispatch')) and not prog.by_id[x].test]
    nb = prog.by_id.get('TrainDisp::new')
    if len(rd) != 1 or nb is None:
        ctx.unproved(R, 'run_dispatch|TrainDisp::new', 'anchor not found'); return
    pn = {}
    for k, v in nb.debug.items():
        m = re.fullmatch(r'_(\d+)', v)
        if m and 1 <= int(m.group(1)) <= nb.nparams:
            pn.setdefault(k, int(m.group(1)))
    an = eng.analysis(rd[0])
    cs = [c for c in an.calls if c.targets and 'TrainDisp::new' in c.targets]
    if len(cs) != 1 or 'time_depart' not in pn or 'time_spacing' not in pn:
        ctx.unproved(R, 'run_dispatch|TrainDisp::new', 'expected one TrainDisp::new call and parameters time_depart / time_spacing (found %d call(s))' % len(cs), ctx.where(rd[0])); return
    c = cs[0]
    def arg(name):
        return c.argvals[pn[name] - 1]
    td = arg('time_depart')
    okd = any(x[0] in ('pre', 'proj') and ("('f', 'state')" in repr(x) and "('f', 'time')" in repr(x)) for x in walk(td)) and not any(x[0] == 'num' and x[1] != 0 for x in walk(td) if False)
    okd = okd and td[0] in ('pre', 'proj')
    ctx.check(okd, R, 'run_dispatch|time_depart', 'each train is dispatched from its own state time', 'time_depart receives %s' % show(td, an.names)[:120], ctx.where(rd[0], c.span))
    consts = {}
    for name in ('time_spacing', 'dist_disp_path_search', 'dist_fixed_max', 'acc_startup'):
        if name in pn:
            v = arg(name)
            consts[name] = show(v, an.names)[:40]
            okc = not any(x[0] in ('pre', 'loopvar', 'iterpos', 'proj', 'elem') for x in walk(v))
            ctx.check(okc, R, 'run_dispatch|' + name, '%s is a constant of the dispatcher (%s)' % (name, consts[name]), '%s receives a per-train value: %s' % (name, show(v, an.names)[:120]), ctx.where(rd[0], c.span))
