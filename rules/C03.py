"""C03 — speed-limited train never overspeeds, never reverses, stops inside its path (DESIGN §5 C03, §6)."""
import re
from sa.dsl import T, gamma, _t
from sa.terms import mk, ZERO, ONE, TRUE, FALSE, show, walk, map_term, num
from sa.prove import Prover
from .common import engine, inventory, prove, analysis_or_fail

LEVEL = 'other'
MANIFEST = {
    'category': 'other',
    'engine': 'svn',
    'technique': ('symbolic value numbering of the straight-line parts of the speed controller: pushed braking-point terms and their '
                  'guard, must-pass-through of path extension -> braking-curve rebuild, controller wiring and force-clipping terms '
                  'with the one-step identity speed + dt/m·(f_target − res) ≡ target, recurrence of the target look-ahead on loop '
                  'entry/back edges, error guards, and the loop condition of the walk as a path-set term'),
    'text': ('Decides necessary conditions, NOT the closed-loop behaviour: (1) the braking curve is anchored at the end of the path '
             'with limit = target = 0, every speed point contributes (offset, |limit|, |limit|), curve points inherit the target of '
             'the slower section and grow by dt·(brake force + resistance)/mass under the guard that this is positive; (2) every '
             'accepted path extension rebuilds the curve; (3) the limit and target stored in the state are the pair returned by the '
             'curve lookup at the current offset and speed, the applied force is min(traction limit, max(force that would reach the '
             'target, −braking capability)), one step with the target force lands exactly on the target, the look-ahead target is a '
             'running minimum starting from the current point\'s target, and the lookup refuses a speed above the current point\'s '
             'limit; (4) insufficient braking / traction / brake or power limits are error values; (5) the walk continues while the '
             'train is more than 1000 ft short of the end, or short of it and still moving. Whether speed <= limit holds at every '
             'step for every track (the braking curve\'s sufficiency), non-negativity of speed and stopping inside the window are '
             'emergent and not decided.'),
    'note': 'The overspeed test inside calc_speeds is an assert! (process abort), which the statement forbids; its reachability is exactly the undecided core.',
}
EXPLANATION = 'Terms and guards of BrakingPoints::recalc / calc_speeds, SpeedLimitTrainSim::solve_required_pwr / extend_path / walk_internal.'
RULES = ['C03-1.anchor', 'C03-2.rebuild', 'C03-3.controller', 'C03-4.errors', 'C03-5.window', 'C03-6.profile', 'C03-7.resistance', 'C03-8.position']
ASSUMPTIONS = ['dt > 0, compound mass > 0']

A = [(r'(^|\.)dt$', 'pos'), (r'mass_static$', 'pos'), (r'mass_rot$', 'nonneg')]


def P(*fields, root=('obj', 1)):
    p = (root,)
    for f in fields:
        p = p + (('f', f),)
    return p


def pre(*fields, root=('obj', 1)):
    return ('pre', P(*fields, root=root))


def is_push(c, path):
    return re.sub(r'::<.*?>', '', c.callee).endswith('::push') and c.argvals and c.argvals[0] == ('ref', path, 'mut')


def fields(v):
    return dict(v[2]) if v[0] == 'agg' else {}


def run(ctx):
    # the limit in force is the enforced speed profile: the clauses that keep it at or below every posted restriction (C02) are
    # necessary here too and are reported under this property as well
    from .common import RuleProxy
    from . import C02
    C02.run(RuleProxy(ctx, {'C02-1.min_speed': 'C03-6.profile', 'C02-2.seed': 'C03-6.profile', 'C02-3.add_speeds': 'C03-6.profile', 'C02-4.applies': 'C03-6.profile', 'C02-5.sites': 'C03-6.profile', 'C02-6.search': 'C03-6.profile', 'C02-7.select': 'C03-6.profile', 'C02-9.guards': 'C03-6.profile'}))
    # the braking curve is built by evaluating the resistance model backwards along the path: its front/rear index freshness, the
    # cached index search and the force formulas (C07) are necessary here too
    from . import C07
    C07.run(RuleProxy(ctx, {k: 'C03-7.resistance' for k in C07.RULES if k not in ('C07-3.report', 'C07-10.braking')}))
    # limit and braking curve are looked up at the train's position: its bookkeeping (time, front offset integration, rear offset:
    # clauses of C12, speed-limited simulation) is necessary here too
    from . import C12
    C12.run(RuleProxy(ctx, {k: 'C03-8.position' for k in ('C12-1.time', 'C12-2.offset', 'C12-3.rear', 'C12-6.init')}, key_filter=lambda k: not k.startswith('SetSpeedTrainSim')))
    from .common import step_protocol
    step_protocol(ctx, 'C03-3.controller', 'SpeedLimitTrainSim::solve_step', [
        ('set_pwr_aux', 'set_cur_pwr_max_out'), ('set_cur_pwr_max_out', 'solve_required_pwr'), ('update_res', 'solve_required_pwr'),
        ('solve_required_pwr', 'solve_energy_consumption')])
    anchor(ctx)
    rebuild(ctx)
    controller(ctx)
    window(ctx)


# ------------------------------------------------------------------------------------------------ braking curve
def anchor(ctx):
    R = 'C03-1.anchor'
    fid = 'BrakingPoints::recalc'
    b = ctx.anchor(R, fid)
    an = analysis_or_fail(ctx, R, b) if b is not None else None
    if an is None:
        return
    w = ctx.where(b)
    ps = [c for c in an.calls if is_push(c, P('points'))]
    ctx.floor('braking point pushes in recalc', len(ps), 4)
    if len(b.params) != 5:
        ctx.unproved(R, fid, 'expected (self, train_state, fric_brake, train_res, path_tpc)', w); return
    ts, fb, tpc = (('obj', b.params[1][0]),), (('obj', b.params[2][0]),), (('obj', b.params[4][0]),)
    first = [c for c in ps if not c.in_loop and not c.pc]
    ends = [c for c in an.calls if c.targets and 'PathTpc::offset_end' in c.targets and c.argvals and c.argvals[0] == ('ref', tpc, 'shr') and not c.pc]
    ok = len(first) == 1 and ends and fields(first[0].argvals[1]).get('offset') == ends[0].result and \
        fields(first[0].argvals[1]).get('speed_limit') == ZERO and fields(first[0].argvals[1]).get('speed_target') == ZERO
    ctx.check(ok, R, fid + '|end of path', 'the curve starts with the stop at the end of the path: (offset_end, limit 0, target 0), unconditionally',
              'first pushes: %s' % [show(c.argvals[1], an.names)[:160] for c in first], w)
    clears = [c for c in an.calls if re.sub(r'::<.*?>', '', c.callee).endswith('::clear') and c.argvals and c.argvals[0] == ('ref', P('points'), 'mut') and not c.pc]
    ctx.check(len(clears) == 1, R, fid + '|cleared', 'the old curve is discarded first', '%d clear() calls' % len(clears), w)
    # the resistance that decelerates the train along the curve is evaluated for the state AT the braking point it continues
    # from: when update_res is called inside the loop, the state's offset and speed are those of the last point of the curve
    ur = [c for c in an.calls if c.in_loop and re.sub(r'::<.*?>', '', c.callee).endswith('::update_res')]
    if len(ur) != 1 or not ur[0].pointees or len(ur[0].pointees) < 2 or ur[0].pointees[1] is None:
        ctx.unproved(R, fid + '|resistance state', 'expected one update_res call in the curve loop with a visible state argument (found %d)' % len(ur), w)
    else:
        def upd_field(t, fld):
            while t is not None and t[0] == 'upd':
                if t[2] == (('f', fld),):
                    return t[3]
                t = t[1]
            return None
        st_ = ur[0].pointees[1]
        vo, vs = upd_field(st_, 'offset'), upd_field(st_, 'speed')
        def last_point_field(v, fld):
            return v is not None and v[0] == 'proj' and v[2] == ('f', fld) and v[1][0] == 'elem' and 'points' in repr(v[1][1]) \
                and v[1][2] == mk('sub', ('len', v[1][1]), ONE)
        okr = last_point_field(vo, 'offset') and last_point_field(vs, 'speed_limit') and vo[1][1] == vs[1][1]
        ctx.check(okr, R, fid + '|resistance state', 'resistance is evaluated at the offset and speed of the braking point the curve continues from',
                  'update_res sees offset = %s, speed = %s' % (show(vo, an.names)[:120] if vo else 'a value from an earlier iteration',
                                                               show(vs, an.names)[:120] if vs else 'a value from an earlier iteration'), ctx.where(b, ur[0].span))
    curve = []
    point = []
    for c in ps:
        if c in first:
            continue
        f = fields(c.argvals[1])
        if f.get('speed_target') == f.get('speed_limit'):
            point.append((c, f))
        else:
            curve.append((c, f))
    # per speed point
    ok = len(point) == 1
    if ok:
        c, f = point[0]
        sl = f['speed_limit']
        ok = sl[0] == 'abs' and sl[1][0] == 'pre' and sl[1][1][:len(tpc) + 1] == tpc + (('f', 'speed_points'),) and sl[1][1][-1] == ('f', 'speed_limit')
        if ok:
            el = sl[1][1][:-1]
            ok = f['offset'] == ('pre', el + (('f', 'offset'),))
    ctx.check(ok, R, fid + '|speed point', 'every speed point of the path contributes (its offset, |its limit|, |its limit|): the target never exceeds the limit there',
              'pushes with target = limit: %s' % [show(c.argvals[1], an.names)[:200] for c, _ in point], w)
    # curve points
    if len(curve) != 2:
        ctx.unproved(R, fid + '|curve', 'expected two kinds of braking-curve points (normal, break-through), found %d' % len(curve), w); return
    Ls = [x for x in walk(curve[0][1]['speed_target']) if x[0] == 'loopvar' and x[2] == P('points')]
    if not Ls:
        ctx.unproved(R, fid + '|curve', 'curve points do not read the last point', w); return
    Lp = Ls[0]
    last = lambda fld: ('proj', ('elem', Lp, mk('sub', ('len', Lp), ONE)), ('f', fld))
    dt = ('pre', ts + (('f', 'dt'),))
    # the guard fric.force_max + res_net > 0 and the term it protects
    G = None
    for g in an.guards:
        h = g.holds_term()
        if h[0] == 'gt' and h[2] == ZERO and h[1][0] == 'add' and h[1][1] == ('pre', fb + (('f', 'force_max'),)):
            G = g
    if G is None:
        ctx.bad(R, fid + '|guard', 'no guard `fric_brake.force_max + res_net > 0` on the accepted paths of the curve loop', w); return
    FR = G.holds_term()[1]
    mcs = [c for c in an.calls if c.targets and any(t.endswith('TrainState::mass_compound') for t in c.targets) and c.result is not None]
    if not mcs:
        ctx.unproved(R, fid + '|mass', 'mass_compound() call not found', w); return
    MC = mcs[0].result[1] if mcs[0].result[0] == 'ok' else ('uf', 'unwrap', mcs[0].result)
    VC = T(dt) * T(FR) / T(MC)
    if point:
        plateau(ctx, b, an, point[0][0], last)
    for c, f in curve:
        wc = ctx.where(b, c.span)
        brk = f['speed_limit'][0] == 'abs'
        k = fid + ('|break-through point' if brk else '|curve point')
        ctx.check(f['speed_target'] == last('speed_target'), R, k + '|target', 'a curve point inherits the target of the point before it (the slower section it protects)',
                  'target = %s' % show(f['speed_target'], an.names)[:160], wc)
        if brk:
            prove(ctx, R, k + '|offset', an, 'eq', T(f['offset']), T(last('offset')) - T(dt) * T(f['speed_limit']), assume=A, where=wc, note='one step back at the posted speed')
        else:
            prove(ctx, R, k + '|limit', an, 'eq', T(f['speed_limit']), T(last('speed_limit')) + VC, assume=A, where=wc,
                  note='limit grows by dt·(max friction brake force + resistance at that point)/compound mass per step back')
            prove(ctx, R, k + '|offset', an, 'eq', T(f['offset']), T(last('offset')) - T(dt) * (T(last('speed_limit')) + T(num(1) if False else ('num', __import__('fractions').Fraction(1, 2))) * VC), assume=A, where=wc,
                  note='one step back at the mean of the two speeds')
        inv = inventory(ctx)
        cfg = inv.cfg(b)
        ctx.check(cfg.dominates(G.block, c.block), R, k + '|guarded', 'pushed only after `brake force + resistance > 0` has been established (otherwise Err)',
                  'guard block %s does not dominate push block %s' % (G.block, c.block), wc)


def all_decisions(pc):
    """every (condition, outcome) of a path condition, path sets expanded recursively"""
    out = []
    for cnd, o in pc:
        if cnd[0] == 'pathset':
            for alt in cnd[2]:
                out.extend(all_decisions(alt))
        else:
            out.append((cnd, o))
    return out


def plateau(ctx, b, an, point_push, last):
    """the curve loop of one speed point is left (besides running off the start of the path) only when the last curve point
    sits exactly AT the posted limit: the clipped entry point is followed by a second point at the posted limit (a one-step
    plateau).  Leaving on <= instead gives the curve one step less — seeded change C03b showed the train then overshoots."""
    R = 'C03-1.anchor'
    decs = all_decisions(point_push.pc)
    lim = last('speed_limit')
    cmps = []
    for cnd, o in decs:
        if cnd[0] in ('eq', 'ne', 'le', 'lt', 'ge', 'gt') and lim in (cnd[1], cnd[2]):
            other = cnd[2] if cnd[1] == lim else cnd[1]
            if other[0] == 'abs' and other[1][0] == 'pre' and other[1][1][-1] == ('f', 'speed_limit'):
                cmps.append((cnd[0], o != '0'))
    ok = ('eq', True) in cmps and not any(op in ('le', 'lt', 'ge', 'gt') for op, _ in cmps)
    ctx.check(ok, R, 'BrakingPoints::recalc|plateau', 'the curve of a speed point is complete only when its last point sits exactly at the posted limit (clipped entry point + one more step at the limit)',
              'exit comparisons between the last curve point\'s limit and the posted limit: %s' % cmps, ctx.where(b, point_push.span))


def rebuild(ctx):
    R = 'C03-2.rebuild'
    prog = ctx.prog
    inv = inventory(ctx)
    fid = 'SpeedLimitTrainSim::extend_path'
    b = ctx.anchor(R, fid)
    if b is not None:
        cfg = inv.cfg(b)
        ext = [bn for bn, t in cfg.call_sites() if any(x.fid == 'PathTpc::extend' for x in prog.resolve(t.callee))]
        rec = [bn for bn, t in cfg.call_sites() if any(x.fid == 'SpeedLimitTrainSim::recalc_braking_points' for x in prog.resolve(t.callee))]
        ok = bool(ext) and bool(rec) and cfg.every_ok_path_passes(ext) and cfg.every_ok_path_passes(rec) and all(any(cfg.dominates(e, r) for e in ext) for r in rec)
        ctx.check(ok, R, fid, 'every accepted extension extends the path profile and then rebuilds the braking curve',
                  'extend blocks %s, recalc blocks %s, path avoiding recalc: %s' % (ext, rec, cfg.path_avoiding(rec) if rec else None), ctx.where(b))
    fid = 'SpeedLimitTrainSim::recalc_braking_points'
    b = ctx.anchor(R, fid)
    an = analysis_or_fail(ctx, R, b) if b is not None else None
    if an is not None:
        cs = [c for c in an.calls if c.targets and 'BrakingPoints::recalc' in c.targets]
        want = [('ref', P('braking_points'), 'mut'), ('ref', P('state'), 'shr'), ('ref', P('fric_brake'), 'shr'), ('ref', P('train_res'), 'shr'), ('ref', P('path_tpc'), 'shr')]
        ok = len(cs) == 1 and not cs[0].pc and list(cs[0].argvals) == want
        ctx.check(ok, R, fid, 'the curve is rebuilt from the simulation\'s own state, brake, resistance model and path', 'calls: %s' % [[show(a, an.names)[:40] for a in c.argvals] for c in cs], ctx.where(b))
    # walk_timed_path: the dispatched route is handed over in consecutive slices, each extension precedes the steps it serves
    fid = 'SpeedLimitTrainSim::walk_timed_path'
    b = ctx.anchor(R, fid)
    an = analysis_or_fail(ctx, R, b) if b is not None else None
    if an is not None and len(b.params) == 3:
        w = ctx.where(b)
        tp = ('val', b.params[2][0])
        ext = [c for c in an.calls if c.targets and 'SpeedLimitTrainSim::extend_path' in c.targets]
        stp = [c for c in an.calls if c.targets and 'SpeedLimitTrainSim::step' in c.targets]
        fin = [c for c in an.calls if c.targets and 'SpeedLimitTrainSim::walk_internal' in c.targets]
        if len(ext) != 1 or len(stp) != 1 or len(fin) != 1 or ext[0].pointees[2] is None:
            ctx.unproved(R, fid, 'expected one extend_path, one step and one walk_internal call: %d / %d / %d' % (len(ext), len(stp), len(fin)), w)
        else:
            pt = ext[0].pointees[2]
            rng = None
            for x in walk(pt):
                if x[0] == 'agg' and x[1].endswith('Range') and dict(x[2]).get('start') is not None:
                    rng = dict(x[2])
            txt = show(pt, an.names)
            ok = rng is not None and rng['start'][0] == 'loopvar' and rng['end'][0] == 'loopvar' and '.link_idx' in txt and 'iter.collect' in txt
            ctx.check(ok, R, fid + '|slice', 'each extension hands over the link indices of timed_path[idx_prev..idx_next]', 'extension argument: %s' % txt[:200], ctx.where(b, ext[0].span))
            if ok:
                Lp, Ln = rng['start'], rng['end']
                ent = an.load(Lp[2], an.loop_entry[Lp[1]]) if Lp[1] in an.loop_entry else None
                backs = [an.load(Lp[2], s_) for s_ in an.loop_back.get(Lp[1], [])]
                ctx.check(ent == ZERO and bool(backs) and all(x == Ln for x in backs), R, fid + '|consecutive',
                          'the slices are consecutive from the first element: idx_prev starts at 0 and becomes the previous slice end (no link skipped or repeated)',
                          'idx_prev starts at %s, continues with %s' % (show(ent, an.names)[:40] if ent else None, [show(x, an.names)[:60] for x in backs]), w)
                ent_n = an.load(Ln[2], an.loop_entry[Ln[1]]) if Ln[1] in an.loop_entry else None
                ctx.check(ent_n == mk('add', Lp, ONE), R, fid + '|non-empty', 'every extension contains at least one link (idx_next starts at idx_prev + 1)',
                          'idx_next starts at %s' % (show(ent_n, an.names)[:60] if ent_n else None), w)
            inv2 = inventory(ctx).cfg(b)
            ctx.check(inv2.dominates(ext[0].block, stp[0].block) and not fin[0].in_loop and inv2.dominates(ext[0].block, fin[0].block) or (inv2.dominates(ext[0].block, stp[0].block) and not fin[0].in_loop), R, fid + '|order',
                      'steps are taken only after the extension that serves them; the final walk runs after the last extension', 'extend block %s, step block %s' % (ext[0].block, stp[0].block), w)
    # every caller that extends the path of a speed-limit simulation goes through extend_path (not PathTpc::extend directly)
    direct = []
    for caller in sorted(inv.callers('PathTpc::extend')):
        cb = prog.by_id.get(caller)
        if cb is None or cb.test or caller == 'SpeedLimitTrainSim::extend_path':
            continue
        if caller.startswith('SpeedLimitTrainSim::'):
            direct.append(caller)
    ctx.check(not direct, R, 'direct extension', 'no other method of the speed-limit simulation extends the path without rebuilding the curve', 'PathTpc::extend is also called by %s' % direct)


# ------------------------------------------------------------------------------------------------ controller
def controller(ctx):
    R = 'C03-3.controller'
    fid = 'SpeedLimitTrainSim::solve_required_pwr'
    b = ctx.anchor(R, fid)
    an = analysis_or_fail(ctx, R, b) if b is not None else None
    if an is None:
        return
    w = ctx.where(b)
    cs = [c for c in an.calls if c.targets and 'BrakingPoints::calc_speeds' in c.targets]
    if len(cs) != 1 or cs[0].result is None or cs[0].result[0] != 'tuple':
        ctx.unproved(R, fid, 'expected one calc_speeds call returning a pair, found %d' % len(cs), w); return
    c = cs[0]
    LIM, TGT = c.result[1], c.result[2]
    want_args = [('ref', P('braking_points'), 'mut'), pre('state', 'offset'), pre('state', 'speed'), mk('mul', pre('fric_brake', 'ramp_up_time'), pre('fric_brake', 'ramp_up_coeff'))]
    ctx.check(list(c.argvals) == want_args and not c.pc, R, fid + '|lookup', 'the curve is looked up at the current offset and speed, with the brake build-up time as look-ahead',
              'calc_speeds(%s)' % [show(a, an.names)[:60] for a in c.argvals], ctx.where(b, c.span))
    post = lambda *f: an.load(P(*f), an.exit_state)
    ctx.check(post('state', 'speed_limit') == LIM and post('state', 'speed_target') == TGT, R, fid + '|wiring', 'state.speed_limit and state.speed_target are the pair the lookup returned',
              'speed_limit = %s, speed_target = %s' % (show(post('state', 'speed_limit'), an.names)[:80], show(post('state', 'speed_target'), an.names)[:80]), w)
    sp = post('state', 'speed')
    ok = sp[0] == 'gamma' and sp[1][0] == 'uf' and sp[1][1].endswith('almost_eq_uom') and sp[2] == TGT and sp[1][2] == sp[3] and sp[1][3] == TGT
    if not ok:
        ctx.unproved(R, fid + '|speed', 'new speed is not `snap(speed + change, target)`: %s' % show(sp, an.names)[:200], w); return
    ctx.ok(R, fid + '|snap', 'the new speed is replaced by the target only when almost equal to it', w)
    S1 = sp[3]
    speed = pre('state', 'speed'); dt = pre('state', 'dt')
    RES = None
    for g in an.guards:
        h = g.holds_term()
        if not g.gate and h[0] == 'gt' and h[2] == ZERO and h[1][0] == 'add' and h[1][1] == pre('fric_brake', 'force_max'):
            RES = h[1][2]
    if RES is None:
        ctx.bad('C03-4.errors', fid + '|braking', 'no unconditional guard `fric_brake.force_max + res_net > 0` (insufficient braking must be an error value)', w); return
    ctx.ok('C03-4.errors', fid + '|braking', 'insufficient braking force (brake + resistance <= 0) is an error value', w)
    FA = None
    for x in walk(S1):
        if x[0] == 'min' and len(x) == 3 and x[2][0] == 'max':
            FA = x; break
    if FA is None:
        ctx.unproved(R, fid + '|clip', 'applied force is not min(traction limit, max(target force, −braking capability))', w); return
    X, Y, Z = FA[1], FA[2][1], FA[2][2]
    MC = T(pre('state', 'mass_static')) + T(pre('state', 'mass_rot'))
    prove(ctx, R, fid + '|step', an, 'eq', T(S1), T(speed) + T(dt) / MC * (T(FA) - T(RES)), assume=A, where=w, note='speed change = dt/compound mass · (applied force − resistance)')
    prove(ctx, R, fid + '|target force', an, 'eq', T(Y), T(RES) + MC * (T(TGT) - T(speed)) / T(dt), assume=A, where=w, note='force that would reach the target in one step')
    prove(ctx, R, fid + '|lands on target', an, 'eq', T(speed) + T(dt) / MC * (T(Y) - T(RES)), T(TGT), assume=A, where=w,
          note='with the target force the step ends exactly at the target; the applied force is min(·, max(target force, −capability)) <= target force whenever the capability suffices, so the new speed is <= target then')
    fmc = post('fric_brake', 'state', 'force_max_curr')
    okz = any(x == mk('neg', fmc) for x in walk(Z)) and Z[0] == 'sub'
    ctx.check(okz, R, fid + '|capability', 'the braking capability is the friction brake\'s current maximum plus the consist\'s dynamic / regenerative braking force',
              'lower clip = %s' % show(Z, an.names)[:200], w)
    # ---- the other error values
    have = {'traction': False, 'fric': False, 'pwr_pos': False, 'pwr_neg': False}
    pw = post('state', 'pwr_whl_out')
    for g in an.guards:
        h = g.holds_term()
        s_ = show(h, an.names)
        if h[0] == 'uf' and h[1].endswith('almost_le_uom'):
            if h[2] == post('fric_brake', 'state', 'force') or 'fric_brake.state' in show(h[3], an.names)[:80] and 'force_max' in show(h[3], an.names):
                have['fric'] = True
            lim_txt = show(h[3], an.names)[:200]
            if h[2][0] != 'neg' and 'loco_con.state.pwr_out_max' in lim_txt and not g.gate:
                have['pwr_pos'] = True
            if h[2][0] == 'neg' and 'loco_con.state.pwr_dyn_brake_max' in lim_txt and not g.gate:
                have['pwr_neg'] = True
        if g.gate and any(cnd[0] == 'lt' and cnd[1] == speed for cnd, o in g.gate):
            have['traction'] = True
    for k_, txt in (('traction', 'a train that is (almost) standing and cannot overcome the resistance is an error value'),
                    ('fric', 'a friction brake demand above its current maximum is an error value'),
                    ('pwr_pos', 'wheel power above the positive power limit is an error value'),
                    ('pwr_neg', 'braking power above the dynamic braking limit is an error value')):
        ctx.check(have[k_], 'C03-4.errors', fid + '|' + k_, txt, 'guard not found on the accepted paths', w)
    # ---- the braking capability the clip uses: the friction brake's current maximum builds up linearly and never exceeds its rating
    fb = ctx.anchor(R, 'FricBrake::set_cur_force_max_out')
    fan = analysis_or_fail(ctx, R, fb) if fb is not None else None
    if fan is not None:
        s_ = lambda *f_: T(('pre', P(*f_)))
        dtp = T(('pre', (('val', fb.params[1][0]),)))
        got = T(fan.load(P('state', 'force_max_curr'), fan.exit_state))
        prove(ctx, R, 'FricBrake::set_cur_force_max_out|build-up', fan, 'eq', got, (s_('state', 'force') + s_('force_max') / s_('ramp_up_time') * dtp).min(s_('force_max')),
              assume=A, where=ctx.where(fb), note='current maximum = min(applied force + rating/ramp-up time · dt, rating)')
        prove(ctx, R, 'FricBrake::set_cur_force_max_out|<=rating', fan, 'le', got, s_('force_max'), assume=A, where=ctx.where(fb), note='never above the rating the braking curve was built with')
        cs2 = [c_ for c_ in an.calls if c_.targets and 'FricBrake::set_cur_force_max_out' in c_.targets]
        ctx.check(len(cs2) == 1 and cs2[0].argvals[0] == ('ref', P('fric_brake'), 'mut') and cs2[0].argvals[1] == pre('state', 'dt') and not cs2[0].in_loop, R,
                  fid + '|brake limit updated', 'the friction brake\'s current maximum is refreshed with the step size before the force is clipped',
                  '%d calls' % len(cs2), w)
    # ---- lookup
    lookup(ctx)


def lookup(ctx):
    R = 'C03-3.controller'
    fid = 'BrakingPoints::calc_speeds'
    b = ctx.anchor(R, fid)
    an = analysis_or_fail(ctx, R, b) if b is not None else None
    if an is None:
        return
    w = ctx.where(b)
    r = an.ret()
    if r[0] != 'tuple' or len(r) != 3:
        ctx.unproved(R, fid, 'does not return a pair', w); return
    lim, tgt = r[1], r[2]
    ok = lim[0] == 'pre' and lim[1][:2] == P('points') and lim[1][-1] == ('f', 'speed_limit') and lim[1][2][0] == 'idx'
    if not ok:
        ctx.unproved(R, fid + '|limit', 'limit is not points[idx_curr].speed_limit: %s' % show(lim, an.names)[:160], w); return
    IDX = lim[1][2][1]
    post_idx = an.load(P('idx_curr'), an.exit_state)
    ctx.check(post_idx == IDX, R, fid + '|limit', 'the returned limit is the limit of the current braking point (idx_curr after the position search)',
              'limit index %s, idx_curr %s' % (show(IDX, an.names)[:80], show(post_idx, an.names)[:80]), w)
    speed = an.arg('speed')
    g_ok = any(g.holds_term() == mk('le', speed, lim) and g.kind != 'assert' or g.holds_term() == mk('le', speed, lim) for g in an.guards)
    ctx.check(g_ok, R, fid + '|refuses overspeed', 'the lookup does not return for a speed above the current point\'s limit', 'no test speed <= points[idx_curr].speed_limit', w)
    # target: running minimum over the points inside the look-ahead, starting from the current point's target
    if tgt[0] != 'loopvar':
        ctx.unproved(R, fid + '|target', 'target is not accumulated in a loop: %s' % show(tgt, an.names)[:120], w); return
    H, key = tgt[1], tgt[2]
    ent = an.load(key, an.loop_entry[H]) if H in an.loop_entry else None
    backs = [an.load(key, s_) for s_ in an.loop_back.get(H, [])]
    cur_t = ('pre', P('points') + (('idx', IDX), ('f', 'speed_target')))
    ctx.check(ent == cur_t, R, fid + '|target start', 'the look-ahead starts from the current point\'s target', 'starts from %s' % (show(ent, an.names)[:120] if ent else None), w)
    okb = bool(backs)
    for x in backs:
        okb = okb and x[0] == 'min' and tgt in (x[1], x[2]) and any(y[0] == 'pre' and y[1][-1] == ('f', 'speed_target') for y in walk(x[2] if x[1] == tgt else x[1]))
    ctx.check(okb, R, fid + '|target step', 'each point inside the look-ahead can only lower the target (running minimum of speed_target)', 'on the back edge: %s' % [show(x, an.names)[:120] for x in backs][:2], w)
    # which points the look-ahead visits: it starts at the current point, moves one point nearer the train's destination per
    # iteration, reads the point it moves to, and goes on exactly while that point lies within offset + speed * ramp-up time
    L = None
    for x in backs:
        y = x[2] if x[1] == tgt else x[1]
        if y[0] == 'pre' and y[1][:2] == P('points') and y[1][2][0] == 'idx' and y[1][2][1][0] == 'sub' and y[1][2][1][2] == ONE and y[1][2][1][1][0] == 'loopvar' and y[1][2][1][1][1] == H:
            L = y[1][2][1][1]
    if L is None:
        ctx.unproved(R, fid + '|look-ahead index', 'the point read on the back edge is not points[idx - 1] of a loop-carried idx', w); return
    l_ent = an.load(L[2], an.loop_entry[H])
    l_back = [an.load(L[2], s_) for s_ in an.loop_back.get(H, [])]
    ctx.check(l_ent == IDX and l_back and all(v == mk('sub', L, ONE) for v in l_back), R, fid + '|look-ahead index',
              'the look-ahead starts at the current braking point and visits every point after it, one at a time',
              'idx starts at %s (current point: %s) and becomes %s' % (show(l_ent, an.names)[:100], show(IDX, an.names)[:100], [show(v, an.names)[:60] for v in l_back]), w)
    mins = [c for c in an.calls if c.in_loop and re.sub(r'::<.*?>', '', c.callee).endswith('::min')]
    try:
        off, adj = an.arg('offset'), an.arg('adj_ramp_up_time')
        far = mk('add', off, mk('mul', speed, adj))
    except KeyError:
        far = None
    okc = False
    if len(mins) == 1 and far is not None:
        tail = [(c_, o) for c_, o in mins[0].pc if c_[0] != 'pathset']
        okc = len(tail) == 2 and tail[0] == (mk('ge', L, ONE), tail[0][1]) and tail[0][1] != '0' and tail[1][1] != '0' and \
            tail[1][0] == mk('le', ('pre', P('points') + (('idx', mk('sub', L, ONE)), ('f', 'offset'))), far)
    ctx.check(okc, R, fid + '|look-ahead reach', 'a point is taken into the minimum exactly while it exists and lies at or before offset + speed * ramp-up time',
              'the minimum is taken under %s' % ([(show(c_, an.names)[:110], o) for c_, o in mins[0].pc if c_[0] != 'pathset'] if mins else None), w)
    # the position search that sets idx_curr: walks one point at a time towards the destination while the next point has been reached
    KEY = P('idx_curr')
    Hs = [h for h in an.loop_entry if h != H and KEY in (an.havoc.get(h) or ())]
    if len(Hs) != 1:
        ctx.unproved(R, fid + '|position search', 'expected one loop that carries idx_curr, found %d' % len(Hs), w); return
    H1 = Hs[0]
    LV = ('loopvar', H1, KEY)
    e1 = an.load(KEY, an.loop_entry[H1]); b1 = [an.load(KEY, s_) for s_ in an.loop_back.get(H1, [])]
    first = mk('le', ('pre', P('points') + (('idx', ZERO), ('f', 'offset'))), off) if far is not None else None
    okp = e1 == ('pre', KEY) and b1 and all(v == mk('sub', LV, ONE) for v in b1) and IDX == mk('gamma', first, ZERO, LV)
    ctx.check(okp, R, fid + '|position search', 'idx_curr is 0 once the first point has been reached, otherwise it moves on from its previous value one point at a time',
              'idx_curr: entry %s, step %s, result %s' % (show(e1, an.names)[:60], [show(v, an.names)[:60] for v in b1], show(IDX, an.names)[:120]), w)
    want_exit = mk('le', ('pre', P('points') + (('idx', mk('sub', LV, ONE)), ('f', 'offset'))), off) if far is not None else None
    ex = False
    for g in an.guards:
        for c_, o in (g.gate or []):
            pass
    for c in an.calls:
        for c_, o in c.pc:
            if c_[0] == 'pathset':
                for alt in c_[2]:
                    if any(cc == want_exit and oo == '0' for cc, oo in alt):
                        ex = True
    ctx.check(ex, R, fid + '|position search exit', 'the search stops at the first point whose successor has not been reached yet (points[idx_curr - 1].offset <= offset is false)',
              'no path leaves the search on that test', w)


# ------------------------------------------------------------------------------------------------ termination window
def window(ctx):
    R = 'C03-5.window'
    fid = 'SpeedLimitTrainSim::walk_internal'
    b = ctx.anchor(R, fid)
    an = analysis_or_fail(ctx, R, b) if b is not None else None
    if an is None:
        return
    w = ctx.where(b)
    st = [c for c in an.calls if c.targets and 'SpeedLimitTrainSim::step' in c.targets]
    if len(st) != 1 or not st[0].in_loop:
        ctx.unproved(R, fid, 'expected one step() call inside the loop', w); return
    ps = [cnd for cnd, o in st[0].pc if cnd[0] == 'pathset' and o == '1']
    if len(st[0].pc) != 1 or len(ps) != 1:
        ctx.unproved(R, fid, 'loop condition is not a disjunction of two path sets: %s' % [(show(c_, an.names)[:120], o) for c_, o in st[0].pc], w); return
    alts = ps[0][2]
    ends = [c for c in an.calls if c.targets and 'PathTpc::offset_end' in c.targets and c.result is not None]
    if not ends:
        ctx.unproved(R, fid, 'offset_end() not found', w); return
    END = ends[0].result
    off = None; spd = None
    for x in walk(('tuple',) + tuple(c_ for alt in alts for c_, o in alt)):
        if x[0] == 'loopvar' and x[2] == P('state', 'offset'):
            off = x
        if x[0] == 'loopvar' and x[2] == P('state', 'speed'):
            spd = x
    if off is None or spd is None:
        ctx.unproved(R, fid, 'loop condition does not read state.offset and state.speed', w); return
    far = None
    for alt in alts:
        if len(alt) == 1 and alt[0][1] != '0' and alt[0][0][0] == 'lt' and alt[0][0][1] == off:
            far = alt[0][0]
    ok = far is not None and far[2][0] == 'sub' and far[2][1] == END and far[2][2][0] == 'num' and abs(float(far[2][2][1]) - 304.8) < 1e-9
    near = [alt for alt in alts if len(alt) == 3]
    ok2 = False
    for alt in near:
        conds = {(c_, o != '0') for c_, o in alt}
        ok2 = ok2 or ((far, False) in conds and (mk('lt', off, END), True) in conds and (mk('ne', spd, ZERO), True) in conds)
    ctx.check(ok and ok2 and len(alts) == 2, R, fid, 'the walk continues exactly while offset < end − 1000 ft, or offset < end and the train is still moving',
              'loop condition: %s' % show(ps[0], an.names)[:300], w)
