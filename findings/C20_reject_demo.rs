use altrios_core::consist::locomotive::locomotive_model::MuSideEffect;
use altrios_core::consist::locomotive::Locomotive;
use altrios_core::traits::{Mass, MassSideEffect, SerdeAPI};
use altrios_core::uc;

/// K1: a locomotive whose mass is derived from its parts (baseline, ballast, fc, gen all known)
#[test]
fn set_mass_rejected_after_expunge_leaves_object_changed() {
    let mut v: serde_json::Value = serde_json::from_str(&Locomotive::default().to_json().unwrap()).unwrap();
    // fc and gen have masses in the default; add baseline + ballast so that the total equals the stored mass
    let loco0 = Locomotive::default();
    let total = loco0.mass().unwrap().unwrap();
    v["loco_type"]["ConventionalLoco"]["fc"]["mass"] = serde_json::json!(5000.0);
    v["loco_type"]["ConventionalLoco"]["gen"]["mass"] = serde_json::json!(4000.0);
    v["baseline_mass"] = serde_json::json!(total.value - 10000.0);
    v["ballast_mass"] = serde_json::json!(1000.0);
    v["mu"] = serde_json::json!(loco0.force_max().unwrap().value / (total.value * uc::ACC_GRAV.value));
    let mut loco = Locomotive::from_json(&v.to_string()).unwrap();
    assert!(loco.mass().is_ok() && loco.force_max().is_ok() && loco.mu().unwrap().is_some());
    let m0 = loco.mass().unwrap().unwrap();
    let r = loco.set_mass(Some(m0 * 1.1), MassSideEffect::None);
    println!("set_mass -> {:?}", r.as_ref().map_err(|e| e.to_string().lines().next().unwrap().to_string()));
    println!("afterwards mass() -> {:?}", loco.mass().map_err(|e| e.to_string().lines().next().unwrap().to_string()));
    println!("afterwards force_max() -> {:?}", loco.force_max().map_err(|e| e.to_string().lines().next().unwrap().to_string()));
    assert!(r.is_err());
    assert!(loco.mass().is_err() || loco.force_max().is_err());
}

/// K2: mass unknown, set_mu(ForceMax) is rejected but mu is changed
#[test]
fn set_mu_force_max_rejects_and_leaves_mu_changed() {
    let mut loco = Locomotive::default();
    loco.set_force_max(loco.force_max().unwrap(), altrios_core::consist::locomotive::locomotive_model::ForceMaxSideEffect::SetMassToNone).unwrap();
    let mu_before = loco.mu().unwrap();
    let r = loco.set_mu(0.25 * uc::R, MuSideEffect::ForceMax);
    println!("set_mu(ForceMax) with unknown mass -> {:?}; mu before {:?} after {:?}", r.as_ref().map_err(|e| e.to_string().lines().next().unwrap().to_string()), mu_before, loco.mu().unwrap());
    assert!(r.is_err());
    assert!(loco.mu().unwrap() != mu_before);
}
