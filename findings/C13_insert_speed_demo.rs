// appended to rust/altrios-core/src/track/path_track/speed_point.rs in a scratch worktree; run with
//   cargo test --offline -p altrios-core --lib demo_c13 -- --nocapture
// pinned code: restriction_inside_one_interval fails (10 m/s stays in force from 100 m to 1000 m); 4723 of 20000 random sets of proper
//   restrictions differ from the pointwise minimum; zero_length_restriction_changes_nothing fails (20 m/s on [4,7) from a restriction covering
//   no position) and the brute force with zero-length restrictions aborts on the profile's own validity assertion.
// after fixes 769b0d2 and the zero-length fix: all three pass, 0 bad cases of 20000 (zero-length restrictions included).
#[cfg(test)]
mod demo_c13 {
    use super::*;
    fn at(sp: &[SpeedLimitPoint], x: f64) -> f64 {
        sp.iter().rev().find(|p| p.offset.value <= x).unwrap().speed_limit.value
    }
    #[test]
    fn restriction_inside_one_interval() {
        let mut sp = vec![
            SpeedLimitPoint { offset: 0.0 * uc::M, speed_limit: 30.0 * uc::MPS },
            SpeedLimitPoint { offset: 1000.0 * uc::M, speed_limit: 20.0 * uc::MPS },
        ];
        sp.insert_speed(&SpeedLimit { offset_start: 100.0 * uc::M, offset_end: 200.0 * uc::M, speed: 10.0 * uc::MPS });
        println!("RESULT {:?}", sp.iter().map(|p| (p.offset.value, p.speed_limit.value)).collect::<Vec<_>>());
        assert_eq!(at(&sp, 150.0), 10.0);
        assert_eq!(at(&sp, 500.0), 30.0, "the restriction ended at 200 m");
    }
    #[test]
    fn zero_length_restriction_changes_nothing() {
        let mut sp = vec![
            SpeedLimitPoint { offset: 0.0 * uc::M, speed_limit: 50.0 * uc::MPS },
            SpeedLimitPoint { offset: 7.0 * uc::M, speed_limit: 30.0 * uc::MPS },
            SpeedLimitPoint { offset: 11.0 * uc::M, speed_limit: 50.0 * uc::MPS },
        ];
        sp.insert_speed(&SpeedLimit { offset_start: 4.0 * uc::M, offset_end: 4.0 * uc::M, speed: 20.0 * uc::MPS });
        println!("ZERO {:?}", sp.iter().map(|p| (p.offset.value, p.speed_limit.value)).collect::<Vec<_>>());
        assert_eq!(at(&sp, 5.0), 50.0, "a restriction of zero length covers no position");
    }
    #[test]
    fn brute_force_against_pointwise_minimum() {
        // deterministic pseudo-random restrictions on a small grid; reference = pointwise minimum
        let mut seed = 12345u64;
        let mut rnd = move |n: u64| { seed = seed.wrapping_mul(6364136223846793005).wrapping_add(1442695040888963407); (seed >> 33) % n };
        let mut bad = 0;
        for _case in 0..20000 {
            let mut sp = vec![SpeedLimitPoint { offset: 0.0 * uc::M, speed_limit: 50.0 * uc::MPS }];
            let mut lims: Vec<(f64, f64, f64)> = vec![];
            let n = 1 + rnd(5);
            let mut ok_order = true;
            for _ in 0..n {
                let a = rnd(12) as f64; let b = a + rnd(6) as f64; let v = 5.0 + 5.0 * rnd(8) as f64;
                // insert_speed requires: not starting before the first point (0) -- always true here
                lims.push((a, b, v));
                sp.insert_speed(&SpeedLimit { offset_start: a * uc::M, offset_end: b * uc::M, speed: v * uc::MPS });
                if !sp.windows(2).all(|w| w[0].offset < w[1].offset) { ok_order = false; }
            }
            let mut good = ok_order;
            for i in 0..40 {
                let x = i as f64 * 0.5 + 0.25;
                let want = lims.iter().filter(|l| l.0 <= x && x < l.1).map(|l| l.2).fold(50.0, f64::min);
                if at(&sp, x) != want { good = false; }
            }
            if !sp.windows(2).all(|w| w[0].speed_limit != w[1].speed_limit) { good = false; }
            if !good { bad += 1; if bad < 4 { println!("BAD lims {:?} -> {:?}", lims, sp.iter().map(|p| (p.offset.value, p.speed_limit.value)).collect::<Vec<_>>()); } }
        }
        println!("BAD CASES {}", bad);
        assert_eq!(bad, 0);
    }
}
